/* Shadow <stdatomic.h> for the C06 check: every atomic step of src/memory.c
 * first yields to the harness's deterministic scheduler and is then performed
 * sequentially consistently (all atomics in the source use the default
 * seq_cst order). Only on the include path of the C06 harness build. */
#ifndef VERIF_SHIM_STDATOMIC_H
#define VERIF_SHIM_STDATOMIC_H
#include <stddef.h>
typedef size_t atomic_size_t;
typedef int atomic_flag;
#define ATOMIC_FLAG_INIT 0
#ifdef __cplusplus
extern "C" {
#endif
void vfs_init(volatile size_t *p, size_t v);
size_t vfs_fetch_add(volatile size_t *p, size_t v);
size_t vfs_fetch_sub(volatile size_t *p, size_t v);
size_t vfs_load(const volatile size_t *p);
void vfs_store(volatile size_t *p, size_t v);
int vfs_flag_tas(volatile int *f);
void vfs_flag_clear(volatile int *f);
int vfs_sched_yield(void);
#ifdef __cplusplus
}
#endif
#define atomic_init(p, v) vfs_init((p), (v))
#define atomic_fetch_add(p, v) vfs_fetch_add((p), (v))
#define atomic_fetch_sub(p, v) vfs_fetch_sub((p), (v))
#define atomic_load(p) vfs_load((p))
#define atomic_store(p, v) vfs_store((p), (v))
#define atomic_flag_test_and_set(f) vfs_flag_tas((f))
#define atomic_flag_clear(f) vfs_flag_clear((f))
#endif
