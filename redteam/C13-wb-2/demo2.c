/* C13 demo 2: swap of two lists that thread the same objects through different node members */
#include <stdio.h>
#include <stddef.h>
#include "cstl/slist.h"

/* an object that sits on two lists at once: every task is on the "all" list, runnable ones also on "ready" */
struct task {
    int id;
    struct cstl_slist_node all;     /* offset 8 */
    struct cstl_slist_node ready;   /* offset 16 */
};

struct seq { void * v[8]; size_t n; };
static int collect(void * e, void * p) { struct seq * s = p; if (s->n < 8) s->v[s->n] = e; s->n++; return 0; }

static int fails;
#define EXPECT(c, ...) do { if (!(c)) { fails++; printf("  violated: "); printf(__VA_ARGS__); printf("\n"); } } while (0)

static void check(const char * name, struct cstl_slist * l, struct task ** ref, size_t n)
{
    struct seq s;
    size_t i;
    s.n = 0;
    cstl_slist_foreach(l, collect, &s);
    EXPECT(cstl_slist_size(l) == n, "%s: size %zu, reference %zu", name, cstl_slist_size(l), n);
    EXPECT(s.n == n, "%s: traversal yields %zu elements, reference %zu", name, s.n, n);
    for (i = 0; i < n && i < s.n && i < 8; i++)
        EXPECT(s.v[i] == (void *)ref[i], "%s: traversal position %zu yields a pointer %td bytes away from the reference element",
               name, i, (char *)s.v[i] - (char *)ref[i]);
    EXPECT(cstl_slist_front(l) == (n ? (void *)ref[0] : NULL), "%s: front is not the reference's first element", name);
    EXPECT(cstl_slist_back(l) == (n ? (void *)ref[n - 1] : NULL), "%s: back is not the true last element", name);
}

int main(void)
{
    DECLARE_CSTL_SLIST(x, struct task, all);
    DECLARE_CSTL_SLIST(y, struct task, ready);
    struct task t[4], extra;
    struct task * ref_all[5], * ref_ready[3];
    int i;

    for (i = 0; i < 4; i++) { t[i].id = i; cstl_slist_push_back(&x, &t[i]); ref_all[i] = &t[i]; }
    cstl_slist_push_back(&y, &t[1]); ref_ready[0] = &t[1];
    cstl_slist_push_back(&y, &t[3]); ref_ready[1] = &t[3];

    check("before swap, x (all)", &x, ref_all, 4);
    check("before swap, y (ready)", &y, ref_ready, 2);

    /* "x will contain the list previously pointed to by y and vice versa" */
    cstl_slist_swap(&x, &y);

    check("after swap, x (was ready)", &x, ref_ready, 2);
    check("after swap, y (was all)", &y, ref_all, 4);

    /* push_back must append after the true last element of what is now the "all" list */
    extra.id = 4;
    cstl_slist_push_back(&y, &extra);
    ref_all[4] = &extra;
    check("after swap + push_back, y (was all)", &y, ref_all, 5);
    check("after swap + push_back, x (was ready)", &x, ref_ready, 2);

    if (fails) { printf("FAIL: %d clause(s) of C13 violated after swap (traversal/front/back do not yield the reference elements)\n", fails); return 1; }
    printf("PASS\n");
    return 0;
}
