/*
 * C19 demo 1: while a rehash is pending, each keyed operation relocates the
 * contents of at most three buckets -- also a find that is given a visit
 * function (the usual way to pick one of several objects, or to compare a
 * full key).
 *
 * 64 objects with keys 0..63 sit in 64 buckets (k % 64), one per bucket.
 * A resize to 128 buckets with another function is requested and then every
 * keyed operation is watched through the hash function: a call (k', 128)
 * for a key k' other than the operation's own key is the relocation of the
 * object with key k', i.e. of the contents of old bucket k' % 64.
 */
#include <stdio.h>
#include <stdlib.h>
#include <string.h>

#include "cstl/hash.h"

struct obj
{
    size_t key;
    struct cstl_hash_node hn;
};

#define OLD_N 64
#define NEW_N 128

static size_t cur_key;                  /* key of the operation in progress */
static unsigned char moved[OLD_N];      /* old buckets relocated by it */
static unsigned int nmoved;

static size_t h_old(const size_t k, const size_t m)
{
    return k % m;
}

static size_t h_new(const size_t k, const size_t m)
{
    if (m == NEW_N && k != cur_key && !moved[k % OLD_N]) {
        moved[k % OLD_N] = 1;
        nmoved++;
    }
    return (k * 7 + 3) % m;
}

static int accept_any(const void * const e, void * const p)
{
    (void)e; (void)p;
    return 1;
}

static int fails;

static void begin_op(const size_t k)
{
    cur_key = k;
    memset(moved, 0, sizeof(moved));
    nmoved = 0;
}

static void end_op(const char * const what, const size_t k)
{
    if (nmoved > 3) {
        printf("FAIL: %s(%zu) while a rehash is pending relocated the "
               "contents of %u buckets (at most 3 allowed)\n",
               what, k, nmoved);
        fails++;
    }
}

int main(void)
{
    DECLARE_CSTL_HASH(h, struct obj, hn);
    static struct obj o[OLD_N];
    unsigned int i, ops;

    cstl_hash_resize(&h, OLD_N, h_old);
    for (i = 0; i < OLD_N; i++) {
        o[i].key = i;
        cstl_hash_insert(&h, i, &o[i]);
    }

    /* grow, with another function: a rehash of 64 buckets is now pending */
    cstl_hash_resize(&h, NEW_N, h_new);

    /* plain finds */
    for (ops = 0; ops < 3; ops++) {
        const size_t k = 10 + ops;
        begin_op(k);
        if (cstl_hash_find(&h, k, NULL, NULL) != &o[k]) {
            printf("FAIL: find(%zu) did not return the object\n", k);
            fails++;
        }
        end_op("find", k);
    }

    /* a find with a visit function, still early in the rehash */
    {
        const size_t k = 40;
        begin_op(k);
        if (cstl_hash_find(&h, k, accept_any, NULL) != &o[k]) {
            printf("FAIL: find(%zu, visitor) did not return the object\n", k);
            fails++;
        }
        end_op("find-with-visitor", k);
    }

    cstl_hash_clear(&h, NULL);

    if (fails) {
        printf("FAIL (%d violations of C19)\n", fails);
        return 1;
    }
    printf("PASS\n");
    return 0;
}
