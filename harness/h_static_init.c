/* Containers set up with the library's STATIC initialiser macros instead of the *_init() functions (the headers
 * recommend both): a field that only one of the two ways sets correctly shows only on objects created that way.
 * The macros are C designated initialisers, so they live in this C file; the harness copies the prototype into its
 * own object (none of these types contains a pointer to itself) and then stores the node-member offset it uses,
 * which the macro would have taken from offsetof(TYPE, MEMB). */
#include <stdint.h>
#include <string.h>
#include "cstl/vector.h"
#include "cstl/hash.h"
#include "cstl/heap.h"
#include "cstl/bintree.h"
#include "cstl/rbtree.h"

struct vf_hash_lay { struct cstl_hash_node m; };
struct vf_heap_lay { struct cstl_heap_node m; };
struct vf_bt_lay { struct cstl_bintree_node m; };
struct vf_rb_lay { struct cstl_rbtree_node m; };

int vf_static_vector(struct cstl_vector *v, size_t es)
{
    static const struct cstl_vector p1 = CSTL_VECTOR_INITIALIZER(uint8_t), p2 = CSTL_VECTOR_INITIALIZER(uint16_t),
                                    p4 = CSTL_VECTOR_INITIALIZER(uint32_t), p8 = CSTL_VECTOR_INITIALIZER(uint64_t);
    const struct cstl_vector *p = es == 1 ? &p1 : es == 2 ? &p2 : es == 4 ? &p4 : es == 8 ? &p8 : NULL;
    if (!p) return 0;
    memcpy(v, p, sizeof *v);
    return 1;
}
void vf_static_hash(struct cstl_hash *h, size_t off)
{
    static const struct cstl_hash p = CSTL_HASH_INITIALIZER(struct vf_hash_lay, m);
    memcpy(h, &p, sizeof *h);
    h->off = off;
}
void vf_static_heap(struct cstl_heap *h, cstl_compare_func_t *cmp, void *priv, size_t off)
{
    struct cstl_heap p = CSTL_HEAP_INITIALIZER(struct vf_heap_lay, m, cmp, priv);
    memcpy(h, &p, sizeof *h);
    h->bt.off = off + offsetof(struct cstl_heap_node, bn);
}
void vf_static_bintree(struct cstl_bintree *t, cstl_compare_func_t *cmp, void *priv, size_t off)
{
    struct cstl_bintree p = CSTL_BINTREE_INITIALIZER(struct vf_bt_lay, m, cmp, priv);
    memcpy(t, &p, sizeof *t);
    t->off = off;
}
void vf_static_rbtree(struct cstl_rbtree *t, cstl_compare_func_t *cmp, void *priv, size_t off)
{
    struct cstl_rbtree p = CSTL_RBTREE_INITIALIZER(struct vf_rb_lay, m, cmp, priv);
    memcpy(t, &p, sizeof *t);
    t->off = off;
    t->t.off = off + offsetof(struct cstl_rbtree_node, n);
}
