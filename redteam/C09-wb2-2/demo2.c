/*
 * C09 / red team round 2, change 2: demonstration.
 *
 * A vector declared with DECLARE_CSTL_VECTOR() (the way the header recommends)
 * is asked for a capacity whose byte count cannot be represented.  reserve()
 * must be a quiet no-op and resize() must abort; the vector must never report
 * a capacity or a size it has no storage for.  The same requests on a vector
 * set up with cstl_vector_init() are run as a control.
 */
#include <stdio.h>
#include <stdlib.h>
#include <stdint.h>
#include <signal.h>
#include <unistd.h>
#include <sys/wait.h>

#include "cstl/vector.h"

struct rec { int a, b, c; };    /* 12 bytes */

static int check_reserve(struct cstl_vector * v, size_t es, const char * how)
{
    /* (n + 1) * es wraps around to a few bytes */
    const size_t n = SIZE_MAX / es + 2;

    cstl_vector_reserve(v, n);
    if (cstl_vector_capacity(v) != 0) {
        printf("FAIL: %s vector, element size %zu: reserve(%zu) reports capacity %zu; "
               "the block behind it was requested with %zu bytes\n",
               how, es, n, cstl_vector_capacity(v), (size_t)((n + 1) * es));
        return 1;
    }
    return 0;
}

/* resize to an unrepresentable size must abort */
static int check_resize(int declared, size_t es, const char * how)
{
    const size_t n = SIZE_MAX / es + 2;
    int st;
    pid_t pid;

    fflush(stdout);
    pid = fork();
    if (pid == 0) {
        DECLARE_CSTL_VECTOR(dv, struct rec);
        struct cstl_vector iv;
        struct cstl_vector * v = declared ? &dv : &iv;

        cstl_vector_init(&iv, es);
        cstl_vector_resize(v, n);
        /* still alive: report what the vector claims */
        _exit(cstl_vector_size(v) == n ? 42 : 43);
    }
    waitpid(pid, &st, 0);
    if (WIFSIGNALED(st) && WTERMSIG(st) == SIGABRT) {
        return 0;
    }
    printf("FAIL: %s vector, element size %zu: resize(%zu) returned instead of aborting "
           "(size afterwards %s the request)\n", how, es, n,
           WIFEXITED(st) && WEXITSTATUS(st) == 42 ? "equals" : "differs from");
    return 1;
}

int main(void)
{
    DECLARE_CSTL_VECTOR(dv, struct rec);
    DECLARE_CSTL_VECTOR(di, int);
    struct cstl_vector iv;
    int bad = 0;

    cstl_vector_init(&iv, sizeof(struct rec));

    bad |= check_reserve(&iv, sizeof(struct rec), "cstl_vector_init()");
    bad |= check_reserve(&dv, sizeof(struct rec), "DECLARE_CSTL_VECTOR()");
    bad |= check_reserve(&di, sizeof(int), "DECLARE_CSTL_VECTOR()");
    bad |= check_resize(0, sizeof(struct rec), "cstl_vector_init()");
    bad |= check_resize(1, sizeof(struct rec), "DECLARE_CSTL_VECTOR()");

    if (bad) {
        return 1;
    }
    cstl_vector_clear(&iv);
    cstl_vector_clear(&dv);
    cstl_vector_clear(&di);
    printf("PASS\n");
    return 0;
}
