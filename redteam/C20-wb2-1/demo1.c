/*
 * C20 / red team round 2, change 1 -- demonstration.
 *
 * The guarantee: the first library call that would release the pointer
 * through a bitwise copy of a smart pointer ABORTS THE PROCESS. abort()
 * gives that guarantee whatever the program did with SIGABRT: a handler
 * that returns (the usual crash logger: write a line, return, let abort()
 * finish the job), SIG_IGN, or a thread that keeps all signals blocked
 * (the usual worker thread of a server that handles signals in one
 * dedicated sigwait() thread) -- abort() unblocks the signal, and if the
 * handler returns it restores the default action and raises it again.
 *
 * Three child processes make a stray copy of an owning unique pointer and
 * reset the copy. Each must be killed by SIGABRT. A child that survives
 * the call reports what the call did (the clear function ran and the
 * memory was freed through the copy while the original still owns it --
 * the original's own reset would be the double free) and exits normally.
 */
#define _GNU_SOURCE
#include <pthread.h>
#include <signal.h>
#include <stdio.h>
#include <string.h>
#include <sys/wait.h>
#include <unistd.h>

#include "cstl/memory.h"

static volatile sig_atomic_t logged;
static int cleared;

static void crash_logger(int sig)
{
    static const char m[] = "    [crash logger] caught SIGABRT, returning so that abort() can finish\n";
    ssize_t r = write(2, m, sizeof(m) - 1);
    (void)r; (void)sig;
    logged = 1;
}

static void clr(void * p, void * priv)
{
    (void)p; (void)priv;
    cleared++;
}

static void use_a_stray_copy(void)
{
    DECLARE_CSTL_UNIQUE_PTR(orig);
    cstl_unique_ptr_t stray;

    cstl_unique_ptr_alloc(&orig, 64, clr, NULL);
    stray = orig;                       /* the forbidden bitwise copy */
    cstl_unique_ptr_reset(&stray);      /* must not return */

    fprintf(stderr,
            "    the call on the stray copy RETURNED: clear function ran %d "
            "time(s), the block was freed through the copy,\n"
            "    and the original still holds %p -- its reset is the double free\n",
            cleared, cstl_unique_ptr_get(&orig));
}

static void child(int mode)
{
    if (mode == 0) {
        struct sigaction sa;
        memset(&sa, 0, sizeof(sa));
        sa.sa_handler = crash_logger;
        sigemptyset(&sa.sa_mask);
        sigaction(SIGABRT, &sa, NULL);
    } else if (mode == 1) {
        signal(SIGABRT, SIG_IGN);
    } else {
        sigset_t all;
        sigfillset(&all);
        pthread_sigmask(SIG_BLOCK, &all, NULL);
    }
    use_a_stray_copy();
    _exit(0);
}

int main(void)
{
    static const char * const what[] = {
        "SIGABRT handler that logs and returns",
        "SIGABRT ignored",
        "worker thread style: all signals blocked",
    };
    int mode, bad = 0;

    for (mode = 0; mode < 3; mode++) {
        int st = 0;
        pid_t pid;

        fflush(NULL);
        pid = fork();
        if (pid == 0) {
            child(mode);
        }
        waitpid(pid, &st, 0);
        if (WIFSIGNALED(st) && WTERMSIG(st) == SIGABRT) {
            printf("  %-45s: process aborted (SIGABRT)\n", what[mode]);
        } else {
            printf("  %-45s: process SURVIVED the call on the stray copy "
                   "(wait status 0x%x)\n", what[mode], st);
            bad++;
        }
    }

    if (bad) {
        printf("FAIL: %d of 3 programs were not aborted by "
               "cstl_unique_ptr_reset() on a bitwise copy\n", bad);
        return 1;
    }
    printf("PASS\n");
    return 0;
}
