/*
 * C01 / red team round 2, change 1 -- demonstration
 *
 * A client keeps a multiset of integers in a cstl_bintree and in a cstl_rbtree
 * and adds every element the way bintree.h documents it: ask cstl_*_find() for
 * the parent ("the parent of the found element (or where it would be located)")
 * and hand that parent to cstl_*_insert() as the hint.  The variable that
 * receives the parent lives outside the loop -- find() is documented to store
 * into it on every call, so the client never resets it.
 *
 * The guarantee checked is the one of C01: after any sequence of (hinted)
 * inserts the tree holds exactly the inserted elements, size equals their
 * number, a forward walk presents them in non-decreasing and a reverse walk in
 * non-increasing order, and find() finds every key that is held.
 */
#include <stdio.h>
#include <stdlib.h>
#include <string.h>

#include "cstl/bintree.h"
#include "cstl/rbtree.h"

struct item {
    int key;
    int seq;
    struct cstl_bintree_node bn;
    struct cstl_rbtree_node rn;
};

static int cmp_item(const void * const a, const void * const b, void * const p)
{
    (void)p;
    return ((const struct item *)a)->key - ((const struct item *)b)->key;
}

static int failures;
#define FAILF(...) do { printf("  violated: " __VA_ARGS__); printf("\n"); failures++; } while (0)

struct walk {
    int n, bad, last, dir;
};

static int visit(const void * const e, const cstl_bintree_visit_order_t ord,
                 void * const p)
{
    struct walk * const w = p;
    if (ord == CSTL_BINTREE_VISIT_ORDER_MID
        || ord == CSTL_BINTREE_VISIT_ORDER_LEAF) {
        const int k = ((const struct item *)e)->key;
        if (w->n > 0) {
            if (w->dir == CSTL_BINTREE_FOREACH_DIR_FWD ? k < w->last : k > w->last) {
                w->bad++;
            }
        }
        w->last = k;
        w->n++;
    }
    return 0;
}

/* the keys the client adds, duplicates included */
static const int keys[] = { 50, 20, 80, 10, 80, 30, 20, 90, 50, 10, 60, 80 };
#define NKEYS ((int)(sizeof(keys) / sizeof(keys[0])))

static void free_item(void * const e, void * const p)
{
    (void)p;
    free(e);
}

static void run(const int rb)
{
    const char * const kind = rb ? "rbtree" : "bintree";
    struct cstl_bintree bt;
    struct cstl_rbtree rt;
    const void * parent = NULL;     /* written by every find(), per the header */
    int i, d;

    cstl_bintree_init(&bt, cmp_item, NULL, offsetof(struct item, bn));
    cstl_rbtree_init(&rt, cmp_item, NULL, offsetof(struct item, rn));

    printf("%s: hinted inserts of", kind);
    for (i = 0; i < NKEYS; i++) {
        printf(" %d", keys[i]);
    }
    printf("\n");

    for (i = 0; i < NKEYS; i++) {
        struct item * const it = malloc(sizeof(*it));
        const void * found;
        /* a value find() can never legitimately report for this element */
        const void * const before = parent;

        memset(it, 0x5a, sizeof(*it));
        it->key = keys[i];
        it->seq = i;

        if (rb) {
            found = cstl_rbtree_find(&rt, it, &parent);
        } else {
            found = cstl_bintree_find(&bt, it, &parent);
        }
        if (found != NULL && parent == before && before != NULL
            && ((const struct item *)before)->key != keys[i]) {
            /* (only a hint for the reader; the verdict comes from the checks below) */
            printf("  note: find(%d) found an element but left the parent variable at the "
                   "previous call's value (element with key %d)\n",
                   keys[i], ((const struct item *)before)->key);
        }
        if (rb) {
            cstl_rbtree_insert(&rt, it, (void *)parent);
        } else {
            cstl_bintree_insert(&bt, it, (void *)parent);
        }
    }

    {
        const size_t sz = rb ? cstl_rbtree_size(&rt) : cstl_bintree_size(&bt);
        if (sz != (size_t)NKEYS) {
            FAILF("%s size %zu, %d elements were inserted", kind, sz, NKEYS);
        }
    }
    for (d = 0; d < 2; d++) {
        struct walk w;
        int rv;
        memset(&w, 0, sizeof(w));
        w.dir = d == 0 ? CSTL_BINTREE_FOREACH_DIR_FWD : CSTL_BINTREE_FOREACH_DIR_REV;
        if (rb) {
            rv = cstl_rbtree_foreach(&rt, visit, &w, w.dir);
        } else {
            rv = cstl_bintree_foreach(&bt, visit, &w, w.dir);
        }
        if (rv != 0 || w.n != NKEYS) {
            FAILF("%s %s walk presented %d of %d elements (returned %d)",
                  kind, d == 0 ? "forward" : "reverse", w.n, NKEYS, rv);
        }
        if (w.bad != 0) {
            FAILF("%s %s walk is out of order at %d place(s)",
                  kind, d == 0 ? "forward" : "reverse", w.bad);
        }
    }
    for (i = 0; i < NKEYS; i++) {
        struct item probe;
        const void * f;
        probe.key = keys[i];
        f = rb ? cstl_rbtree_find(&rt, &probe, NULL)
            : cstl_bintree_find(&bt, &probe, NULL);
        if (f == NULL) {
            FAILF("%s find(%d) returns NULL although an element with that key is held",
                  kind, keys[i]);
        }
    }
    /*
     * every held element can be erased again, one per call (not attempted on
     * a tree already shown to be out of order: erase may then do anything)
     */
    for (i = 0; failures == 0 && i < NKEYS; i++) {
        struct item probe;
        struct item * e;
        probe.key = keys[i];
        e = rb ? cstl_rbtree_erase(&rt, &probe) : cstl_bintree_erase(&bt, &probe);
        if (e == NULL) {
            FAILF("%s erase(%d) returns NULL although such an element was inserted and never removed",
                  kind, keys[i]);
        } else {
            free(e);
        }
    }
    if (rb) {
        cstl_rbtree_clear(&rt, free_item, NULL);
    } else {
        cstl_bintree_clear(&bt, free_item, NULL);
    }
}

int main(void)
{
    run(0);
    run(1);
    if (failures != 0) {
        printf("FAIL: %d violation(s) of C01 after inserts hinted by cstl_*_find()\n", failures);
        return 1;
    }
    printf("PASS: both trees hold exactly the inserted multiset, in order\n");
    return 0;
}
