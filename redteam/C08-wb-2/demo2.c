/*
 * C08 demo 2: "size always matches" must also hold after cstl_map_clear()
 * and for everything done with the map afterwards.
 */
#include "cstl/map.h"

#include <stdio.h>

static int cmp_int(const void * const a, const void * const b, void * const p)
{
    const int x = *(const int *)a, y = *(const int *)b;
    (void)p;
    return (x > y) - (x < y);
}

static unsigned cleared;
static void count_cb(void * const it, void * const p)
{
    (void)it; (void)p;
    cleared++;
}

int main(void)
{
    static int keys[8] = { 5, 1, 7, 3, 6, 2, 8, 4 };
    static int vals[8];
    cstl_map_t m;
    cstl_map_iterator_t it;
    int k, bad = 0;
    const int probe = 5;

    cstl_map_init(&m, cmp_int, NULL);
    for (k = 0; k < 5; k++) {
        if (cstl_map_insert(&m, &keys[k], &vals[k], NULL) != 0) {
            printf("FAIL: insert\n");
            return 1;
        }
    }
    if (cstl_map_size(&m) != 5) {
        printf("FAIL: size %lu after 5 inserts\n",
               (unsigned long)cstl_map_size(&m));
        return 1;
    }

    cstl_map_clear(&m, count_cb, NULL);
    if (cleared != 5) {
        printf("  clear made %u callbacks for 5 entries\n", cleared);
        bad = 1;
    }
    cstl_map_find(&m, &probe, &it);
    if (!cstl_map_iterator_eq(&it, cstl_map_iterator_end(&m))) {
        printf("  a key is still found after clear\n");
        bad = 1;
    }
    if (cstl_map_size(&m) != 0) {
        printf("  the map is empty (no key can be found) but "
               "cstl_map_size() says %lu\n", (unsigned long)cstl_map_size(&m));
        bad = 1;
    }

    /* the map is reused */
    for (k = 5; k < 7; k++) {
        (void)cstl_map_insert(&m, &keys[k], &vals[k], NULL);
    }
    if (cstl_map_size(&m) != 2) {
        printf("  2 entries inserted after the clear, cstl_map_size() "
               "says %lu\n", (unsigned long)cstl_map_size(&m));
        bad = 1;
    }
    cstl_map_clear(&m, NULL, NULL);

    if (bad) {
        printf("FAIL: size does not match the entries in the map\n");
        return 1;
    }
    printf("PASS\n");
    return 0;
}
