/*
 * C12 demo 2: "sort yields an ordered permutation of the same elements".
 * Records with ordinary integer keys (ports, prices, timestamps ...) and the
 * textbook comparison function `a->key - b->key` -- the very one the library's
 * own unit tests use -- are sorted; afterwards the forward traversal must be
 * non-decreasing, the backward traversal its mirror image, and the elements
 * the same ones.
 */
#include <stdio.h>
#include <stdlib.h>
#include <stddef.h>
#include "cstl/dlist.h"

struct item { int key; int seen; struct cstl_dlist_node ln; };

static int cmp(const void *a, const void *b, void *p)
{
    (void)p;
    return ((const struct item *)a)->key - ((const struct item *)b)->key;
}

struct walk { struct item *v[256]; size_t n; };
static int visit(void *e, void *p)
{
    struct walk *w = p;
    if (w->n == 256) return 1;
    w->v[w->n++] = e;
    return 0;
}

static int sort_and_check(const int *keys, size_t n, const char *what)
{
    static struct item it[256];
    struct walk f = { {0}, 0 }, r = { {0}, 0 };
    struct cstl_dlist l;
    size_t i;

    cstl_dlist_init(&l, offsetof(struct item, ln));
    for (i = 0; i < n; i++) { it[i].key = keys[i]; it[i].seen = 0; cstl_dlist_push_back(&l, &it[i]); }
    cstl_dlist_sort(&l, cmp, NULL);
    cstl_dlist_foreach(&l, visit, &f, CSTL_DLIST_FOREACH_DIR_FWD);
    cstl_dlist_foreach(&l, visit, &r, CSTL_DLIST_FOREACH_DIR_REV);
    if (cstl_dlist_size(&l) != n || f.n != n || r.n != n) {
        printf("FAIL: %s: %zu elements went in, size %zu, traversals %zu/%zu\n", what, n, cstl_dlist_size(&l), f.n, r.n);
        return 1;
    }
    for (i = 0; i < n; i++) f.v[i]->seen++;
    for (i = 0; i < n; i++) if (it[i].seen != 1) { printf("FAIL: %s: result is not a permutation of the same elements\n", what); return 1; }
    for (i = 0; i < n; i++) if (f.v[i] != r.v[n - 1 - i]) { printf("FAIL: %s: backward traversal is not the mirror image\n", what); return 1; }
    for (i = 1; i < n; i++) {
        if (f.v[i - 1]->key > f.v[i]->key) {
            printf("FAIL: %s: sorted list is out of order at position %zu: %d comes before %d\n", what, i, f.v[i - 1]->key, f.v[i]->key);
            return 1;
        }
    }
    return 0;
}

int main(void)
{
    static const int small[] = { 5, 3, 1, 4, 2, 2, 7, 0, 6, 3 };
    static const int ports[] = { 443, 22, 8080, 80, 3306, 25, 5432, 8443, 53, 6379, 123, 1024 };
    static const int two[] = { 300, 100 };
    int big[200];
    size_t i;
    unsigned x = 12345;

    for (i = 0; i < 200; i++) { x = x * 1103515245u + 12345u; big[i] = (int)((x >> 8) % 100000); }
    if (sort_and_check(small, sizeof small / sizeof small[0], "keys 0..7")) return 1;
    if (sort_and_check(two, 2, "keys {300, 100}")) return 1;
    if (sort_and_check(ports, sizeof ports / sizeof ports[0], "port numbers")) return 1;
    if (sort_and_check(big, 200, "200 keys below 100000")) return 1;
    printf("PASS: cstl_dlist_sort yields an ordered permutation for small and for ordinary integer keys\n");
    return 0;
}
