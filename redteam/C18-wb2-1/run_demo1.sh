#!/bin/sh
# run from the worktree root: sh _seed/run_demo1.sh
# (a header that came and went with a patch leaves stale build/*.d dependency files behind: drop them and retry)
make b >/dev/null 2>&1 || { rm -f build/*.d; make b >/dev/null 2>&1; } || { echo "FAIL: make b failed"; exit 1; }
D=_seed/demo1
CF="-Wall -Wextra -Werror=vla -Werror=declaration-after-statement -std=c99 -pedantic -D_POSIX_C_SOURCE=199309L -O0 -Iinclude -I$D"
rc=0
gcc $CF -c $D/main.c -o $D/main.o && gcc $CF -c $D/compat.c -o $D/compat.o || { echo "FAIL: client does not compile"; exit 1; }
# 1. against the static library
if gcc -o $D/prog_static $D/main.o $D/compat.o build/libcstl.a -lm 2>$D/link_static.log; then
    ./$D/prog_static || { echo "FAIL: statically linked client misbehaves (exit $?)"; rc=1; }
else
    grep -m2 "multiple definition\|first defined" $D/link_static.log
    echo "FAIL: duplicate symbol when the client is linked against build/libcstl.a"
    rc=1
fi
# 2. against the shared library
if gcc -o $D/prog_shared $D/main.o $D/compat.o -Lbuild -Wl,-rpath,$PWD/build -lcstl -lm 2>$D/link_shared.log; then
    LD_LIBRARY_PATH=$PWD/build ./$D/prog_shared || { echo "FAIL: client linked against build/libcstl.so misbehaves (exit $?)"; rc=1; }
else
    cat $D/link_shared.log; echo "FAIL: client does not link against build/libcstl.so"; rc=1
fi
[ $rc -eq 0 ] && echo PASS
exit $rc
