// C06, engine G6: real threads under ThreadSanitizer. The same kind of scenario
// as h_c06.cpp (threads with private shared/weak pointer objects on one
// allocation), library built normally with -fsanitize=thread. Oracle = TSan
// report (data race on the library's bookkeeping) + exactly-once counters.
// Nondeterministic by nature: can only miss, not invent, a violation.
//
//   h_c06t run <seed> <worker> <iterations> <outdir>
#include <atomic>
#include <cstdint>
#include <cstdio>
#include <cstdlib>
#include <cstring>
#include <string>
#include <vector>
#include <pthread.h>
#include <sys/time.h>
#include <unistd.h>
extern "C" {
#include "cstl/memory.h"
void *__real_malloc(size_t);
void __real_free(void *);
}

namespace {
struct Rng {
    uint64_t s;
    explicit Rng(uint64_t seed) : s(seed) {}
    uint64_t next()
    {
        uint64_t z = (s += 0x9E3779B97F4A7C15ull);
        z = (z ^ (z >> 30)) * 0xBF58476D1CE4E5B9ull;
        z = (z ^ (z >> 27)) * 0x94D049BB133111EBull;
        return z ^ (z >> 31);
    }
    uint32_t below(uint32_t n) { return n ? (uint32_t)(next() % n) : 0; }
};
const int MAXT = 4, NSH = 3, NWK = 2;
enum { O_SHARE, O_RESET, O_WEAK_FROM, O_LOCK, O_WEAK_RESET, NSOPS };
const char *SOPN[] = {"share", "reset", "weak_from", "lock", "weak_reset"};

struct Thread {
    int id, len, ops[6], args[6];
    cstl_shared_ptr_t S[NSH];
    cstl_weak_ptr_t W[NWK];
    bool w_set[NWK];
    long locks_ok, locks_failed;
};
Thread TH[MAXT];
int T;
pthread_barrier_t g_bar;
std::atomic<int> g_clr, g_managed_frees, g_book_frees;
std::atomic<void *> g_managed, g_book;
std::atomic<int> g_alloc_phase;     // 1 while the scenario's allocation is being made
std::string g_scen;

[[noreturn]] void fail(const char *clause, const char *msg)
{
    fprintf(stderr, "scenario: %s\nVERIF-FAIL clause=%s msg=%s\n", g_scen.c_str(), clause, msg);
    _exit(97);
}
void clr_cb(void *p, void *)
{
    g_clr++;
    if (p != g_managed.load()) fail("C06.clear.ptr", "clear callback received a pointer that is not the managed memory");
}
cstl_shared_ptr_t *first_owner(Thread &t) { for (auto &s : t.S) if (cstl_shared_ptr_get(&s)) return &s; return nullptr; }
cstl_shared_ptr_t *free_slot(Thread &t, cstl_shared_ptr_t *not_this)
{
    for (auto &s : t.S) if (!cstl_shared_ptr_get(&s) && &s != not_this) return &s;
    for (auto &s : t.S) if (&s != not_this) return &s;
    return &t.S[0];
}
void *thread_main(void *arg)
{
    Thread &t = *(Thread *)arg;
    pthread_barrier_wait(&g_bar);
    for (int i = 0; i < t.len; i++) {
        switch (t.ops[i]) {
        case O_SHARE: {
            auto *s = first_owner(t);
            if (s) {
                // a plain owner held by this thread: the memory must be alive before and after it shares
                void *m = cstl_shared_ptr_get(s);
                ((volatile char *)m)[16 + t.id] = 3;
                if (g_clr.load() != 0 || g_managed_frees.load() != 0) fail("C06.clear.owner_remains", "this thread holds an owning shared pointer, but the memory was already cleared or freed");
                cstl_shared_ptr_share(s, free_slot(t, s));
                ((volatile char *)m)[16 + t.id] = 4;
                if (g_clr.load() != 0 || g_managed_frees.load() != 0) fail("C06.clear.owner_remains", "this thread holds an owning shared pointer, but the memory was already cleared or freed");
            }
            break;
        }
        case O_RESET: { auto *s = first_owner(t); if (s) cstl_shared_ptr_reset(s); break; }
        case O_WEAK_FROM: { auto *s = first_owner(t); if (s) { int k = t.args[i] % NWK; cstl_weak_ptr_from(&t.W[k], s); t.w_set[k] = true; } break; }
        case O_LOCK: {
            int k = t.args[i] % NWK;
            if (!t.w_set[k]) k = (k + 1) % NWK;
            if (!t.w_set[k]) break;
            auto *d = free_slot(t, nullptr);
            cstl_weak_ptr_lock(&t.W[k], d);
            void *m = cstl_shared_ptr_get(d);
            if (m) {
                t.locks_ok++;
                ((volatile char *)m)[8 + t.id] = 2;  // each thread touches its own byte (the caller mediates access to the memory)
                if (g_clr.load() != 0 || g_managed_frees.load() != 0) fail("C06.lock.live", "holding an owner obtained by lock, but the memory was already cleared or freed");
                sched_yield();
                ((volatile char *)m)[t.id] = 1;
                if (g_clr.load() != 0 || g_managed_frees.load() != 0) fail("C06.lock.live", "holding an owner obtained by lock, but the memory was already cleared or freed");
                cstl_shared_ptr_reset(d);
            } else t.locks_failed++;
            break;
        }
        case O_WEAK_RESET: { int k = t.args[i] % NWK; cstl_weak_ptr_reset(&t.W[k]); t.w_set[k] = false; break; }
        }
    }
    for (auto &s : t.S) cstl_shared_ptr_reset(&s);
    for (int k = 0; k < NWK; k++) { cstl_weak_ptr_reset(&t.W[k]); t.w_set[k] = false; }
    return nullptr;
}
double now_s() { struct timeval tv; gettimeofday(&tv, nullptr); return tv.tv_sec + tv.tv_usec * 1e-6; }
} // namespace

extern "C" {
// count frees of the two blocks of the scenario (link-time interposition)
void *__wrap_malloc(size_t n)
{
    void *p = __real_malloc(n);
    if (g_alloc_phase.load() == 1) { if (n >= 1000) g_managed = p; else if (!g_book.load()) g_book = p; }
    return p;
}
void __wrap_free(void *p)
{
    if (p && g_alloc_phase.load() == 2) {
        if (p == g_managed.load()) g_managed_frees++;
        else if (p == g_book.load()) g_book_frees++;
    }
    __real_free(p);
}
void *__real_calloc(size_t, size_t);
void *__real_realloc(void *, size_t);
void *__wrap_calloc(size_t a, size_t b) { return __real_calloc(a, b); }
void *__wrap_realloc(void *p, size_t n) { return __real_realloc(p, n); }
}

int main(int argc, char **argv)
{
    if (argc < 6 || strcmp(argv[1], "run")) { fprintf(stderr, "usage: %s run <seed> <worker> <iterations> <outdir>\n", argv[0]); return 2; }
    uint64_t seed = strtoull(argv[2], 0, 0);
    unsigned worker = (unsigned)atoi(argv[3]);
    uint64_t iters = strtoull(argv[4], 0, 0);
    std::string outdir = argv[5];
    double t0 = now_s();
    uint64_t nontrivial = 0, locks_ok = 0, locks_failed = 0, byT[5] = {0, 0, 0, 0, 0};
    std::vector<std::string> samples;
    for (uint64_t it = 0; it < iters; it++) {
        Rng r(seed * 1000003 + worker * 7919 + it);
        T = 2 + (int)r.below(3);
        g_clr = 0; g_managed_frees = 0; g_book_frees = 0;
        g_managed = nullptr; g_book = nullptr;
        cstl_shared_ptr_t root;
        cstl_shared_ptr_init(&root);
        g_alloc_phase = 1;
        const bool has_clr = (it & 3) != 3;       // every fourth scenario: memory without a clear callback
        cstl_shared_ptr_alloc(&root, 1000, has_clr ? clr_cb : nullptr);
        g_alloc_phase = 2;
        if (!cstl_shared_ptr_get(&root)) continue;
        g_scen = "seed=" + std::to_string(seed) + " worker=" + std::to_string(worker) + " it=" + std::to_string(it) + " T=" + std::to_string(T);
        bool has_lock = false, has_reset = false;
        int total_owners = 0;
        for (int t = 0; t < T; t++) {
            Thread &th = TH[t];
            th.id = t;
            th.locks_ok = th.locks_failed = 0;
            int owners = (int)r.below(3), weaks = (int)r.below(3);
            if (t == 0 && owners == 0) owners = 1;
            total_owners += owners;
            for (int i = 0; i < NSH; i++) cstl_shared_ptr_init(&th.S[i]);
            for (int k = 0; k < NWK; k++) { cstl_weak_ptr_init(&th.W[k]); th.w_set[k] = false; }
            for (int i = 0; i < owners; i++) cstl_shared_ptr_share(&root, &th.S[i]);
            for (int k = 0; k < weaks; k++) { cstl_weak_ptr_from(&th.W[k], &root); th.w_set[k] = true; }
            th.len = 1 + (int)r.below(5);
            g_scen += " | t" + std::to_string(t) + "(o" + std::to_string(owners) + ",w" + std::to_string(weaks) + "):";
            for (int i = 0; i < th.len; i++) {
                th.ops[i] = r.below(2) ? (r.below(2) ? O_LOCK : O_RESET) : (int)r.below(NSOPS);
                th.args[i] = (int)r.below(8);
                if (th.ops[i] == O_LOCK && weaks) has_lock = true;
                if (th.ops[i] == O_RESET && owners) has_reset = true;
                g_scen += std::string(" ") + SOPN[th.ops[i]];
            }
        }
        cstl_shared_ptr_reset(&root);
        pthread_barrier_init(&g_bar, nullptr, (unsigned)T);
        pthread_t tid[MAXT];
        for (int t = 0; t < T; t++) pthread_create(&tid[t], nullptr, thread_main, &TH[t]);
        for (int t = 0; t < T; t++) pthread_join(tid[t], nullptr);
        pthread_barrier_destroy(&g_bar);
        g_alloc_phase = 0;
        if (g_clr.load() != (has_clr ? 1 : 0)) fail("C06.clear.once", ("clear callback ran " + std::to_string(g_clr.load()) + " times").c_str());
        if (g_managed_frees.load() != 1) fail("C06.free.once", ("managed memory freed " + std::to_string(g_managed_frees.load()) + " times").c_str());
        if (g_book_frees.load() != 1) fail("C06.book.once", ("bookkeeping block freed " + std::to_string(g_book_frees.load()) + " times").c_str());
        for (int t = 0; t < T; t++) { locks_ok += TH[t].locks_ok; locks_failed += TH[t].locks_failed; }
        byT[T]++;
        if (has_lock && has_reset) nontrivial++;
        if (samples.size() < 3 && has_lock && has_reset) samples.push_back(g_scen);
        (void)total_owners;
    }
    FILE *f = fopen((outdir + "/stats-g6-" + std::to_string(worker) + ".json").c_str(), "w");
    if (f) {
        fprintf(f, "{\"engine\":\"g6-tsan-threads\",\"harness\":\"c06t\",\"prop\":\"C06\",\"evaluations\":%llu,\"nontrivial\":%llu,"
                   "\"distinct_nontrivial\":0,\"distinct_extra\":%llu,\"wall_s\":%.3f,\"counters\":{\"class.g6.locks_owner\":%llu,"
                   "\"class.g6.locks_failed\":%llu,\"class.g6.threads2\":%llu,\"class.g6.threads3\":%llu,\"class.g6.threads4\":%llu},\"samples\":[",
                (unsigned long long)iters, (unsigned long long)nontrivial, (unsigned long long)nontrivial, now_s() - t0,
                (unsigned long long)locks_ok, (unsigned long long)locks_failed, (unsigned long long)byT[2], (unsigned long long)byT[3],
                (unsigned long long)byT[4]);
        for (size_t i = 0; i < samples.size(); i++) fprintf(f, "%s{\"ops\":[\"%s\"],\"nontrivial\":true}", i ? "," : "", samples[i].c_str());
        fprintf(f, "],\"note\":\"real threads under ThreadSanitizer: scenarios are seeded and distinct (seed,worker,iteration), schedules are the OS's\"}\n");
        fclose(f);
    }
    return 0;
}
