/*
 * C11 / wave 5, change 2: demo.
 *
 * Sorts and reverses small vectors through the public vector API of the
 * library as `make b` ships it (build/libcstl.a, -O2 -DNDEBUG) and checks the
 * result. Every scenario runs in a child process so that a crash inside the
 * library is reported instead of killing the demo.
 */
#include <stdio.h>
#include <stdlib.h>
#include <string.h>
#include <signal.h>
#include <unistd.h>
#include <sys/types.h>
#include <sys/wait.h>

#include "cstl/vector.h"

struct rec {
    int key;
    char name[8];   /* 12-byte element: cstl_swap's memcpy path */
};

static int cmp_int(const void * a, const void * b, void * p)
{
    (void)p;
    return (*(const int *)a > *(const int *)b)
           - (*(const int *)a < *(const int *)b);
}

static int cmp_rec(const void * a, const void * b, void * p)
{
    (void)p;
    return ((const struct rec *)a)->key - ((const struct rec *)b)->key;
}

/* each scenario returns 0 when the guarantee held, else a small code */
static int sort_ints(const cstl_sort_algorithm_t algo, const int wrapper)
{
    static const int in[] = { 5, 1, 4, 1, 9, 2, 8, 3, 7, 0, 6 };
    const size_t n = sizeof(in) / sizeof(*in);
    DECLARE_CSTL_VECTOR(v, int);
    size_t i;
    int sum = 0, res = 0;

    cstl_vector_resize(&v, n);
    memcpy(cstl_vector_data(&v), in, sizeof(in));
    if (wrapper) {
        cstl_vector_sort(&v, cmp_int, NULL);
    } else {
        __cstl_vector_sort(&v, cmp_int, NULL, cstl_swap, algo);
    }
    for (i = 0; i < n; i++) {
        sum += *(int *)cstl_vector_at(&v, i);
        if (i > 0 && *(int *)cstl_vector_at(&v, i - 1)
            > *(int *)cstl_vector_at(&v, i)) {
            res = 2;
        }
    }
    if (sum != 46) {
        res = 3;
    }
    cstl_vector_clear(&v);
    return res;
}

static int sort_recs(void)
{
    DECLARE_CSTL_VECTOR(v, struct rec);
    size_t i;
    int res = 0;

    cstl_vector_reserve(&v, 10);    /* capacity > size */
    cstl_vector_resize(&v, 4);
    for (i = 0; i < 4; i++) {
        struct rec * const r = cstl_vector_at(&v, i);
        r->key = (int)((i * 7 + 3) % 5);
        snprintf(r->name, sizeof(r->name), "r%d", r->key);
    }
    cstl_vector_sort(&v, cmp_rec, NULL);
    for (i = 0; i < 4; i++) {
        const struct rec * const r = cstl_vector_at(&v, i);
        char want[8];
        snprintf(want, sizeof(want), "r%d", r->key);
        if (strcmp(want, r->name) != 0) {
            res = 3;
        }
        if (i > 0 && ((const struct rec *)cstl_vector_at(&v, i - 1))->key
            > r->key) {
            res = 2;
        }
    }
    cstl_vector_clear(&v);
    return res;
}

static int reverse_ints(void)
{
    DECLARE_CSTL_VECTOR(v, int);
    int i, res = 0;

    cstl_vector_resize(&v, 5);
    for (i = 0; i < 5; i++) {
        *(int *)cstl_vector_at(&v, i) = i;
    }
    cstl_vector_reverse(&v);
    for (i = 0; i < 5; i++) {
        if (*(int *)cstl_vector_at(&v, i) != 4 - i) {
            res = 2;
        }
    }
    cstl_vector_clear(&v);
    return res;
}

static int empty_vector(void)
{
    DECLARE_CSTL_VECTOR(v, int);
    cstl_vector_sort(&v, cmp_int, NULL);
    cstl_vector_reverse(&v);
    return cstl_vector_size(&v) == 0 ? 0 : 2;
}

static int scenario(const int k)
{
    switch (k) {
    case 0: return sort_ints(CSTL_SORT_ALGORITHM_DEFAULT, 1);
    case 1: return sort_ints(CSTL_SORT_ALGORITHM_QUICK, 0);
    case 2: return sort_ints(CSTL_SORT_ALGORITHM_QUICK_R, 0);
    case 3: return sort_ints(CSTL_SORT_ALGORITHM_QUICK_M, 0);
    case 4: return sort_ints(CSTL_SORT_ALGORITHM_HEAP, 0);
    case 5: return sort_ints((cstl_sort_algorithm_t)99, 0);
    case 6: return sort_recs();
    case 7: return reverse_ints();
    default: return empty_vector();
    }
}

static const char * const names[] = {
    "cstl_vector_sort() of 11 ints",
    "__cstl_vector_sort(QUICK) of 11 ints",
    "__cstl_vector_sort(QUICK_R) of 11 ints",
    "__cstl_vector_sort(QUICK_M) of 11 ints",
    "__cstl_vector_sort(HEAP) of 11 ints",
    "__cstl_vector_sort(99) of 11 ints",
    "cstl_vector_sort() of 4 twelve-byte records, capacity 10",
    "cstl_vector_reverse() of 5 ints",
    "sort and reverse of an empty, never allocated vector",
};

int main(void)
{
    int k, failures = 0;

    srand(1);
    for (k = 0; k < (int)(sizeof(names) / sizeof(*names)); k++) {
        int status = 0;
        pid_t pid;

        fflush(stdout);
        pid = fork();
        if (pid < 0) {
            perror("fork");
            return 2;
        }
        if (pid == 0) {
            alarm(10);
            _exit(scenario(k));
        }
        if (waitpid(pid, &status, 0) != pid) {
            perror("waitpid");
            return 2;
        }
        if (WIFSIGNALED(status)) {
            printf("FAIL: %s: killed by signal %d inside the library (%s)\n",
                   names[k], WTERMSIG(status),
                   WTERMSIG(status) == SIGALRM ? "did not return"
                   : "memory outside the array and the scratch element "
                   "was touched");
            failures++;
        } else if (WEXITSTATUS(status) == 2) {
            printf("FAIL: %s: result is not in the required order\n", names[k]);
            failures++;
        } else if (WEXITSTATUS(status) != 0) {
            printf("FAIL: %s: elements were lost, duplicated or torn\n",
                   names[k]);
            failures++;
        }
    }

    if (failures) {
        printf("FAIL: %d of %d scenarios\n", failures,
               (int)(sizeof(names) / sizeof(*names)));
        return 1;
    }
    printf("PASS\n");
    return 0;
}
