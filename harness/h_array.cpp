// C14 (array views never reach outside their buffer, which lives as long as any
// view refers to it) and the array part of C16 (a failed allocation leaves the
// object empty, nothing else changes, nothing leaks).
//
// Case = 5 header bytes + 7-byte op records (see h_array.notes.md).
#include "common/verif.hpp"
extern "C" {
#include "cstl/array.h"
}
using namespace vf;
typedef unsigned __int128 u128;

const char *vf_harness_name() { return "array"; }

namespace {

enum Op { ALLOC, SET, SLICE, UNSLICE, RESET, RELEASE, AT, DATA, SIZE, AUDIT, NOPS };
const char *OPN[] = {"alloc", "set", "slice", "unslice", "reset", "release", "at", "data", "size", "audit"};

const int HDR = 5, REC = 7;
const int NMAIN = 4, TW0 = 4, TW1 = 5, NALL = 6, NEXT = 3;
const size_t EXT_MAX = 4096 * 24;       // largest external buffer the harness provides
const size_t HDR_GUESS = 3 * sizeof(size_t);   // generator-side guess of the private array header (never in an oracle)

// weight profiles (swarm), indexed by header byte 0
const uint8_t PROFILES[][NOPS] = {
    /*            alloc set slice unsl reset rel at data size audit */
    /* uniform  */ {1, 1, 1, 1, 1, 1, 1, 1, 1, 1},
    /* slicey   */ {2, 1, 6, 2, 1, 1, 3, 1, 1, 0},
    /* realloc  */ {4, 3, 4, 1, 1, 1, 2, 1, 0, 0},
    /* lifetime */ {2, 3, 3, 2, 4, 4, 1, 1, 0, 0},
    /* allocs   */ {5, 4, 2, 2, 2, 1, 1, 1, 1, 0},
    /* access   */ {2, 1, 3, 1, 1, 0, 6, 2, 1, 1},
};
const int NPROFILES = sizeof PROFILES / sizeof PROFILES[0];
const size_t SZ_SMALL[] = {1, 4, 8, 24};
const size_t SZ_BIG[] = {(size_t)1 << 32, SIZE_MAX / 2 + 1};
const int NTAB = 21;            // symbolic table entries
const int TAB_BASE = 205;       // code bytes >= TAB_BASE select a table entry (~20 % of random bytes)

// the array objects live at fixed addresses for the whole process: they are
// never copied or assigned (that is C20's subject)
cstl_array_t g_arr[NALL];

struct Buf {
    size_t nm, sz;
    uintptr_t base;             // what data() reported when the buffer was created
    int ext;                    // external slot or -1 (library allocated)
    std::vector<void *> blocks; // library blocks that belong to this buffer
    unsigned users;             // bit set of referring objects
    int ghosts;                 // references held by abandoned objects (leaked on purpose)
    bool dead;
};
struct View { int buf; size_t off, len; };
struct Ext { void *p; size_t bytes; bool busy; bool virt; int refs; };   // virt: address range only (never dereferenced): buffers of 2^31..2^62 bytes

struct State {
    int nobj, nbuf;
    bool c16, twin_always;
    std::vector<Buf> bufs;
    View view[NALL];
    Ext ext[NEXT];
    // per op
    uint64_t fails0;
    std::vector<void *> exp_freed;
    std::vector<int> died;      // buffers that lost their last reference in this op
    int newbuf;
    // non-trivial rule
    bool nt_realloc, nt_inplace, nt_bound;
} S;

// Clause ids: "C14.<what>"; when the run checks C16 and an allocation has
// already failed in this case the same clause is "C16.array.<what>".
const char *clause_id(const char *what)
{
    static std::deque<std::string> pool;
    std::string s = (S.c16 && alloc_failures() > 0) ? "C16.array." : "C14.";
    s += what;
    for (auto &x : pool) if (x == s) return x.c_str();
    pool.push_back(s);
    return pool.back().c_str();
}
#define CK(cond, what, ...) do { if (!(cond)) { const char *cl_ = clause_id(what); CHECK(false, cl_, __VA_ARGS__); } } while (0)

std::string zs(size_t v)
{
    char b[48];
    if (v > SIZE_MAX - 4096) { if (v == SIZE_MAX) return "SIZE_MAX"; snprintf(b, sizeof b, "SIZE_MAX-%zu", SIZE_MAX - v); }
    else if (v >= ((size_t)1 << 32)) snprintf(b, sizeof b, "0x%zx", v);
    else snprintf(b, sizeof b, "%zu", v);
    return b;
}
std::string vs(int o)
{
    const View &v = S.view[o];
    char b[96];
    if (v.buf < 0) return "empty";
    snprintf(b, sizeof b, "{B%d%s nm=%zu sz=%zu off=%zu len=%zu}", v.buf, S.bufs[v.buf].ext >= 0 ? "x" : "",
             S.bufs[v.buf].nm, S.bufs[v.buf].sz, v.off, v.len);
    return b;
}
const char *on(int o)
{
    static const char *n[] = {"a0", "a1", "a2", "a3", "t0", "t1"};
    return n[o];
}

// ------------------------------------------------------------------ per-op lifetime oracle
void op_begin()
{
    events_clear();
    g_record_events = true;
    S.fails0 = alloc_failures();
    S.exp_freed.clear();
    S.died.clear();
    S.newbuf = -1;
}
// model: object o lets go of what it refers to
void drop_ref(int o)
{
    View &v = S.view[o];
    if (v.buf >= 0) {
        Buf &b = S.bufs[v.buf];
        b.users &= ~(1u << o);
        if (!b.users && !b.ghosts) {
            b.dead = true;
            S.exp_freed.insert(S.exp_freed.end(), b.blocks.begin(), b.blocks.end());
            S.died.push_back(v.buf);
        }
    }
    v.buf = -1;
    v.off = v.len = 0;
}
void ext_free(int slot)
{
    Ext &e = S.ext[slot];
    if (e.refs > 1) { e.refs--; return; }     // another descriptor was set on the same memory (do_set, alias)
    e.refs = 0;
    if (e.p && !e.virt) { if (e.bytes) memset(e.p, 0xDD, e.bytes); free(e.p); }
    e.virt = false;
    e.p = nullptr;
    e.bytes = 0;
    e.busy = false;
}
void op_end()
{
    g_record_events = false;
    static std::vector<void *> born, freed;
    born.clear();
    freed.clear();
    for (auto &e : *g_events) {
        if (e.kind == 'm' || e.kind == 'r') born.push_back(e.p);
        else if (e.kind == 'f') {
            auto it = std::find(born.begin(), born.end(), e.p);
            if (it != born.end()) born.erase(it); else freed.push_back(e.p);
        }
    }
    std::sort(freed.begin(), freed.end());
    std::sort(S.exp_freed.begin(), S.exp_freed.end());
    for (void *p : freed)
        CK(std::binary_search(S.exp_freed.begin(), S.exp_freed.end(), p), "lifetime.freed_while_referenced",
           "%s freed block %p of a buffer that an array object still refers to", g_cur_op, p);
    for (void *p : S.exp_freed)
        CK(std::binary_search(freed.begin(), freed.end(), p), "lifetime.not_released",
           "%s removed the last reference to a buffer but its block %p stays allocated", g_cur_op, p);
    if (S.newbuf >= 0) {
        CK(!born.empty(), "alloc.no_block", "%s produced a non-empty object without allocating", g_cur_op);
        S.bufs[S.newbuf].blocks = born;
    } else
        CK(born.empty(), "lifetime.leak", "%s created no buffer but leaves %zu new block(s) allocated", g_cur_op, born.size());
    size_t want = 0;
    for (auto &b : S.bufs) if (!b.dead) want += b.blocks.size();
    CK(lib_live_count() == want, "lifetime.live_count", "%zu library blocks live, the referenced buffers account for %zu",
       lib_live_count(), want);
    // external memory of buffers nobody refers to any more goes back to the harness
    for (int bi : S.died) if (S.bufs[bi].ext >= 0) ext_free(S.bufs[bi].ext);
}

// ------------------------------------------------------------------ observations
void verify_addr(int o, size_t i, const void *p)
{
    const View &v = S.view[o];
    const Buf &b = S.bufs[v.buf];
    uintptr_t q = (uintptr_t)p;
    u128 lo = b.base, hi = (u128)b.base + (u128)b.nm * b.sz;
    bool inside = (u128)q >= lo && (u128)q + b.sz <= hi;
    if (inside) {
        // ... and that region is still allocated
        bool live = false;
        if (b.ext >= 0) live = S.ext[b.ext].p == (void *)b.base && S.ext[b.ext].busy;
        else for (void *blk : b.blocks) {
            size_t bs;
            if (lib_is_live(blk, &bs) && q >= (uintptr_t)blk && q + b.sz <= (uintptr_t)blk + bs) live = true;
        }
        inside = live;
    }
    CK(inside, "at.inside", "%s at(%s) = %p is not inside the live buffer [%p,+%s) view %s", on(o), zs(i).c_str(), p,
       (void *)b.base, zs(b.nm * b.sz).c_str(), vs(o).c_str());
    CK(q == b.base + (v.off + i) * b.sz, "at.addr", "%s at(%s) = %p, expected %p (view %s)", on(o), zs(i).c_str(), p,
       (void *)(b.base + (v.off + i) * b.sz), vs(o).c_str());
}
// at(i) for i < len. trap: run under the abort trap (the AT op) so that a
// spurious abort gets its own clause; the audits use a plain call (an abort
// there is reported by the framework as abort.unexpected)
void check_at(int o, size_t i, bool use_const, int touch, bool trap)
{
    cstl_array_t *a = &g_arr[o];
    if (g_replay_mode == 1) TRACE("> %s.at(%s)", on(o), zs(i).c_str());
    void *p = nullptr;
    if (trap) {
        bool ab = may_abort([&] { p = use_const ? (void *)cstl_array_at_const(a, i) : cstl_array_at(a, i); });
        CK(!ab, "at.spurious_abort", "%s at(%s) aborted, view %s", on(o), zs(i).c_str(), vs(o).c_str());
    } else if (use_const) LIB(p = (void *)cstl_array_at_const(a, i));
    else LIB(p = cstl_array_at(a, i));
    verify_addr(o, i, p);
    if (touch >= 0 && !(S.bufs[S.view[o].buf].ext >= 0 && S.ext[S.bufs[S.view[o].buf].ext].virt)) {
        // write and read the element through the returned address: ASan checks it
        size_t sz = S.bufs[S.view[o].buf].sz;
        memset(p, touch, sz);
        volatile unsigned char *c = (volatile unsigned char *)p;
        CK(c[0] == (unsigned char)touch && c[sz - 1] == (unsigned char)touch, "at.rw", "element does not hold what was written");
    }
}
// at(i) for i >= len: the object is only read (at_const takes a const object
// and returns before touching anything), so it stays in use afterwards
void expect_at_abort(int o, size_t i)
{
    cstl_array_t *a = &g_arr[o];
    if (g_replay_mode == 1) TRACE("> %s.at(%s) [abort expected]", on(o), zs(i).c_str());
    const void *p = nullptr;
    bool ab = may_abort([&] { p = cstl_array_at_const(a, i); });
    CK(ab, "at.abort_expected", "%s at(%s) returned %p instead of aborting, view %s", on(o), zs(i).c_str(), p, vs(o).c_str());
}
// deep: 0 = answers only; 1 = also at(len) and at(SIZE_MAX) must abort; 2 = also at(len+1)
void audit_obj(int o, int deep)
{
    cstl_array_t *a = &g_arr[o];
    const View &v = S.view[o];
    size_t sz;
    LIB(sz = cstl_array_size(a));
    CK(sz == v.len, "size", "%s size %s, model %s (view %s)", on(o), zs(sz).c_str(), zs(v.len).c_str(), vs(o).c_str());
    const void *d;
    LIB(d = cstl_array_data_const(a));
    const void *want = v.buf < 0 ? nullptr : (const void *)S.bufs[v.buf].base;
    CK(d == want, "data", "%s data %p, model %p (view %s)", on(o), d, want, vs(o).c_str());
    if (v.len > 0) {
        check_at(o, 0, true, -1, false);
        if (v.len > 1) check_at(o, v.len - 1, false, -1, false);
    }
    if (deep) {
        expect_at_abort(o, v.len);
        if (deep > 1) expect_at_abort(o, v.len + 1);
        expect_at_abort(o, SIZE_MAX);
    }
}
// after every op every object answers per the model ("other objects
// unaffected"). The abort side of at() is checked by the AT and AUDIT ops and
// by the final audit (in G1 every prefix of a history is a history of its own).
void audit_all()
{
    for (int o = 0; o < NALL; o++) {
        if (o >= S.nobj && o < NMAIN) continue;
        if (o >= NMAIN && S.view[o].buf < 0) continue;
        audit_obj(o, 0);
    }
}

// ------------------------------------------------------------------ operations
// After a trapped abort the object is abandoned: no library code ever runs on
// it again, the reference it may hold is leaked on purpose (a "ghost" user of
// the buffer) and the storage is re-initialised as a fresh object.
void abandon(int o)
{
    View &v = S.view[o];
    if (v.buf >= 0) {
        Buf &b = S.bufs[v.buf];
        b.users &= ~(1u << o);
        b.ghosts++;
        CNT("class.ghost_reference");
    }
    v.buf = -1;
    v.off = v.len = 0;
    memset(&g_arr[o], 0xDD, sizeof g_arr[o]);
    cstl_array_init(&g_arr[o]);
}

void do_alloc(int o, size_t nm, size_t sz)
{
    g_cur_op = "alloc";
    cstl_array_t *a = &g_arr[o];
    if (g_replay_mode == 1) TRACE("> %s.alloc(%s, %s) on %s", on(o), zs(nm).c_str(), zs(sz).c_str(), vs(o).c_str());
    if (o < NMAIN && S.view[o].buf >= 0 && S.view[o].off > 0) { S.nt_realloc = true; CNT("class.alloc_on_offset_slice"); }
    op_begin();
    drop_ref(o);                     // the old content goes in any case
    LIB(cstl_array_alloc(a, nm, sz));
    bool failed = alloc_failures() != S.fails0;
    u128 bytes = (u128)nm * sz;
    size_t got;
    const void *d;
    LIB(got = cstl_array_size(a));
    LIB(d = cstl_array_data_const(a));
    const char *how = "ok";
    if (bytes > SIZE_MAX) {
        how = "unrepresentable";
        CNT("class.alloc_unrepresentable");
        CK(got == 0 && d == nullptr, "alloc.unrepresentable_not_empty",
           "alloc(%s,%s): byte count not representable, yet size %s data %p", zs(nm).c_str(), zs(sz).c_str(), zs(got).c_str(), d);
    } else if (bytes == 0 && got == 0 && d == nullptr) {
        // zero bytes: an object without a buffer is as good an answer as a zero-length buffer
        how = "zero bytes: empty object";
        CNT("class.alloc_zero_empty");
    } else if (bytes > g_alloc_limit || (failed && !(got == nm && d != nullptr))) {
        // (a call during which a request was refused but that still produced the array found another way:
        // it is judged as a success below)
        how = failed ? "allocation failed" : "over limit";
        if (bytes > g_alloc_limit) CNT("class.alloc_over_limit"); else CNT("class.alloc_fault");
        CK(got == 0 && d == nullptr, "alloc.failed_not_empty",
           "alloc(%s,%s) could not be satisfied, yet size %s data %p", zs(nm).c_str(), zs(sz).c_str(), zs(got).c_str(), d);
    } else {
        CNT("class.alloc_ok");
        CK(got == nm, "alloc.size", "alloc(%s,%s) succeeded but size is %s", zs(nm).c_str(), zs(sz).c_str(), zs(got).c_str());
        CK(d != nullptr, "alloc.data_null", "alloc(%s,%s) succeeded but data is NULL", zs(nm).c_str(), zs(sz).c_str());
        S.bufs.push_back(Buf{nm, sz, (uintptr_t)d, -1, {}, 1u << o, 0, false});
        S.newbuf = (int)S.bufs.size() - 1;
        S.view[o] = View{S.newbuf, 0, nm};
    }
    TRACE("%s.alloc(%s, %s) -> %s %s", on(o), zs(nm).c_str(), zs(sz).c_str(), how, vs(o).c_str());
    int nb = S.newbuf;
    op_end();
    if (nb >= 0) {
        // all nm elements lie inside one block allocated by this call
        const Buf &b = S.bufs[nb];
        bool ok = false;
        for (void *blk : b.blocks) {
            size_t bs;
            if (lib_is_live(blk, &bs) && b.base >= (uintptr_t)blk && (u128)b.base + bytes <= (u128)(uintptr_t)blk + bs) ok = true;
        }
        CK(ok, "alloc.block_too_small", "alloc(%s,%s): the %s bytes at data %p are not inside a block allocated by the call",
           zs(nm).c_str(), zs(sz).c_str(), zs((size_t)bytes).c_str(), d);
    }
}

// slot: a free external slot
bool g_set_virtual;      // the buffer is an address range the harness never dereferences (element numbers beyond 2^31)
// the caller hands over memory that another descriptor was already set on (two views of one caller-owned buffer, possibly
// with another element size): allowed by the documentation as long as each descriptor is released or reset, and the
// only way two *different* descriptors report the same data pointer (found necessary by seeded C14-w7b-1)
bool g_set_alias;
void do_set(int o, int slot, size_t nm, size_t sz)
{
    g_cur_op = "set";
    cstl_array_t *a = &g_arr[o];
    if (g_replay_mode == 1) TRACE("> %s.set(X%d, %s, %s) on %s", on(o), slot, zs(nm).c_str(), zs(sz).c_str(), vs(o).c_str());
    if (o < NMAIN && S.view[o].buf >= 0 && S.view[o].off > 0) { S.nt_realloc = true; CNT("class.set_on_offset_slice"); }
    Ext &e = S.ext[slot];
    if (g_set_alias) { e.refs++; CNT("class.set_alias_same_memory"); goto have_memory; }
    e.refs = 1;
    e.bytes = nm * sz;
    e.virt = g_set_virtual;
    if (e.virt) e.p = (void *)((uintptr_t)0x100000000000ull + (uintptr_t)slot * 0x10000000000000ull);   // far from every mapping
    else e.p = malloc(e.bytes);      // exact size: ASan sees any overrun
    e.busy = true;
    if (e.bytes && !e.virt) memset(e.p, 0xEE, e.bytes);
    if (e.virt) CNT("class.set_virtual_huge");
have_memory:
    op_begin();
    drop_ref(o);
    LIB(cstl_array_set(a, e.p, nm, sz));
    bool failed = alloc_failures() != S.fails0;
    size_t got;
    const void *d;
    LIB(got = cstl_array_size(a));
    LIB(d = cstl_array_data_const(a));
    if (failed) {
        CNT("class.set_fault");
        CK(got == 0 && d == nullptr, "set.failed_not_empty", "set(%s,%s) could not allocate, yet size %s data %p",
           zs(nm).c_str(), zs(sz).c_str(), zs(got).c_str(), d);
    } else {
        CNT("class.set_ok");
        CK(got == nm, "set.size", "set(%s,%s) succeeded but size is %s", zs(nm).c_str(), zs(sz).c_str(), zs(got).c_str());
        CK(d == e.p, "set.data", "set: data %p is not the supplied buffer %p", d, e.p);
        S.bufs.push_back(Buf{nm, sz, (uintptr_t)e.p, slot, {}, 1u << o, 0, false});
        S.newbuf = (int)S.bufs.size() - 1;
        S.view[o] = View{S.newbuf, 0, nm};
    }
    TRACE("%s.set(X%d, %s, %s) -> %s %s", on(o), slot, zs(nm).c_str(), zs(sz).c_str(), failed ? "allocation failed" : "ok", vs(o).c_str());
    op_end();
    if (failed) ext_free(slot);      // never referenced
}

void do_reset(int o)
{
    g_cur_op = "reset";
    if (g_replay_mode == 1) TRACE("> %s.reset on %s", on(o), vs(o).c_str());
    std::string before = g_trace ? vs(o) : std::string();
    op_begin();
    drop_ref(o);
    LIB(cstl_array_reset(&g_arr[o]));
    TRACE("%s.reset (was %s)%s", on(o), before.c_str(), S.died.empty() ? "" : " last reference");
    if (!S.died.empty()) CNT("class.reset_last"); else CNT("class.reset_other");
    op_end();
}

bool do_slice(int a, size_t beg, size_t end, int s, bool on_main);

// build t (an empty sacrificial object) as a twin of o: a buffer of its own
// with the same geometry and the same view
bool mirror(int o, int t)
{
    const View v = S.view[o];
    if (v.buf < 0) return true;
    size_t nm = S.bufs[v.buf].nm, sz = S.bufs[v.buf].sz;
    do_alloc(t, nm, sz);
    if (S.view[t].buf < 0) return false;         // (injected) allocation failure
    if (v.off != 0 || v.len != nm) do_slice(t, v.off, v.off + v.len, t, false);
    return true;
}

// returns false if the op degraded to a no-op
bool do_slice(int a, size_t beg, size_t end, int s, bool on_main)
{
    const View va = S.view[a];
    bool pred = va.buf < 0 || end < beg || (u128)va.off + end > S.bufs[va.buf].nm;
    if (a < NMAIN && (beg >= SIZE_MAX - va.off || end >= SIZE_MAX - va.off)) {
        S.nt_bound = true;
        CNT("class.slice_bound_near_size_max");
        if (va.off > 0 && end > SIZE_MAX - va.off) CNT("class.slice_off_plus_end_wraps");
    }
    if (pred) {
        CNT("class.slice_abort_expected");
        if (va.buf < 0) CNT("class.slice_abort.empty");
        else if (end < beg) CNT("class.slice_abort.end_lt_beg");
        else CNT("class.slice_abort.past_buffer");
        int xa = a, xs = s;
        if (!on_main) {
            xa = TW0;
            xs = s == a ? TW0 : TW1;
            if (!mirror(a, TW0)) { CNT("noop.twin_alloc_failed"); TRACE("slice noop (twin allocation failed)"); return false; }
            if (s != a && !mirror(s, TW1)) {
                do_reset(TW0);
                CNT("noop.twin_alloc_failed");
                TRACE("slice noop (twin allocation failed)");
                return false;
            }
            CNT("class.abort_on_twin");
        } else CNT("class.abort_on_main");
        g_cur_op = "slice";
        TRACE("%s.slice(%s, %s, %s) on %s: abort expected%s", on(xa), zs(beg).c_str(), zs(end).c_str(), on(xs), vs(xa).c_str(),
              on_main ? " (objects abandoned afterwards)" : " (sacrificial twins)");
        op_begin();
        bool ab = may_abort([&] { cstl_array_slice(&g_arr[xa], beg, end, &g_arr[xs]); });
        if (!ab && va.buf < 0 && beg == 0 && end == 0) {
            // the empty range of an object without a buffer: neither "end < beg" nor "exceeds the bounds", so an
            // implementation may abort (today's does) or hand back an empty object; then the destination let go
            // of what it had and is empty
            CNT("class.slice_empty_of_empty_returned");
            if (xs != xa) drop_ref(xs);
            op_end();
            return true;
        }
        CK(ab, "slice.abort_expected", "slice(%s,%s) on view %s did not abort", zs(beg).c_str(), zs(end).c_str(), vs(xa).c_str());
        abandon(xa);
        if (xs != xa) abandon(xs);
        op_end();
        return true;
    }
    g_cur_op = "slice";
    if (g_replay_mode == 1) TRACE("> %s.slice(%s, %s, %s) on %s", on(a), zs(beg).c_str(), zs(end).c_str(), on(s), vs(a).c_str());
    op_begin();
    if (s != a) drop_ref(s);
    bool ab = may_abort([&] { cstl_array_slice(&g_arr[a], beg, end, &g_arr[s]); });
    CK(!ab, "slice.spurious_abort", "slice(%s,%s) on view %s aborted although the range is inside the buffer", zs(beg).c_str(),
       zs(end).c_str(), vs(a).c_str());
    S.view[s] = View{va.buf, va.off + beg, end - beg};
    S.bufs[va.buf].users |= 1u << s;
    if (a < NMAIN) {
        if (s == a) { S.nt_inplace = true; CNT("class.slice_in_place"); } else CNT("class.slice_other");
        if (end > va.len) CNT("class.slice_beyond_view");
        if (va.off + beg > 0) CNT("class.slice_offset_gt0");
    }
    TRACE("%s.slice(%s, %s, %s) -> %s", on(a), zs(beg).c_str(), zs(end).c_str(), on(s), vs(s).c_str());
    op_end();
    return true;
}

bool do_unslice(int s, int a, bool on_main)
{
    const View vsrc = S.view[s];
    if (vsrc.buf < 0) {
        CNT("class.unslice_abort_expected");
        int xs = s, xa = a;
        if (!on_main) {
            xs = TW0;
            xa = a == s ? TW0 : TW1;
            if (a != s && !mirror(a, TW1)) { CNT("noop.twin_alloc_failed"); TRACE("unslice noop (twin allocation failed)"); return false; }
            CNT("class.abort_on_twin");
        } else CNT("class.abort_on_main");
        g_cur_op = "unslice";
        TRACE("unslice(%s, %s) of an empty object: abort expected%s", on(xs), on(xa),
              on_main ? " (objects abandoned afterwards)" : " (sacrificial twins)");
        op_begin();
        bool ab = may_abort([&] { cstl_array_unslice(&g_arr[xs], &g_arr[xa]); });
        CK(ab, "unslice.abort_expected", "unslice of an empty object did not abort");
        abandon(xs);
        if (xa != xs) abandon(xa);
        op_end();
        return true;
    }
    g_cur_op = "unslice";
    if (g_replay_mode == 1) TRACE("> unslice(%s, %s) of %s", on(s), on(a), vs(s).c_str());
    op_begin();
    if (a != s) drop_ref(a);
    bool ab = may_abort([&] { cstl_array_unslice(&g_arr[s], &g_arr[a]); });
    CK(!ab, "unslice.spurious_abort", "unslice of the non-empty view %s aborted", vs(s).c_str());
    S.view[a] = View{vsrc.buf, 0, S.bufs[vsrc.buf].nm};
    S.bufs[vsrc.buf].users |= 1u << a;
    if (a == s) CNT("class.unslice_in_place"); else CNT("class.unslice_other");
    TRACE("unslice(%s, %s) -> %s", on(s), on(a), vs(a).c_str());
    op_end();
    return true;
}

void do_release(int o, bool null_out)
{
    g_cur_op = "release";
    cstl_array_t *a = &g_arr[o];
    const View v = S.view[o];
    if (g_replay_mode == 1) TRACE("> %s.release on %s", on(o), vs(o).c_str());
    bool hand_over = false;
    void *want = nullptr;
    if (v.buf < 0) CNT("class.release_empty");
    else {
        const Buf &b = S.bufs[v.buf];
        if (b.ext < 0) CNT("class.release_internal");
        else if (b.users != (1u << o) || b.ghosts) CNT("class.release_shared");
        else { CNT("class.release_sole"); hand_over = true; want = (void *)b.base; }
    }
    std::string before = g_trace ? vs(o) : std::string();
    op_begin();
    if (hand_over) drop_ref(o);
    void *out = (void *)&S;          // something that is neither NULL nor a buffer
    if (null_out) LIB(cstl_array_release(a, nullptr)); else LIB(cstl_array_release(a, &out));
    TRACE("%s.release(%s) on %s -> %s", on(o), null_out ? "NULL" : "&buf", before.c_str(),
          null_out ? "-" : out == nullptr ? "NULL" : out == want ? "the external buffer" : "?");
    if (!null_out) {
        if (hand_over) CK(out == want, "release.sole", "release by the sole user returned %p, the external buffer is %p", out, want);
        else CK(out == nullptr, "release.refused", "release returned %p although the object is %s", out,
                v.buf < 0 ? "empty" : S.bufs[v.buf].ext < 0 ? "library-allocated" : "not the only user");
    }
    op_end();                        // hands the external memory back to the harness if the buffer died
}

void do_at(int o, size_t i, uint8_t r)
{
    g_cur_op = "at";
    const View &v = S.view[o];
    if (i >= v.len) {
        CNT("class.at_abort_expected");
        expect_at_abort(o, i);
        TRACE("%s.at(%s) on %s -> abort", on(o), zs(i).c_str(), vs(o).c_str());
    } else {
        CNT("class.at_ok");
        if (v.off > 0) CNT("class.at_offset_gt0");
        check_at(o, i, r & 1, r | 1, true);
        TRACE("%s.at(%s) on %s -> base+%zu", on(o), zs(i).c_str(), vs(o).c_str(), (v.off + i) * S.bufs[v.buf].sz);
    }
}

// ------------------------------------------------------------------ decoder
struct Ctx { size_t len, off, nm, sz; };
Ctx ctx_of(int o, size_t sz_override)
{
    const View &v = S.view[o];
    Ctx c{v.len, v.off, 0, 1};
    if (v.buf >= 0) { c.nm = S.bufs[v.buf].nm; c.sz = S.bufs[v.buf].sz; }
    if (sz_override) c.sz = sz_override;
    return c;
}
size_t table_val(int idx, const Ctx &c, uint8_t r)
{
    const size_t M = SIZE_MAX, L = g_alloc_limit;
    switch (idx) {
    case 0: return 0;
    case 1: return 1;
    case 2: return c.len - 1;
    case 3: return c.len;
    case 4: return c.len + 1;
    case 5: return c.nm - c.off;
    case 6: return c.nm - c.off + 1;
    case 7: return c.nm;
    case 8: return M - c.off;
    case 9: return M - c.off + 1;
    case 10: return M;
    case 11: return M / c.sz;
    case 12: return M / c.sz + 1;
    case 13: return L / c.sz - 1;
    case 14: return L / c.sz;
    case 15: return L / c.sz + 1;
    case 16: return r % 41;
    case 17: return (L - HDR_GUESS) / c.sz;
    case 18: return (L - HDR_GUESS) / c.sz + 1;
    case 19: return (M - HDR_GUESS) / c.sz;
    default: return (M - HDR_GUESS) / c.sz + 1;
    }
}
inline bool is_tab(uint8_t c) { return c >= TAB_BASE; }
inline int tab_idx(uint8_t c) { return (c - TAB_BASE) % NTAB; }
// element size: mostly the classic small ones, sometimes any size up to 100, rarely the huge ones
size_t decode_sz(uint8_t b) { return b < 128 ? SZ_SMALL[b & 3] : b < 230 ? (size_t)(b - 127) : SZ_BIG[b & 1]; }

// canonical implementation state for G1 (identification only)
std::string peek_state()
{
    std::string s;
    std::vector<void *> ids;
    for (int o = 0; o < S.nobj; o++) {
        void *d = g_arr[o].ptr.data.ptr;
        size_t k = 0;
        if (d) { for (k = 0; k < ids.size(); k++) if (ids[k] == d) break; if (k == ids.size()) ids.push_back(d); k++; }
        char b[80];
        snprintf(b, sizeof b, "%zu:%zu:%zu;", k, (size_t)g_arr[o].off, (size_t)g_arr[o].len);
        s += b;
    }
    for (auto &b : S.bufs) if (!b.dead) {
        char t[64];
        snprintf(t, sizeof t, "B%zu,%zu,%d,%d;", b.nm, b.sz, b.ext >= 0, b.ghosts);
        s += t;
    }
    return s;
}

void build_alphabet(std::vector<std::vector<uint8_t>> &al, std::vector<std::string> &names, bool compact);
} // namespace

void vf_run(const uint8_t *data, size_t len)
{
    // nothing survives a case: the library blocks were released by case_reset()
    g_record_events = false;
    for (int i = 0; i < NEXT; i++) { if (S.ext[i].p && !S.ext[i].virt) free(S.ext[i].p); S.ext[i] = Ext{nullptr, 0, false, false, 0}; }
    S.bufs.clear();
    for (int o = 0; o < NALL; o++) {
        memset(&g_arr[o], 0xDD, sizeof g_arr[o]);
        memset(&g_arr[o], 0xA5, sizeof g_arr[o]);
        cstl_array_init(&g_arr[o]);
        S.view[o] = View{-1, 0, 0};
    }
    S.c16 = g_prop == "C16";
    S.nt_realloc = S.nt_inplace = S.nt_bound = false;

    Cursor cur(data, len);
    int prof = cur.u8() % NPROFILES;
    uint8_t flags = cur.u8();
    uint8_t cfg = cur.u8();
    uint8_t part_k = cur.u8(), part_n = cur.u8();
    S.nobj = 2 + (cfg & 3) % 3;
    S.nbuf = 1 + ((cfg >> 2) & 3) % 3;
    S.twin_always = flags & 1;
    uint8_t tab[64];
    size_t ntab = 0;
    for (int o = 0; o < NOPS; o++) for (int k = 0; k < PROFILES[prof][o]; k++) tab[ntab++] = (uint8_t)o;
    TRACE("header profile=%d objects=%d external=%d twin_always=%d", prof, S.nobj, S.nbuf, (int)S.twin_always);

    if (part_n > 1 && cur.remaining() >= (size_t)REC) {
        // G1 partition: only histories whose first op has alphabet index = k (mod n) are in scope
        static std::vector<std::vector<uint8_t>> al_full, al_compact;
        static std::vector<std::string> nm;
        if (al_full.empty()) { build_alphabet(al_full, nm, false); build_alphabet(al_compact, nm, true); }
        const std::vector<std::vector<uint8_t>> &al = (flags & 2) ? al_compact : al_full;
        size_t idx = 0;
        for (; idx < al.size(); idx++) if (!memcmp(al[idx].data(), data + HDR, REC)) break;
        if (idx < al.size() && idx % part_n != part_k % part_n) { g_out_of_scope = true; if (g_want_state) g_state = "out"; return; }
    }

    size_t nops = 0;
    long first_fail_op = -1;
    bool state_marked = false;
    while (cur.remaining() >= (size_t)REC) {
        uint8_t ob = cur.u8(), ab = cur.u8(), bb = cur.u8(), c1 = cur.u8(), r1 = cur.u8(), c2 = cur.u8(), r2 = cur.u8();
        if (ob == 0xFE) {
            if (g_want_state) { g_state = peek_state(); state_marked = true; }
            continue;
        }
        int op = tab[ob % ntab];
        int a = (ab & 15) % S.nobj;
        if ((op == SLICE || op == UNSLICE || op == AT || op == RELEASE) && ((bb >> 4) & 3) != 0) {
            // by construction: 3 of 4 pick among the objects that refer to something
            int ne[NMAIN], n = 0;
            for (int o = 0; o < S.nobj; o++) if (S.view[o].buf >= 0) ne[n++] = o;
            if (n) a = ne[(ab & 15) % n];
        }
        bool on_main = !S.twin_always && (ab >> 4) % 5 == 0;
        nops++;
        switch (op) {
        case ALLOC: {
            size_t sz = decode_sz(bb);
            Ctx c = ctx_of(a, sz);
            size_t nm = is_tab(c1) ? table_val(tab_idx(c1), c, r1) : r1 % 41;
            do_alloc(a, nm, sz);
            break;
        }
        case SET: {
            size_t sz = decode_sz(bb);
            Ctx c = ctx_of(a, sz);
            size_t nm = is_tab(c1) ? table_val(tab_idx(c1), c, r1) : r1 % 41;
            // the harness must really own nm*sz bytes -- or the buffer is a pure address range (never dereferenced)
            // whose element numbers lie in the range that fits no 32-bit index: 2^31 .. 2^62 bytes
            g_set_virtual = false;
            if (!S.c16 && (r2 & 0xC0) == 0xC0 && sz <= 24) {
                static const size_t VN[8] = {((size_t)1 << 31) - 1, (size_t)1 << 31, ((size_t)1 << 31) + 5, (size_t)1 << 32, ((size_t)1 << 32) + 7,
                                             (size_t)3 << 30, (size_t)1 << 33, (size_t)1 << 40};
                nm = VN[r1 % 8];
                g_set_virtual = true;
            }
            if (!g_set_virtual && (u128)nm * sz > EXT_MAX) nm = r1 % 41;
            if (!g_set_virtual && (u128)nm * sz > EXT_MAX) nm = 0;
            int slot = -1;
            for (int k = 0; k < S.nbuf; k++) { int q = (r2 + k) % S.nbuf; if (!S.ext[q].busy) { slot = q; break; } }
            g_set_alias = false;
            if (slot < 0) {
                // every buffer of the harness is in use: the new descriptor is set on memory that already has one
                for (int k = 0; k < S.nbuf; k++) { int q = (r2 + k) % S.nbuf; if (S.ext[q].busy && !S.ext[q].virt && S.ext[q].p) { slot = q; break; } }
                if (slot < 0 || g_set_virtual) { CNT("noop.set_no_free_buffer"); TRACE("set noop (all external buffers in use)"); g_set_virtual = false; break; }
                if (sz && (u128)nm * sz > S.ext[slot].bytes) nm = S.ext[slot].bytes / sz;
                g_set_alias = true;
            }
            do_set(a, slot, nm, sz);
            g_set_alias = false;
            g_set_virtual = false;
            break;
        }
        case SLICE: {
            int s = (bb & 0xC0) == 0xC0 ? a : (bb & 15) % S.nobj;
            Ctx c = ctx_of(a, 0);
            size_t beg = is_tab(c1) ? table_val(tab_idx(c1), c, r1) : (c.len ? r1 % (c.len + 1) : 0);
            size_t end = is_tab(c2) ? table_val(tab_idx(c2), c, r2) : beg + (c.len > beg ? r2 % (c.len - beg + 1) : 0);
            do_slice(a, beg, end, s, on_main);
            break;
        }
        case UNSLICE: {
            int d = (bb & 0xC0) == 0xC0 ? a : (bb & 15) % S.nobj;
            do_unslice(a, d, on_main);
            break;
        }
        case RESET: do_reset(a); break;
        case RELEASE: do_release(a, bb & 1); break;
        case AT: {
            Ctx c = ctx_of(a, 0);
            size_t i = is_tab(c1) ? table_val(tab_idx(c1), c, r1) : (c.len ? r1 % c.len : 0);
            do_at(a, i, r2);
            break;
        }
        case DATA: {
            g_cur_op = "data";
            void *d;
            LIB(d = cstl_array_data(&g_arr[a]));
            const View &v = S.view[a];
            void *want = v.buf < 0 ? nullptr : (void *)S.bufs[v.buf].base;
            TRACE("%s.data on %s -> %s", on(a), vs(a).c_str(), d ? "buffer start" : "NULL");
            CK(d == want, "data", "%s data %p, model %p (view %s)", on(a), d, want, vs(a).c_str());
            break;
        }
        case SIZE: {
            g_cur_op = "size";
            size_t n;
            LIB(n = cstl_array_size(&g_arr[a]));
            TRACE("%s.size -> %s", on(a), zs(n).c_str());
            CK(n == S.view[a].len, "size", "%s size %s, model %s", on(a), zs(n).c_str(), zs(S.view[a].len).c_str());
            break;
        }
        case AUDIT: {
            g_cur_op = "audit";
            if (g_trace) {
                std::string t;
                for (int o = 0; o < S.nobj; o++) t += std::string(on(o)) + "=" + vs(o) + " ";
                TRACE("audit %s", t.c_str());
            }
            for (int o = 0; o < S.nobj; o++) audit_obj(o, 2);
            break;
        }
        }
        g_cur_op = "audit after op";
        audit_all();
        if (first_fail_op < 0 && alloc_failures() > 0) first_fail_op = (long)nops;
    }
    // final audit of every object, then let go of everything: each buffer must be
    // released by the reset that removes its last reference
    g_cur_op = "final audit";
    for (int o = 0; o < S.nobj; o++) audit_obj(o, 1);
    if (g_want_state && !state_marked) g_state = peek_state();
    for (int o = 0; o < NALL; o++) {
        if (o >= S.nobj && o < NMAIN) continue;
        if (o >= NMAIN && S.view[o].buf < 0) continue;      // the twins are empty between ops
        do_reset(o);
        audit_all();
    }
    g_cur_op = "teardown";
    size_t ghost_blocks = 0;
    for (auto &b : S.bufs) {
        if (b.ghosts) ghost_blocks += b.blocks.size();
        else CK(b.dead, "lifetime.leak_at_end", "a buffer is still accounted live after every object was reset");
    }
    CK(lib_live_count() == ghost_blocks, "lifetime.leak_at_end",
       "%zu library blocks still allocated after every object was reset (%zu belong to abandoned objects)", lib_live_count(),
       ghost_blocks);
    if (ghost_blocks) lib_release_all();   // what the abandoned objects held
    for (int i = 0; i < NEXT; i++) if (S.ext[i].p) ext_free(i);

    if (S.c16) g_nontrivial = g_faults_hit >= 1 && first_fail_op >= 0 && (long)nops - first_fail_op >= 3;
    else g_nontrivial = S.nt_realloc && S.nt_inplace && S.nt_bound;
    CNTN("ops", nops);
}

namespace {
struct Gen {
    Rng &r;
    std::vector<uint8_t> &out;
    std::vector<uint8_t> tab;
    void rec(int op, uint8_t a, uint8_t b, uint8_t c1, uint8_t r1, uint8_t c2, uint8_t r2)
    {
        // an op byte that decodes to `op` under the case's profile
        std::vector<uint8_t> idx;
        for (size_t i = 0; i < tab.size(); i++) if (tab[i] == op) idx.push_back((uint8_t)i);
        if (idx.empty()) return;
        uint8_t ob = idx[r.below((uint32_t)idx.size())];
        uint8_t v[REC] = {ob, a, b, c1, r1, c2, r2};
        out.insert(out.end(), v, v + REC);
    }
};
} // namespace

void vf_gen(Rng &r, std::vector<uint8_t> &out)
{
    bool c16 = g_prop == "C16";
    int prof = c16 ? (r.chance(3, 4) ? 4 : 2) : (int)r.below(NPROFILES);
    Gen g{r, out, {}};
    for (int o = 0; o < NOPS; o++) for (int k = 0; k < PROFILES[prof][o]; k++) g.tab.push_back((uint8_t)o);
    out.push_back((uint8_t)prof);
    out.push_back(r.byte());                                         // flags
    out.push_back(r.chance(3, 4) ? (uint8_t)(2 | (2 << 2)) : r.byte()); // mostly 4 objects, 3 external buffers
    out.push_back(0);
    out.push_back(0);
    if (c16) {
        // short allocation-heavy scripts, in-range arguments only
        size_t n = 6 + r.below(9);
        for (size_t i = 0; i < n; i++) {
            uint8_t v[REC] = {(uint8_t)(r.byte() % 251), r.byte(), (uint8_t)(r.byte() % 230), (uint8_t)r.below(TAB_BASE),
                              (uint8_t)r.below(16), (uint8_t)r.below(TAB_BASE), r.byte()};
            if (i < 2) {     // start with something to work on
                g.rec(i == 0 || r.chance(1, 2) ? ALLOC : SET, (uint8_t)i, (uint8_t)r.below(4), 0, (uint8_t)(1 + r.below(15)), 0, r.byte());
                continue;
            }
            if (r.chance(1, 4)) v[2] = (uint8_t)(0xC0 | r.below(38));   // slice/unslice in place (still a small sz code)
            out.insert(out.end(), v, v + REC);
        }
        return;
    }
    size_t n = r.chance(2, 3) ? 1 + r.below(14) : 1 + r.below(100);
    if (r.chance(2, 3)) {
        // most histories start with something to work on
        size_t k = 1 + r.below(2);
        for (size_t i = 0; i < k; i++)
            g.rec(r.chance(2, 3) ? ALLOC : SET, (uint8_t)(r.byte() & 0xF3), (uint8_t)r.below(4), 0, (uint8_t)(1 + r.below(40)), 0, r.byte());
    }
    for (size_t i = 0; i < n; i++) {
        if (r.chance(1, 10)) {
            // the rare shape by construction: allocate, slice in place to an offset > 0, re-target
            uint8_t a = (uint8_t)(r.below(4) | (r.byte() & 0xF0));
            uint8_t nm = (uint8_t)(2 + r.below(39));
            g.rec(ALLOC, a, (uint8_t)r.below(4), 0, nm, 0, 0);
            uint8_t beg = (uint8_t)(1 + r.below(nm));
            g.rec(SLICE, a, 0xC0, 0, beg, r.chance(1, 6) ? (uint8_t)(TAB_BASE + r.below(51)) : 0, r.byte());
            if (r.chance(1, 2)) g.rec(r.chance(1, 2) ? AT : SLICE, a, r.byte(), r.byte(), r.byte(), r.byte(), r.byte());
            g.rec(r.chance(2, 3) ? ALLOC : SET, a, r.byte(), r.chance(1, 4) ? r.byte() : 0, r.byte(), 0, r.byte());
            continue;
        }
        // boundary codes are rationed: ~20 % of the ops draw from the symbolic table
        bool boundary = r.chance(1, 5);
        uint8_t c1 = boundary && r.chance(3, 5) ? (uint8_t)(TAB_BASE + r.below(51)) : (uint8_t)r.below(TAB_BASE);
        uint8_t c2 = boundary && r.chance(3, 5) ? (uint8_t)(TAB_BASE + r.below(51)) : (uint8_t)r.below(TAB_BASE);
        uint8_t v[REC] = {(uint8_t)(r.byte() % 251), r.byte(), r.byte(), c1, r.byte(), c2, r.byte()};
        out.insert(out.end(), v, v + REC);
    }
}

namespace {
// G1 alphabet: 2 objects, 1 external buffer, profile 0 (op byte = opcode),
// symbolic tables reduced to {0, 1, len, len+1, nm-off, nm-off+1, SIZE_MAX-off+1, SIZE_MAX}
// compact: a sub-alphabet (54 ops) that makes depth 4 affordable
void build_alphabet(std::vector<std::vector<uint8_t>> &al, std::vector<std::string> &names, bool compact)
{
    auto T = [](int idx) { return (uint8_t)(TAB_BASE + idx); };
    const int t0 = 0, t1 = 1, tlen = 3, tlen1 = 4, tnm = 5, tnm1 = 6, tmax1 = 9, tmax = 10;
    const int RED[8] = {t0, t1, tlen, tlen1, tnm, tnm1, tmax1, tmax};
    const uint8_t TWIN = 0x10;          // abort-predicted slices run on sacrificial twins
    auto add = [&](Op op, uint8_t a, uint8_t b, uint8_t c1, uint8_t r1, uint8_t c2, uint8_t r2) {
        al.push_back({(uint8_t)op, a, b, c1, r1, c2, r2});
        names.push_back(OPN[op]);
    };
    if (compact) {
        for (uint8_t a = 0; a < 2; a++) {
            add(ALLOC, a, 1, 0, 3, 0, 0);
            add(ALLOC, a, 1, T(t0), 0, 0, 0);
            add(ALLOC, a, 1, T(tlen1), 0, 0, 0);
            add(ALLOC, a, 1, T(tmax), 0, 0, 0);
            add(SET, a, 1, 0, 3, 0, 0);
            const int CP[][2] = {{t1, tlen}, {t0, t1}, {tlen, tlen}, {t1, tnm}, {t1, t0}, {t0, tnm1}, {t0, tmax1}, {t1, tmax}, {tmax, tmax}};
            for (uint8_t s = 0; s < 2; s++) {
                for (auto &p : CP) add(SLICE, (uint8_t)(a | TWIN), s, T(p[0]), 0, T(p[1]), 0);
                add(UNSLICE, (uint8_t)(a | TWIN), s, 0, 0, 0, 0);
            }
            add(RESET, a, 0, 0, 0, 0, 0);
            add(RELEASE, a, 0, 0, 0, 0, 0);
        }
        return;
    }
    for (uint8_t a = 0; a < 2; a++) {
        for (int k = 0; k < 8; k++) add(ALLOC, a, 1, T(RED[k]), 0, 0, 0);     // sz = 4
        add(ALLOC, a, 1, 0, 3, 0, 0);                                         // a buffer worth slicing: 3 x 4
        add(ALLOC, a, 230, 0, 0, 0, 0);                                       // 0 x 2^32
        add(ALLOC, a, 230, 0, 1, 0, 0);                                       // 1 x 2^32
        add(SET, a, 1, 0, 0, 0, 0);
        add(SET, a, 1, 0, 1, 0, 0);
        add(SET, a, 1, 0, 3, 0, 0);
        add(SET, a, 1, T(tlen1), 0, 0, 0);
        const int PAIRS[][2] = {
            {t0, tlen}, {t1, tlen}, {t0, t1}, {t1, t1}, {tlen, tlen}, {t0, tnm}, {t1, tnm}, {tnm, tnm},
            {t1, t0}, {t0, tlen1}, {t0, tnm1}, {t1, tnm1}, {tnm1, tnm1}, {t0, tmax1}, {t1, tmax1}, {t0, tmax},
            {tmax, tmax}, {tmax1, tmax1},
        };
        for (uint8_t s = 0; s < 2; s++) {
            for (auto &p : PAIRS) add(SLICE, (uint8_t)(a | TWIN), s, T(p[0]), 0, T(p[1]), 0);
            add(UNSLICE, (uint8_t)(a | TWIN), s, 0, 0, 0, 0);
        }
        add(RESET, a, 0, 0, 0, 0, 0);
        add(RELEASE, a, 0, 0, 0, 0, 0);
    }
}
} // namespace

bool vf_scope(const std::string &name, Scope &s)
{
    // "seq<depth>[:<k>:<n>]" full reduced alphabet (110 ops), "cseq<depth>[:<k>:<n>]" compact
    // alphabet (54 ops); k/n = partition k of n by the first op of the history
    int depth = 3, k = 0, n = 0;
    bool compact = name[0] == 'c';
    if (sscanf(name.c_str() + compact, "seq%d:%d:%d", &depth, &k, &n) < 1) return false;
    if (n < 0 || n > 255 || k < 0 || k > 255) return false;
    // profile 0, twins always (+ which alphabet), 2 objects, 1 external buffer
    s.header = {0, (uint8_t)(1 | (compact ? 2 : 0)), 0, (uint8_t)k, (uint8_t)n};
    build_alphabet(s.alphabet, s.names, compact);
    s.prune = false;
    s.max_depth = depth;
    // trailer: state mark only; vf_run ends every case with the deep audit of all
    // objects, the reset of every object and the lifetime check
    s.trailer = {0xFE, 0, 0, 0, 0, 0, 0};
    return true;
}

int vf_custom(int, char **) { fprintf(stderr, "unknown engine\n"); return 2; }
