/*
 * C09 demo 1: requests whose byte count cannot be represented.
 *
 *  A. reserve(SIZE_MAX) on an empty vector is a quiet no-op
 *     (capacity stays 0, no storage is reported)
 *  B. reserve(SIZE_MAX) on a vector holding 4 ints leaves capacity, data
 *     pointer, block and contents alone
 *  C. resize(SIZE_MAX) aborts
 *
 * The allocator is observed through -Wl,--wrap so that "the data pointer is
 * one live allocation of at least (capacity+1)*size bytes" can be checked.
 */
#include <stdio.h>
#include <stdlib.h>
#include <stdint.h>
#include <string.h>
#include <signal.h>
#include <unistd.h>
#include <sys/wait.h>

#include "cstl/vector.h"

void * __real_realloc(void *, size_t);
void __real_free(void *);

#define NTRK 64
static struct { void * p; size_t sz; } trk[NTRK];

static void trk_del(void * const p)
{
    int i;
    for (i = 0; i < NTRK; i++) {
        if (trk[i].p == p) {
            trk[i].p = NULL;
        }
    }
}

static void trk_add(void * const p, const size_t sz)
{
    int i;
    for (i = 0; i < NTRK; i++) {
        if (trk[i].p == NULL) {
            trk[i].p = p;
            trk[i].sz = sz;
            return;
        }
    }
}

static int trk_live(const void * const p, size_t * const sz)
{
    int i;
    for (i = 0; p != NULL && i < NTRK; i++) {
        if (trk[i].p == p) {
            *sz = trk[i].sz;
            return 1;
        }
    }
    return 0;
}

void * __wrap_realloc(void * const old, const size_t sz)
{
    void * const p = __real_realloc(old, sz);
    if (p != NULL || sz == 0) {
        /* moved, resized in place, or (size 0) released */
        trk_del(old);
    }
    if (p != NULL) {
        trk_add(p, sz);
    }
    return p;
}

void __wrap_free(void * const p)
{
    trk_del(p);
    __real_free(p);
}

static int fails;

static void check_storage(struct cstl_vector * const v, const char * const what)
{
    const size_t cap = cstl_vector_capacity(v), n = cstl_vector_size(v);
    void * const d = cstl_vector_data(v);
    size_t blk = 0;

    if (cap < n) {
        printf("FAIL: %s: capacity %zu < size %zu\n", what, cap, n);
        fails++;
    }
    if (cap > 0 || d != NULL) {
        if (!trk_live(d, &blk)) {
            printf("FAIL: %s: capacity %zu, but data %p is not a live "
                   "allocation\n", what, cap, d);
            fails++;
        } else if (cap >= SIZE_MAX / sizeof(int)
                   || blk < (cap + 1) * sizeof(int)) {
            printf("FAIL: %s: capacity %zu reported over a block of "
                   "%zu bytes\n", what, cap, blk);
            fails++;
        }
    }
}

int main(void)
{
    pid_t pid;
    int st, i;

    /* A */
    {
        DECLARE_CSTL_VECTOR(v, int);

        cstl_vector_reserve(&v, SIZE_MAX);
        check_storage(&v, "A: reserve(SIZE_MAX) on an empty vector");
        if (cstl_vector_capacity(&v) != 0) {
            printf("FAIL: A: reserve(SIZE_MAX) was not a no-op: "
                   "capacity is now %zu\n", cstl_vector_capacity(&v));
            fails++;
        }
        /* (not cleared: with a bogus capacity that is not safe) */
    }

    /* B */
    {
        DECLARE_CSTL_VECTOR(v, int);
        size_t cap;
        void * d;

        cstl_vector_resize(&v, 4);
        for (i = 0; i < 4; i++) {
            *(int *)cstl_vector_at(&v, i) = 1000 + i;
        }
        cap = cstl_vector_capacity(&v);
        d = cstl_vector_data(&v);
        check_storage(&v, "B: resize(4)");

        cstl_vector_reserve(&v, SIZE_MAX);
        if (cstl_vector_capacity(&v) != cap || cstl_vector_data(&v) != d) {
            printf("FAIL: B: reserve(SIZE_MAX) changed capacity/data\n");
            fails++;
        }
        check_storage(&v, "B: reserve(SIZE_MAX) on a vector of 4 ints");
    }

    /* C */
    fflush(stdout);
    pid = fork();
    if (pid == 0) {
        DECLARE_CSTL_VECTOR(v, int);

        cstl_vector_resize(&v, SIZE_MAX);
        printf("FAIL: C: resize(SIZE_MAX) returned: size %zu capacity %zu\n",
               cstl_vector_size(&v), cstl_vector_capacity(&v));
        fflush(stdout);
        _exit(3);
    }
    waitpid(pid, &st, 0);
    if (!(WIFSIGNALED(st) && WTERMSIG(st) == SIGABRT)) {
        printf("FAIL: C: resize(SIZE_MAX) did not abort\n");
        fails++;
    }

    if (fails) {
        printf("FAIL (%d violations of C09)\n", fails);
        return 1;
    }
    printf("PASS\n");
    return 0;
}
