#!/bin/sh
# run every own mutant against the check of the property named in its file name prefix
cd "$(dirname "$0")/.."
out=mutants/RESULTS.txt
: > $out.tmp
for f in mutants/*.diff; do
    b=$(basename "$f" .diff)
    p=$(echo "$b" | cut -d_ -f1)
    tools/audit.py "$f" "$p" quick 2>&1 | grep -v '^WARNING' | cut -c1-230 | tee -a $out.tmp
done
mv $out.tmp $out
