/*
 * C16 / wave 5, change 1: one failed allocation in a map that already holds
 * more than a few dozen entries.
 *
 * 32 entries are inserted, then the allocation request made by the 33rd
 * insert is refused (malloc returns NULL once, via -Wl,--wrap=malloc), then
 * the program simply carries on: more inserts, finds, erases.
 *
 * Guarantee (C16): the failing insert returns -1, the map still holds exactly
 * what it held before, remains fully usable, nothing is leaked.
 */
#include <stdio.h>
#include <stdlib.h>
#include <string.h>

#include "cstl/map.h"

void * __real_malloc(size_t);
static int fail_next, refused;
static long live;

void * __wrap_malloc(size_t n)
{
    if (fail_next) {
        fail_next = 0;
        refused++;
        return NULL;
    }
    live++;
    return __real_malloc(n);
}
void __real_free(void *);
void __wrap_free(void * p)
{
    if (p != NULL) {
        live--;
    }
    __real_free(p);
}

static int cmp_int(const void * a, const void * b, void * p)
{
    (void)p;
    return *(const int *)a - *(const int *)b;
}

#define N 40
static int keys[N], vals[N];
static int present[N];

static int check(cstl_map_t * const map, const char * const when)
{
    size_t want = 0;
    int i, bad = 0;

    for (i = 0; i < N; i++) {
        cstl_map_iterator_t it;
        const int found = (cstl_map_find(map, &keys[i], &it),
                           !cstl_map_iterator_eq(&it, cstl_map_iterator_end(map)));
        want += present[i];
        if (found != present[i]) {
            printf("  %s: key %d is %s the map but find() says %s\n", when, keys[i],
                   present[i] ? "in" : "not in", found ? "found" : "not found");
            bad = 1;
        } else if (found && (it.key != &keys[i] || it.val != &vals[i])) {
            printf("  %s: find(%d) does not yield the stored key/value pointers\n",
                   when, keys[i]);
            bad = 1;
        }
    }
    if (cstl_map_size(map) != want) {
        printf("  %s: size() is %zu, %zu entries were inserted and not erased\n",
               when, cstl_map_size(map), want);
        bad = 1;
    }
    return bad;
}

int main(void)
{
    cstl_map_t map;
    cstl_map_iterator_t it;
    int i, rc, bad = 0;
    long live0;

    for (i = 0; i < N; i++) {
        keys[i] = 10 * (i + 1);
        vals[i] = 1000 + i;
    }

    live0 = live;
    cstl_map_init(&map, cmp_int, NULL);
    for (i = 0; i < 32; i++) {
        rc = cstl_map_insert(&map, &keys[i], &vals[i], NULL);
        if (rc != 0) {
            printf("demo: insert %d returned %d\n", i, rc);
            return 2;
        }
        present[i] = 1;
    }
    bad |= check(&map, "before the failure");

    /* the 33rd insert: its allocation request is refused */
    fail_next = 1;
    rc = cstl_map_insert(&map, &keys[32], &vals[32], &it);
    fail_next = 0;
    printf("insert #33 with its allocation refused (%d request refused) -> %d\n", refused, rc);
    if (refused != 1) {
        printf("demo: the insert made no allocation request\n");
        return 2;
    }
    if (rc != -1 || !cstl_map_iterator_eq(&it, cstl_map_iterator_end(&map))) {
        printf("  the failed insert did not return -1 with the end iterator\n");
        bad = 1;
    }
    bad |= check(&map, "right after the failed insert");

    /* life goes on */
    for (i = 33; i < 37; i++) {
        rc = cstl_map_insert(&map, &keys[i], &vals[i], &it);
        if (rc == 0) {
            present[i] = 1;
            if (it.key != &keys[i] || it.val != &vals[i]) {
                printf("  insert(%d) yields an iterator to another entry\n", keys[i]);
                bad = 1;
            }
        } else {
            printf("  insert(%d) after the failure returned %d\n", keys[i], rc);
            bad = 1;
        }
    }
    bad |= check(&map, "after 4 more inserts");

    for (i = 0; i < 36 && !bad; i += 5) {
        rc = cstl_map_erase(&map, &keys[i], NULL);
        if (rc != (present[i] ? 0 : -1)) {
            printf("  erase(%d) returned %d\n", keys[i], rc);
            bad = 1;
        }
        present[i] = 0;
    }
    if (!bad) {
        bad |= check(&map, "after erasing every 5th key");
    }

    if (!bad) {
        /* (a map whose tree is damaged is not walked again) */
        cstl_map_clear(&map, NULL, NULL);
        if (live != live0) {
            printf("  %ld allocations of the map are still live after clear\n", live - live0);
            bad = 1;
        }
    }

    if (bad) {
        printf("FAIL: after one refused allocation the map no longer holds what it held\n");
        return 1;
    }
    printf("PASS\n");
    return 0;
}
