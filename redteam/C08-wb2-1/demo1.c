/*
 * C08 demo 1: a session table.  A session ends (its entry is erased), the next
 * one starts (a new entry is inserted), later that one ends as well.
 * Every erase of a present key must return 0 AND remove the entry.
 *
 * Built WITHOUT a sanitizer on purpose: the ordinary allocator hands the block
 * of the node that was just freed to the next allocation of the same size.
 */
#include <stdio.h>
#include <stdlib.h>
#include "cstl/map.h"

static int cmp_int(const void * a, const void * b, void * p)
{
    (void)p;
    return (*(const int *)a > *(const int *)b) - (*(const int *)a < *(const int *)b);
}

static int fails;
#define EXPECT(c, ...) do { if (!(c)) { fails++; printf("  violated: " __VA_ARGS__); printf("\n"); } } while (0)

int main(void)
{
    static int keys[8] = { 10, 20, 30, 40, 50, 60, 70, 80 };
    static int vals[8];
    cstl_map_t m;
    cstl_map_iterator_t it;
    int rc, round;

    cstl_map_init(&m, cmp_int, NULL);

    /* a permanent entry, so that the map is never empty */
    rc = cstl_map_insert(&m, &keys[0], &vals[0], NULL);
    EXPECT(rc == 0, "insert(10) returned %d", rc);

    for (round = 1; round < 8; round++) {
        /* session `round` starts ... */
        rc = cstl_map_insert(&m, &keys[round], &vals[round], &it);
        EXPECT(rc == 0, "round %d: insert of a new key returned %d", round, rc);
        EXPECT(cstl_map_size(&m) == 2, "round %d: size %zu after insert, expected 2", round, cstl_map_size(&m));

        /* ... and ends: erase by key */
        rc = cstl_map_erase(&m, &keys[round], &it);
        EXPECT(rc == 0, "round %d: erase of a present key returned %d", round, rc);
        EXPECT(it.key == &keys[round] && it.val == &vals[round],
               "round %d: erase did not report the stored pointers", round);
        EXPECT(cstl_map_size(&m) == 1, "round %d: erase returned %d but size is %zu, expected 1",
               round, rc, cstl_map_size(&m));
        cstl_map_find(&m, &keys[round], &it);
        EXPECT(cstl_map_iterator_eq(&it, cstl_map_iterator_end(&m)),
               "round %d: key %d was erased (erase returned 0) but find still yields an entry", round, keys[round]);
        if (fails) {
            break;
        }
    }

    cstl_map_clear(&m, NULL, NULL);
    if (fails) {
        printf("FAIL: the map kept an entry whose erase reported success (%d violated expectations)\n", fails);
        return 1;
    }
    printf("PASS\n");
    return 0;
}
