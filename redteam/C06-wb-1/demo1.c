/*
 * C06 / wave 5, change 1: a weak pointer lock that gives up.
 *
 * The main thread owns the memory for the whole run. Two other threads, each
 * with its own weak pointer and its own (empty) shared pointer, lock at the
 * same time. Thread H wins the internal flag and is then preempted for a
 * while inside the few instructions it holds it (the demo keeps it stopped
 * until thread W has called sched_yield() 5000 times -- a few milliseconds,
 * i.e. one time slice on a busy machine). Thread W has to wait for H.
 *
 * Guarantee (C06 / C05): locking a weak pointer yields an owner iff an owner
 * still exists. An owner exists throughout, so BOTH locks must yield an owner
 * of the live memory, however long W had to wait.
 */
#include "demo_sched.h"
#include "cstl/memory.h"

static cstl_shared_ptr_t keep, sp_h, sp_w;
static cstl_weak_ptr_t wp_h, wp_w;

static void thread_h(void * nil)
{
    cstl_weak_ptr_lock(&wp_h, &sp_h);
    (void)nil;
}

static void thread_w(void * nil)
{
    cstl_weak_ptr_lock(&wp_w, &sp_w);
    (void)nil;
}

int main(void)
{
    void * mem, * got_h, * got_w;
    long yields;
    int early;

    cstl_shared_ptr_init(&keep);
    cstl_shared_ptr_init(&sp_h);
    cstl_shared_ptr_init(&sp_w);
    cstl_weak_ptr_init(&wp_h);
    cstl_weak_ptr_init(&wp_w);

    cstl_shared_ptr_alloc(&keep, 128, NULL);
    mem = cstl_shared_ptr_get(&keep);
    if (mem == NULL) {
        printf("demo: allocation failed\n");
        return 2;
    }
    memset(mem, 0x5a, 128);
    cstl_weak_ptr_from(&wp_h, &keep);
    cstl_weak_ptr_from(&wp_w, &keep);

    /* H: stopped right after it has taken the flag (before its first fetch_add) */
    demo_start(0, thread_h, NULL, DS_FETCH_ADD, 1);
    demo_wait_paused_or_done(0);
    if (!demo_is_paused(0)) {
        printf("demo: thread H did not reach the critical section as expected\n");
        return 2;
    }

    /* W: locks while H is inside; it can only wait */
    demo_start(1, thread_w, NULL, 0, 0);
    early = demo_wait_done_or_yields(1, 5000);
    yields = DT[1].count[DS_YIELD];

    /* H is scheduled again and finishes */
    demo_join(0);
    demo_join(1);

    got_h = cstl_shared_ptr_get(&sp_h);
    got_w = cstl_shared_ptr_get(&sp_w);

    printf("thread H: lock -> %s\n", got_h == mem ? "owner" : "EMPTY");
    printf("thread W: lock -> %s (%s after %ld sched_yield calls while H was inside)\n",
           got_w == mem ? "owner" : "EMPTY", early ? "returned" : "still waiting", yields);

    cstl_shared_ptr_reset(&sp_h);
    cstl_shared_ptr_reset(&sp_w);
    cstl_weak_ptr_reset(&wp_h);
    cstl_weak_ptr_reset(&wp_w);

    if (got_h != mem || got_w != mem) {
        printf("FAIL: the main thread held an owning shared pointer during the whole run, "
               "yet cstl_weak_ptr_lock() came back empty: a lock must yield an owner "
               "while an owner exists\n");
        cstl_shared_ptr_reset(&keep);
        return 1;
    }
    if (((unsigned char *)mem)[0] != 0x5a || demo_times_freed(mem) != 0) {
        printf("FAIL: the memory was touched or freed while owners existed\n");
        return 1;
    }
    cstl_shared_ptr_reset(&keep);
    if (demo_times_freed(mem) != 1) {
        printf("FAIL: the memory was freed %d times\n", demo_times_freed(mem));
        return 1;
    }
    printf("PASS\n");
    return 0;
}
