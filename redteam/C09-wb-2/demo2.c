/*
 * C09 demo 2: cstl_vector_at / cstl_vector_at_const abort exactly when the
 * index is at or beyond size. Linked against the library as `make b`
 * produces it (build/libcstl.a, the release configuration).
 */
#include <stdio.h>
#include <stdlib.h>
#include <stdint.h>
#include <signal.h>
#include <unistd.h>
#include <sys/wait.h>

#include "cstl/vector.h"

static int fails;

/* run at(i) / at_const(i) in a child; report how it ended */
static void probe(struct cstl_vector * const v, const size_t i,
                  const int use_const, const int must_abort)
{
    pid_t pid;
    int st;

    fflush(stdout);
    pid = fork();
    if (pid == 0) {
        const void * const p =
            use_const ? cstl_vector_at_const(v, i) : cstl_vector_at(v, i);
        /* tell the parent that the call returned */
        _exit(p != NULL ? 42 : 43);
    }
    waitpid(pid, &st, 0);

    if (must_abort && !(WIFSIGNALED(st) && WTERMSIG(st) == SIGABRT)) {
        printf("FAIL: %s(%zu) on a vector of size %zu (capacity %zu) "
               "returned a pointer instead of aborting\n",
               use_const ? "at_const" : "at", i,
               cstl_vector_size(v), cstl_vector_capacity(v));
        fails++;
    } else if (!must_abort && !(WIFEXITED(st) && WEXITSTATUS(st) == 42)) {
        printf("FAIL: %s(%zu) on a vector of size %zu did not return "
               "normally\n", use_const ? "at_const" : "at", i,
               cstl_vector_size(v));
        fails++;
    }
}

int main(void)
{
    DECLARE_CSTL_VECTOR(v, int);
    DECLARE_CSTL_VECTOR(e, int);
    int k;

    cstl_vector_reserve(&v, 8);
    cstl_vector_resize(&v, 3);

    for (k = 0; k < 2; k++) {
        /* in range: must not abort */
        probe(&v, 0, k, 0);
        probe(&v, 2, k, 0);
        /* at or beyond size: must abort */
        probe(&v, 3, k, 1);                         /* size */
        probe(&v, 4, k, 1);                         /* size + 1 */
        probe(&v, cstl_vector_capacity(&v), k, 1);  /* the scratch slot */
        probe(&v, SIZE_MAX, k, 1);
        /* empty, never allocated */
        probe(&e, 0, k, 1);
    }

    cstl_vector_clear(&v);

    if (fails) {
        printf("FAIL (%d violations of C09: at() must abort exactly when "
               "the index is at or beyond size)\n", fails);
        return 1;
    }
    printf("PASS\n");
    return 0;
}
