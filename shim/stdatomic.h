/* Shadow <stdatomic.h> for the C06 check: every atomic step of src/memory.c
 * first yields to the harness's deterministic scheduler and is then performed
 * sequentially consistently (all atomics in the source use the default
 * seq_cst order; the _explicit forms are mapped to the same). Type-generic
 * through __typeof__ and statement expressions, so any integer width and the
 * compare-exchange / exchange / or / and / xor forms work too. Only on the
 * include path of the library objects of the C06 harness build. */
#ifndef VERIF_SHIM_STDATOMIC_H
#define VERIF_SHIM_STDATOMIC_H
#include <stddef.h>
#include <stdint.h>
#include <stdbool.h>
typedef size_t atomic_size_t;
typedef int atomic_flag;
typedef bool atomic_bool;
typedef char atomic_char;
typedef signed char atomic_schar;
typedef unsigned char atomic_uchar;
typedef short atomic_short;
typedef unsigned short atomic_ushort;
typedef int atomic_int;
typedef unsigned int atomic_uint;
typedef long atomic_long;
typedef unsigned long atomic_ulong;
typedef long long atomic_llong;
typedef unsigned long long atomic_ullong;
typedef intptr_t atomic_intptr_t;
typedef uintptr_t atomic_uintptr_t;
typedef ptrdiff_t atomic_ptrdiff_t;
typedef uint32_t atomic_uint_least32_t;
typedef uint64_t atomic_uint_least64_t;
#define _Atomic(T) T
#define ATOMIC_FLAG_INIT 0
#define ATOMIC_VAR_INIT(v) (v)
typedef enum { memory_order_relaxed, memory_order_consume, memory_order_acquire, memory_order_release,
               memory_order_acq_rel, memory_order_seq_cst } memory_order;
#ifdef __cplusplus
extern "C" {
#endif
/* yield to the scheduler before an atomic step on [p, p+sz); kind is a small tag */
void vfs_pre(int kind, const volatile void *p, size_t sz);
/* record what the step observed / left behind (state identification of the schedule search) */
void vfs_post(const volatile void *p, size_t sz, unsigned long long observed, unsigned long long now);
void vfs_flag_cleared(const volatile void *f);
void vfs_flag_lost(const volatile void *f);
void vfs_flag_won(const volatile void *f);
int vfs_sched_yield(void);
#ifdef __cplusplus
}
#endif
#define atomic_init(p, v) do { *(p) = (v); vfs_post((p), sizeof *(p), 0, (unsigned long long)*(p)); } while (0)
#define VFS_RMW(kind, p, expr) __extension__ ({ __typeof__(*(p) + 0) vfs_old; vfs_pre((kind), (p), sizeof *(p)); vfs_old = *(p); \
        *(p) = (__typeof__(*(p)))(expr); vfs_post((p), sizeof *(p), (unsigned long long)vfs_old, (unsigned long long)*(p)); vfs_old; })
#define atomic_fetch_add(p, v) VFS_RMW(1, p, vfs_old + (v))
#define atomic_fetch_sub(p, v) VFS_RMW(2, p, vfs_old - (v))
#define atomic_fetch_or(p, v) VFS_RMW(3, p, vfs_old | (v))
#define atomic_fetch_and(p, v) VFS_RMW(4, p, vfs_old & (v))
#define atomic_fetch_xor(p, v) VFS_RMW(5, p, vfs_old ^ (v))
#define atomic_exchange(p, v) VFS_RMW(6, p, (v))
#define atomic_load(p) __extension__ ({ __typeof__(*(p) + 0) vfs_v; vfs_pre(7, (p), sizeof *(p)); vfs_v = *(p); \
        vfs_post((p), sizeof *(p), (unsigned long long)vfs_v, (unsigned long long)vfs_v); vfs_v; })
#define atomic_store(p, v) do { vfs_pre(8, (p), sizeof *(p)); *(p) = (v); vfs_post((p), sizeof *(p), 0, (unsigned long long)*(p)); } while (0)
#define atomic_compare_exchange_strong(p, e, d) __extension__ ({ bool vfs_ok; vfs_pre(9, (p), sizeof *(p)); \
        vfs_ok = *(p) == *(e); if (vfs_ok) *(p) = (d); else *(e) = *(p); \
        vfs_post((p), sizeof *(p), (unsigned long long)vfs_ok, (unsigned long long)*(p)); vfs_ok; })
#define atomic_compare_exchange_weak(p, e, d) atomic_compare_exchange_strong(p, e, d)
#define atomic_flag_test_and_set(f) __extension__ ({ int vfs_o; vfs_pre(10, (f), sizeof *(f)); vfs_o = *(f); *(f) = 1; \
        vfs_post((f), sizeof *(f), (unsigned long long)vfs_o, 1); if (vfs_o) vfs_flag_lost((f)); else vfs_flag_won((f)); vfs_o != 0; })
#define atomic_flag_clear(f) do { vfs_pre(11, (f), sizeof *(f)); *(f) = 0; vfs_post((f), sizeof *(f), 0, 0); vfs_flag_cleared((f)); } while (0)
#define atomic_fetch_add_explicit(p, v, o) atomic_fetch_add(p, v)
#define atomic_fetch_sub_explicit(p, v, o) atomic_fetch_sub(p, v)
#define atomic_fetch_or_explicit(p, v, o) atomic_fetch_or(p, v)
#define atomic_fetch_and_explicit(p, v, o) atomic_fetch_and(p, v)
#define atomic_exchange_explicit(p, v, o) atomic_exchange(p, v)
#define atomic_load_explicit(p, o) atomic_load(p)
#define atomic_store_explicit(p, v, o) atomic_store(p, v)
#define atomic_compare_exchange_strong_explicit(p, e, d, o1, o2) atomic_compare_exchange_strong(p, e, d)
#define atomic_compare_exchange_weak_explicit(p, e, d, o1, o2) atomic_compare_exchange_strong(p, e, d)
#define atomic_flag_test_and_set_explicit(f, o) atomic_flag_test_and_set(f)
#define atomic_flag_clear_explicit(f, o) atomic_flag_clear(f)
#define atomic_thread_fence(o) ((void)0)
#define atomic_signal_fence(o) ((void)0)
#endif
