// C10 (narrow and wide strings equal a reference string after every edit and
// stay NUL-terminated; documented aborts; counts clamped; unsatisfiable growth
// aborts; find/compare agree with the C library) and the string part of C16
// (allocation failure: reserve quietly unchanged, growth aborts, the object
// keeps answering per the model, nothing leaked).
//
// cstl/string.h does not compile as C++: every call goes through the C adapter
// h_string_adapter.c (opaque void* objects).
#include "common/verif.hpp"
#include "h_string_adapter.h"
#include <cwchar>
using namespace vf;

const char *vf_harness_name() { return "string"; }

namespace {

// ------------------------------------------------------------------ traits
template <class C> struct Tr;
#define TRAITS(C, P, TAG, HIGH, CHR, STR, CMP, LEN)                                               \
    template <> struct Tr<C> {                                                                    \
        static const char *tag() { return TAG; }                                                  \
        static C hi() { return (C)HIGH; }                                                         \
        static void *mk() { return P##_new(); }                                                   \
        static void kill(void *s) { P##_kill(s); }                                                \
        static size_t size(void *s) { return P##_size(s); }                                       \
        static size_t capacity(void *s) { return P##_capacity(s); }                               \
        static void reserve(void *s, size_t n) { P##_reserve(s, n); }                             \
        static void resize(void *s, size_t n) { P##_resize(s, n); }                               \
        static C *at(void *s, size_t i) { return P##_at(s, i); }                                  \
        static const C *at_const(void *s, size_t i) { return P##_at_const(s, i); }                \
        static C *data(void *s) { return P##_data(s); }                                           \
        static const C *str(void *s) { return P##_str(s); }                                       \
        static int compare_str(void *s, const C *b) { return P##_compare_str(s, b); }             \
        static int compare(void *a, void *b) { return P##_compare(a, b); }                        \
        static void clear(void *s) { P##_clear(s); }                                              \
        static void insert_ch(void *s, size_t p, size_t n, C c) { P##_insert_ch(s, p, n, c); }    \
        static void insert_str_n(void *s, size_t p, const C *b, size_t n) { P##_insert_str_n(s, p, b, n); } \
        static void insert_str(void *s, size_t p, const C *b) { P##_insert_str(s, p, b); }        \
        static void insert(void *s, size_t p, void *o) { P##_insert(s, p, o); }                   \
        static void append(void *s, void *o) { P##_append(s, o); }                                \
        static void append_ch(void *s, size_t n, C c) { P##_append_ch(s, n, c); }                 \
        static void append_str_n(void *s, const C *b, size_t n) { P##_append_str_n(s, b, n); }    \
        static void append_str(void *s, const C *b) { P##_append_str(s, b); }                     \
        static void set_str(void *s, const C *b) { P##_set_str(s, b); }                           \
        static void erase(void *s, size_t p, size_t n) { P##_erase(s, p, n); }                    \
        static void substr(void *s, size_t p, size_t n, void *d) { P##_substr(s, p, n, d); }      \
        static long find_ch(void *s, C c, size_t p) { return P##_find_ch(s, c, p); }              \
        static long find_str(void *s, const C *b, size_t p) { return P##_find_str(s, b, p); }     \
        static long find(void *s, void *o, size_t p) { return P##_find(s, o, p); }                \
        static void swap(void *a, void *b) { P##_swap(a, b); }                                    \
        static void *peek_base(void *s) { return P##_peek_base(s); }                              \
        static size_t peek_count(void *s) { return P##_peek_count(s); }                           \
        static size_t peek_cap(void *s) { return P##_peek_cap(s); }                               \
        /* the C library side of the oracle */                                                    \
        static const C *xchr(const C *s, C c) { return CHR(s, c); }                               \
        static const C *xstr(const C *s, const C *n) { return STR(s, n); }                        \
        static int xcmp(const C *a, const C *b) { return CMP(a, b); }                             \
        static size_t xlen(const C *a) { return LEN(a); }                                         \
    };
TRAITS(char, hs, "narrow", 0x7f, strchr, strstr, strcmp, strlen)
TRAITS(wchar_t, hw, "wide", 0x1F600, wcschr, wcsstr, wcscmp, wcslen)

// ------------------------------------------------------------------ case language
enum Op { SET_STR, INSERT_CH, INSERT_STR_N, INSERT_STR, INSERT, APPEND, APPEND_CH, APPEND_STR_N,
          APPEND_STR, ERASE, SUBSTR, RESIZE, RESERVE, CLEAR, SWAP, AT, FIND_CH, FIND_STR, FIND,
          COMPARE, COMPARE_STR, NOPS };
const char *OPN[] = {"set_str", "insert_ch", "insert_str_n", "insert_str", "insert", "append",
                     "append_ch", "append_str_n", "append_str", "erase", "substr", "resize",
                     "reserve", "clear", "swap", "at", "find_ch", "find_str", "find", "compare",
                     "compare_str"};
const size_t HDR = 4, REC = 6;
unsigned g_alpha_set;    // header byte 0, bits 4-5
size_t MAXLEN = 200;            // reference strings never grow beyond this (counted no-op); 6000 in "long" cases (header byte 0, bit 6)
bool g_long;                    // long case: the random counts reach ~1500 instead of 40

// weight profiles (swarm); profile 0 is uniform, so op byte == Op for o < NOPS
const uint8_t PROFILES[][NOPS] = {
    //            set ich isn ist ins app ach asn ast era sub rsz rsv clr swp  at fch fst fnd cmp cms
    /* uniform */ {1,  1,  1,  1,  1,  1,  1,  1,  1,  1,  1,  1,  1,  1,  1,  1,  1,  1,  1,  1,  1},
    /* grow    */ {2,  4,  3,  3,  3,  3,  3,  2,  2,  1,  1,  2,  2,  0,  1,  1,  1,  1,  1,  1,  1},
    /* edit    */ {1,  5,  2,  2,  2,  1,  1,  1,  1,  6,  5,  3,  1,  1,  1,  1,  1,  1,  1,  1,  1},
    /* query   */ {2,  2,  1,  1,  2,  2,  1,  1,  1,  1,  2,  1,  1,  0,  1,  4,  5,  5,  4,  3,  3},
    /* alloc   */ {3,  2,  2,  1,  2,  2,  2,  1,  1,  1,  3,  3,  5,  2,  2,  0,  1,  0,  1,  1,  0},
    /* bounds  */ {1,  4,  1,  1,  1,  1,  2,  1,  1,  4,  4,  4,  4,  1,  1,  3,  2,  2,  1,  0,  0},
};
const int NPROFILES = sizeof PROFILES / sizeof PROFILES[0];
const int PROFILE_ALLOC = 4;

void make_tab(int prof, std::vector<uint8_t> &tab)
{
    tab.clear();
    for (int o = 0; o < NOPS; o++) for (int k = 0; k < PROFILES[prof][o]; k++) tab.push_back((uint8_t)o);
}

// base strings selectable from the header: every string of <= 3 characters over
// {a,b} (codes 0..14) and one with an embedded NUL (code 15)
const char *const BASES[16] = {"", "a", "b", "aa", "ab", "ba", "bb", "aaa", "aab", "aba", "abb",
                               "baa", "bab", "bba", "bbb", "a\0b"};
const size_t BASELEN[16] = {0, 1, 1, 2, 2, 2, 2, 3, 3, 3, 3, 3, 3, 3, 3, 3};

// ---- symbolic argument table (G4). Byte v < 205 (80 %): ordinary, in-range
// values; v >= 205 (20 %): boundary values. Evaluated against the live model.
const unsigned ORD_BOUND = 205, NBND = 12;
enum Bnd { B_SIZE_P1, B_MAX, B_MAX_M1, B_MAX_M_SIZE, B_MAX_M_POS, B_MAX_M_POS_P1, B_LIM_M1, B_LIM,
           B_LIM_P1, B_MAX_M_SIZE_P1, B_MAXCS_M1, B_MAXCS };
const char *BNDN[] = {"size+1", "SIZE_MAX", "SIZE_MAX-1", "SIZE_MAX-size", "SIZE_MAX-pos",
                      "SIZE_MAX-pos+1", "LIMIT/cs-1", "LIMIT/cs", "LIMIT/cs+1", "SIZE_MAX-size+1",
                      "SIZE_MAX/cs-1", "SIZE_MAX/cs"};
const char *ORDN[] = {"0", "mid", "size-1", "size", "1", "size-pos", "rnd", "rnd"};

size_t sym(uint8_t v, size_t size, size_t pos, size_t cs, bool *boundary)
{
    size_t Lc = g_alloc_limit / cs;
    if (v < ORD_BOUND) {
        *boundary = false;
        switch (v & 7) {
        case 0: return 0;
        case 1: return size / 2;
        case 2: return size ? size - 1 : 0;
        case 3: return size;
        case 4: return 1;
        case 5: return size >= pos ? size - pos : 0;
        default: { size_t r = ((size_t)(v >> 3) + (size_t)(v & 1) * 26) % 41; return g_long && (v & 0x10) ? r * 37 + (v >> 5) : r; }   // random <= 40 (long cases: <= ~1500)
        }
    }
    *boundary = true;
    switch ((v - ORD_BOUND) % NBND) {
    case B_SIZE_P1: return size + 1;
    case B_MAX: return SIZE_MAX;
    case B_MAX_M1: return SIZE_MAX - 1;
    case B_MAX_M_SIZE: return SIZE_MAX - size;
    case B_MAX_M_POS: return SIZE_MAX - pos;
    case B_MAX_M_POS_P1: return SIZE_MAX - pos + 1;
    case B_LIM_M1: return Lc - 1;
    case B_LIM: return Lc;
    case B_LIM_P1: return Lc + 1;
    case B_MAX_M_SIZE_P1: return SIZE_MAX - size + 1;
    case B_MAXCS_M1: return SIZE_MAX / cs - 1;
    default: return SIZE_MAX / cs;
    }
}
const char *symname(uint8_t v)
{
    return v < ORD_BOUND ? ORDN[v & 7] : BNDN[(v - ORD_BOUND) % NBND];
}
std::string szs(size_t v)
{
    char b[48];
    if (v == SIZE_MAX) return "SIZE_MAX";
    if (v > SIZE_MAX - 100000) snprintf(b, sizeof b, "SIZE_MAX-%zu", SIZE_MAX - v);
    else snprintf(b, sizeof b, "%zu", v);
    return b;
}

// ------------------------------------------------------------------ clause ids
bool g_c16 = false;          // --prop C16
bool g_fault_seen = false;   // an allocation request of the library has failed in this case
const char *ring(const char *a, const char *b)
{
    static char buf[8][96];
    static unsigned k = 0;
    char *p = buf[k++ & 7];
    snprintf(p, 96, "%s%s", a, b);
    return p;
}
// model clauses: "the container still equals the model" belongs to C16 once a
// failure was delivered in a C16 run
const char *CL(const char *what)
{
    return (g_c16 && g_fault_seen) ? ring("C16.string.model.", what) : ring("C10.", what);
}
// fault-related clauses (growth aborts / must not abort, reserve quietly unchanged)
const char *FCL(const char *what) { return g_c16 ? ring("C16.string.", what) : ring("C10.", what); }

// ------------------------------------------------------------------ harness memory
std::vector<void *> g_structs, g_bufs;      // freed at the top of the next case if a case is cut short
void forget(std::vector<void *> &v, void *p)
{
    auto it = std::find(v.begin(), v.end(), p);
    if (it != v.end()) { *it = v.back(); v.pop_back(); }
}
void lib_release_block(void *p)
{
    if (p && lib_is_live(p)) { g_live->erase(p); __real_free(p); }
}

template <class C> struct Obj {
    void *s = nullptr;
    std::basic_string<C> ref;
};

template <class C> std::string show(const std::basic_string<C> &s)
{
    std::string o = "\"";
    size_t n = std::min<size_t>(s.size(), 24);
    for (size_t i = 0; i < n; i++) {
        unsigned long c = (unsigned long)s[i];
        if (c == 0) o += "\\0";
        else if (c >= 'a' && c <= 'z') o += (char)c;
        else { char b[16]; snprintf(b, sizeof b, "\\x%lx", c); o += b; }
    }
    if (s.size() > n) o += "...";
    char b[32];
    snprintf(b, sizeof b, "\"(%zu)", s.size());
    return o + b;
}

// ------------------------------------------------------------------ interpreter
template <class C> struct Interp {
    typedef Tr<C> T;
    typedef std::basic_string<C> Str;
    static const size_t CS = sizeof(C);
    Obj<C> m[3];
    int nobj = 2;
    std::vector<uint8_t> tab;
    bool nt_poscnt = false, nt_realloc = false;
    size_t nops = 0, noops = 0;
    long first_fault_op = -1;

    // five-letter alphabets; the set is chosen by header bits 4-6 (set 0 = the classic one). The others cover what a
    // signed / unsigned or narrow / wide confusion needs: bytes >= 0x80, the extreme wide values, Latin-1 vs ASCII
    static C alpha(unsigned k)
    {
        static const unsigned long long SETS[4][5] = {
            {'a', 'b', 'c', 0, 0},                               // [4] replaced by T::hi()
            {'a', 0x80, 0xff, 0, 0xc3},
            {'z', 'u', 0xfc, 0, 'r'},
            {0x80, 0x81, 0xfe, 0, 0xff},
        };
        static const unsigned long long WSETS[4][5] = {
            {'a', 'b', 'c', 0, 0},
            {'a', 0x80000000ull, 0xFFFFFFFFull, 0, 0x7fffffffull},
            {'z', 'u', 0xfc, 0, 0x10FFFF},
            {0x80, 0xD800, 0xFFFE, 0, 0xFFFF},
        };
        unsigned set = g_alpha_set & 3;
        if (set == 0 && k % 5 == 4) return T::hi();
        return (C)(sizeof(C) == 1 ? SETS[set][k % 5] : WSETS[set][k % 5]);
    }
    // exact-size harness buffer (overreads are ASan reports)
    static C *mkbuf(const C *src, size_t n)
    {
        C *b = (C *)malloc(n * CS);
        if (n) memcpy(b, src, n * CS);
        g_bufs.push_back(b);
        return b;
    }
    static void freebuf(C *b)
    {
        if (!b) return;
        forget(g_bufs, b);
        free(b);
    }
    static void *mk()
    {
        void *s = T::mk();
        g_structs.push_back(s);
        return s;
    }
    static void kill(void *s)
    {
        forget(g_structs, s);
        T::kill(s);
    }
    // drop an object the library aborted on (or a half-built twin): its storage
    // is released with the interposer's knowledge, the object is never used again
    static void release(Obj<C> &o)
    {
        lib_release_block(T::peek_base(o.s));
        kill(o.s);
        o.s = nullptr;
    }
    static void destroy(Obj<C> &o)
    {
        LIB(T::clear(o.s));
        kill(o.s);
        o.s = nullptr;
    }
    void abandon_main(Obj<C> &o)
    {
        release(o);
        o.s = mk();
        o.ref.clear();
        CNT("class.main_abandoned");
    }
    void note_faults()
    {
        if (alloc_failures()) g_fault_seen = true;
        if (first_fault_op < 0 && g_faults_hit > 0) first_fault_op = (long)nops;
    }

    // ---- the per-object audit, after every op
    void audit(Obj<C> &o, const char *who, bool with_at = true)
    {
        size_t sz = 0;
        const C *p = nullptr;
        LIB(sz = T::size(o.s));
        CHECK(sz == o.ref.size(), CL("size"), "%s %s: size() %zu, reference %zu", T::tag(), who, sz, o.ref.size());
        LIB(p = T::str(o.s));
        CHECK(p != nullptr, CL("str.nonnull"), "%s %s: str() returned NULL", T::tag(), who);
        for (size_t i = 0; i < sz; i++)
            CHECK(p[i] == o.ref[i], CL("str.chars"), "%s %s: str()[%zu] is 0x%lx, reference 0x%lx (size %zu)", T::tag(),
                  who, i, (unsigned long)p[i], (unsigned long)o.ref[i], sz);
        CHECK(p[sz] == (C)0, CL("str.nul"), "%s %s: str()[size=%zu] is 0x%lx, not NUL", T::tag(), who, sz,
              (unsigned long)p[sz]);
        if (sz > 0 && with_at) {
            const size_t idx[3] = {0, sz / 2, sz - 1};
            C *q[3] = {nullptr, nullptr, nullptr};
            volatile int k = 0;
            void *s = o.s;
            bool ab = may_abort([&] { for (k = 0; k < 3; k = k + 1) q[k] = T::at(s, idx[k]); });
            CHECK(!ab, CL("at.in_range"), "%s %s: at(%zu) aborted, size %zu", T::tag(), who, idx[k], sz);
            for (int j = 0; j < 3; j++)
                CHECK(q[j] == p + idx[j], CL("at.addr"), "%s %s: at(%zu) is not &str()[%zu]", T::tag(), who, idx[j], idx[j]);
        }
    }
    // every live object: size, characters, terminator; the at() sample (one
    // trapped region = two signal-mask system calls) only on the objects the op
    // touched (mask bit i) -- the others were sampled when they were last touched
    void audit_all(unsigned at_mask = 7)
    {
        static const char *const W[3] = {"S0", "S1", "S2"};
        for (int i = 0; i < nobj; i++) audit(m[i], W[i], (at_mask >> i) & 1);
    }

    // sacrificial twin rebuilt from the model contents
    bool build_twin(Obj<C> &tw, const Str &ref, bool written_empty)
    {
        tw.s = mk();
        tw.ref = ref;
        if (ref.empty() && !written_empty) return true;     // never-written object
        uint64_t f0 = alloc_failures();
        C *buf = mkbuf(ref.data(), ref.size());
        size_t n = ref.size();
        void *s = tw.s;
        bool ab = ref.empty() ? may_abort([&] { T::resize(s, 0); })
                              : may_abort([&] { T::insert_str_n(s, 0, buf, n); });
        freebuf(buf);
        bool failed = alloc_failures() != f0;
        note_faults();
        if (ab) {
            CHECK(failed, FCL("growth.spurious_abort"), "building a %zu-character string aborted although no allocation failed", n);
            release(tw);
            CNT("noop.twin_build_failed");
            return false;
        }
        CHECK(!failed, FCL("growth.must_abort"), "building a %zu-character string returned although an allocation failed", n);
        audit(tw, "twin");
        return true;
    }

    // base string built by the header
    void build_base(int i, unsigned code)
    {
        code %= 16;
        size_t n = BASELEN[code];
        if (!n) return;
        Str base;
        for (size_t k = 0; k < n; k++) base += (C)BASES[code][k];
        C *buf = mkbuf(base.data(), n);
        void *s = m[i].s;
        uint64_t f0 = alloc_failures(), o0 = g_alloc_ordinal;
        g_cur_op = "base";
        bool ab = may_abort([&] { T::insert_str_n(s, 0, buf, n); });
        freebuf(buf);
        bool failed = alloc_failures() != f0;
        nops++;
        note_faults();
        TRACE("S%d base %s%s", i, show(base).c_str(), ab ? " -> abort" : "");
        if (ab) {
            CHECK(failed, FCL("growth.spurious_abort"), "insert_str_n into an empty string aborted although no allocation failed");
            abandon_main(m[i]);
            return;
        }
        CHECK(!failed, FCL("growth.must_abort"), "insert_str_n returned although an allocation failed");
        if (g_alloc_ordinal - o0 > alloc_failures() - f0) nt_realloc = true;
        m[i].ref = base;
    }

    std::string peek_state()
    {
        std::string s;
        for (int i = 0; i < nobj; i++) {
            char b[64];
            snprintf(b, sizeof b, "|%zu,%zu:", T::peek_count(m[i].s), T::peek_cap(m[i].s));
            s += b;
            s += show(m[i].ref);
        }
        return s;
    }

    // generated raw buffer: 3 base-5 digits of c, rotated every 3 characters
    static Str gen_buf(uint8_t c, size_t len)
    {
        unsigned d = c % 125, rot = c / 125;
        unsigned dig[3] = {d % 5, (d / 5) % 5, (d / 25) % 5};
        Str s;
        for (size_t i = 0; i < len; i++) s += alpha(dig[i % 3] + (unsigned)(i / 3) * rot);
        return s;
    }
    static Str cstr_of(const Str &s)      // what a C string function sees
    {
        size_t k = s.find((C)0);
        return k == Str::npos ? s : s.substr(0, k);
    }

    void step(uint8_t ob_op, uint8_t ob, uint8_t pb, uint8_t nb, uint8_t cb, uint8_t xb)
    {
        const int op = tab[ob_op % tab.size()];
        const int ai = ob % nobj, bi = (ai + 1 + (ob >> 4) % (nobj - 1)) % nobj;
        const bool use_main = (xb % 5) == 0;
        // source buffers: mostly 0..8 characters; in long cases also tens and hundreds (block-wise copy loops)
        const size_t blen = (g_long && (cb & 0x40)) ? 9 + ((size_t)(xb / 5) % 9) * 37 + (cb & 31) : (xb / 5) % 9;
        const bool derived = (xb / 45) & 1, twin_written = (xb / 90) & 1;
        const size_t sz = m[ai].ref.size();
        g_cur_op = OPN[op];

        // ---- arguments
        bool bp = false, bn = false;
        size_t pos = sym(pb, sz, 0, CS, &bp);
        size_t n = sym(nb, sz, pos, CS, &bn);
        C ch = alpha(cb);
        Str bstr;               // characters the buffer contributes (reference side)
        Str raw;                // characters in the buffer handed to the library
        bool cbuf = false;      // NUL-terminated buffer
        switch (op) {
        case INSERT_STR_N: case APPEND_STR_N:
            raw = gen_buf(cb, blen);
            n = nb % (blen + 1);            // rule 4.7: never more than the buffer holds
            bstr = raw.substr(0, n);
            break;
        case SET_STR: case INSERT_STR: case APPEND_STR:
            raw = gen_buf(cb, blen);
            cbuf = true;
            break;
        case FIND_STR:
            raw = derived ? m[ai].ref.substr(cb % (sz + 1), blen) : gen_buf(cb, blen);
            cbuf = true;
            break;
        case COMPARE_STR:
            if (derived) {
                raw = cstr_of(m[ai].ref);
                if (cb % 3 == 1 && !raw.empty()) raw.pop_back();
                if (cb % 3 == 2) raw += (C)'b';
            } else raw = gen_buf(cb, blen);
            cbuf = true;
            break;
        default: break;
        }
        if (cbuf) { bstr = cstr_of(raw); raw += (C)0; }
        if (op == APPEND || op == APPEND_CH || op == APPEND_STR_N || op == APPEND_STR) pos = sz;
        if (op == INSERT || op == APPEND) n = m[bi].ref.size();
        if (op == INSERT_STR || op == APPEND_STR || op == SET_STR) n = bstr.size();

        // ---- what the model predicts
        bool must = false, may = false, growth = false, usesB = false, edit = false, bmut = false;
        unsigned __int128 newlen = 0;
        switch (op) {
        case SET_STR: growth = edit = true; newlen = n; break;
        case INSERT_CH: case INSERT_STR_N: case INSERT_STR: case INSERT:
        case APPEND: case APPEND_CH: case APPEND_STR_N: case APPEND_STR:
            edit = true;
            must = pos > sz;
            growth = n > 0;
            newlen = (unsigned __int128)sz + n;
            usesB = (op == INSERT || op == APPEND);
            break;
        // erase and substr document truncation of the count only: a position beyond the end may abort (it does today)
        // or be clamped (nothing erased / empty substring) -- either way nothing outside the string is touched
        case ERASE: edit = true; may = pos >= sz; break;
        case SUBSTR:
            usesB = bmut = true;
            may = pos >= sz;
            growth = true;
            newlen = pos <= sz ? std::min(n, sz - pos) : 0;
            break;
        case RESIZE: edit = growth = true; newlen = n; break;
        case RESERVE: break;
        case CLEAR: edit = true; break;
        case SWAP: usesB = bmut = true; break;
        case AT: must = pos >= sz; break;
        case FIND_CH: case FIND_STR: must = pos > sz; may = pos == sz; break;
        case FIND: usesB = true; must = pos > sz; may = pos == sz; break;
        case COMPARE: usesB = true; break;
        case COMPARE_STR: break;
        }
        // definitely unsatisfiable: the characters plus the terminator alone exceed
        // what the interposer grants (covers length+1 / byte count not representable)
        const bool unsat = growth && !must && (newlen + 1) * CS > (unsigned __int128)g_alloc_limit;
        // this implementation also keeps one scratch element: used only to decide
        // where to run the op (twin or main), never as a verdict
        const bool pred_over = growth && !must && (newlen + 2) * CS > (unsigned __int128)g_alloc_limit;
        if (growth && !must && !pred_over && newlen > MAXLEN) {
            CNT("noop.maxlen");
            noops++;
            TRACE("S%d.%s noop (reference would exceed %zu characters)", ai, OPN[op], MAXLEN);
            return;
        }
        const bool predicted = must || may || pred_over;
        const bool twin = predicted && !use_main;

        Obj<C> twA, twB;
        Obj<C> *ta = &m[ai], *tb = &m[bi];
        if (twin) {
            if (!build_twin(twA, m[ai].ref, twin_written)) { noops++; TRACE("S%d.%s noop (twin could not be built)", ai, OPN[op]); return; }
            if (usesB && !build_twin(twB, m[bi].ref, twin_written)) {
                destroy(twA);
                noops++;
                TRACE("S%d.%s noop (twin could not be built)", ai, OPN[op]);
                return;
            }
            ta = &twA;
            if (usesB) tb = &twB;
            CNT("class.sacrificial");
        }
        nops++;
        {
            static int ids[NOPS];
            static bool init = false;
            if (!init) { for (int k = 0; k < NOPS; k++) ids[k] = counter_id((std::string("op.") + OPN[k]).c_str()); init = true; }
            counters()[ids[op]].second++;
        }
        if (sz == 0) CNT("class.size_0"); else if (sz <= 3) CNT("class.size_1_3"); else if (sz <= 15) CNT("class.size_4_15"); else CNT("class.size_16_up");
        if (bp || bn) CNT("class.boundary_arg");
        if (ta->ref.find((C)0) != Str::npos) CNT("class.embedded_nul");
        if ((op == INSERT_CH || op == ERASE || op == SUBSTR) && pos >= 1 && n >= SIZE_MAX - sz) nt_poscnt = true;
        if (growth && !must) {
            if (newlen + 1 > (unsigned __int128)SIZE_MAX || (newlen + 1) * CS > (unsigned __int128)SIZE_MAX) CNT("class.unrepresentable");
            else if (pred_over) CNT("class.over_limit");
        }
        if ((op == ERASE || op == SUBSTR) && pos < sz && n > sz - pos) CNT("class.count_clamped");

        C *buf = raw.empty() && !cbuf && op != INSERT_STR_N && op != APPEND_STR_N ? nullptr : mkbuf(raw.data(), raw.size());
        char descbuf[256] = "", args[160] = "";
        auto mkdesc = [&]() -> const char * {
            if (descbuf[0]) return descbuf;
            std::string P = "pos=" + szs(pos) + "[" + symname(pb) + "]", N = "n=" + szs(n) + "[" + symname(nb) + "]";
            std::string Bf = buf ? "buf=" + show(raw) : std::string();
            char chs[24], oth[8];
            snprintf(chs, sizeof chs, "ch=0x%lx", (unsigned long)ch);
            snprintf(oth, sizeof oth, "S%d%s", bi, twin ? "'" : "");
            switch (op) {
            case INSERT_CH: snprintf(args, sizeof args, "%s %s %s", P.c_str(), N.c_str(), chs); break;
            case INSERT_STR_N: snprintf(args, sizeof args, "%s %s n=%zu", P.c_str(), Bf.c_str(), n); break;
            case INSERT_STR: case FIND_STR: snprintf(args, sizeof args, "%s %s", P.c_str(), Bf.c_str()); break;
            case INSERT: case FIND: snprintf(args, sizeof args, "%s %s", P.c_str(), oth); break;
            case APPEND: case SWAP: case COMPARE: snprintf(args, sizeof args, "%s", oth); break;
            case APPEND_CH: snprintf(args, sizeof args, "%s %s", N.c_str(), chs); break;
            case APPEND_STR_N: snprintf(args, sizeof args, "%s n=%zu", Bf.c_str(), n); break;
            case APPEND_STR: case SET_STR: case COMPARE_STR: snprintf(args, sizeof args, "%s", Bf.c_str()); break;
            case ERASE: snprintf(args, sizeof args, "%s %s", P.c_str(), N.c_str()); break;
            case SUBSTR: snprintf(args, sizeof args, "%s %s dst=%s", P.c_str(), N.c_str(), oth); break;
            case RESIZE: case RESERVE: snprintf(args, sizeof args, "%s", N.c_str()); break;
            case AT: snprintf(args, sizeof args, "i=%s[%s]", szs(pos).c_str(), symname(pb)); break;
            case FIND_CH: snprintf(args, sizeof args, "%s %s", chs, P.c_str()); break;
            default: break;
            }
            snprintf(descbuf, sizeof descbuf, "%s S%d%s.%s(%s) on %s", T::tag(), ai, twin ? "'" : "", OPN[op], args, show(ta->ref).c_str());
            return descbuf;
        };
        if (g_trace) mkdesc();      // decoded form with the contents before the call
#define desc mkdesc()
        if (g_replay_mode == 1) TRACE("> %s", desc);

        // ---- the call
        void *sa = ta->s, *sb = tb->s;
        long fr = -2;
        int cr = 0;
        C *atp = nullptr;
        size_t cap0 = 0;
        C *data0 = nullptr;
        if (op == RESERVE) { LIB(cap0 = T::capacity(sa)); LIB(data0 = T::data(sa)); }
        const uint64_t f0 = alloc_failures(), o0 = g_alloc_ordinal;
        bool aborted = may_abort([&] {
            switch (op) {
            case SET_STR: T::set_str(sa, buf); break;
            case INSERT_CH: T::insert_ch(sa, pos, n, ch); break;
            case INSERT_STR_N: T::insert_str_n(sa, pos, buf, n); break;
            case INSERT_STR: T::insert_str(sa, pos, buf); break;
            case INSERT: T::insert(sa, pos, sb); break;
            case APPEND: T::append(sa, sb); break;
            case APPEND_CH: T::append_ch(sa, n, ch); break;
            case APPEND_STR_N: T::append_str_n(sa, buf, n); break;
            case APPEND_STR: T::append_str(sa, buf); break;
            case ERASE: T::erase(sa, pos, n); break;
            case SUBSTR: T::substr(sa, pos, n, sb); break;
            case RESIZE: T::resize(sa, n); break;
            case RESERVE: T::reserve(sa, n); break;
            case CLEAR: T::clear(sa); break;
            case SWAP: T::swap(sa, sb); break;
            case AT: atp = (cb & 1) ? T::at(sa, pos) : (C *)T::at_const(sa, pos); break;
            case FIND_CH: fr = T::find_ch(sa, ch, pos); break;
            case FIND_STR: fr = T::find_str(sa, buf, pos); break;
            case FIND: fr = T::find(sa, sb, pos); break;
            case COMPARE: cr = T::compare(sa, sb); break;
            case COMPARE_STR: cr = T::compare_str(sa, buf); break;
            }
        });
        const bool failed = alloc_failures() != f0;
        const bool allocated = g_alloc_ordinal - o0 > alloc_failures() - f0;
        note_faults();
        freebuf(buf);
        // a growth during which a request was refused, but whose result does fit, may have found another way
        // (exact size after a refused over-allocation): abort or complete, the outcome decides
        const bool expected = must || (growth && unsat);
        const bool may_fail = growth && failed && !unsat;

        if (aborted) {
            TRACE("%s -> abort%s", desc, expected ? " (required)" : may ? " (optional, taken)" : may_fail ? " (allocation failed)" : " (NOT ALLOWED)");
            if (!expected && !may && !may_fail) {
                if (growth || op == RESERVE)
                    CHECK(false, op == RESERVE ? FCL("reserve.no_abort") : FCL("growth.spurious_abort"),
                          "%s aborted although the position is in range and no allocation failed", desc);
                CHECK(false, ring("C10.abort.spurious.", OPN[op]), "%s aborted although the arguments are in range", desc);
            }
            if (expected || may_fail) CNT("class.abort_expected"); else CNT("class.abort_optional_taken");
            if (failed && growth) CNT("class.growth_abort_on_alloc_failure");
            if (twin) { release(twA); if (usesB) release(twB); }
            else {
                abandon_main(m[ai]);
                if (usesB) abandon_main(m[bi]);
            }
            audit_all(0);
            return;
        }
        // ---- returned
        if (expected) {
            TRACE("%s -> returned (MUST ABORT)", desc);
            if (must)
                CHECK(false, ring("C10.abort.missing.", OPN[op]), "%s returned although the position is beyond the end (size %zu)", desc, sz);
            if (unsat && !failed)
                CHECK(false, "C10.growth.must_abort", "%s returned although %s characters plus terminator cannot be stored", desc,
                      szs((size_t)newlen).c_str());
        }
        if (may) CNT("class.abort_optional_not_taken");
        Str &ra = ta->ref, &rb = tb->ref;
        char res[96] = "";
        switch (op) {
        case SET_STR: ra = bstr; break;
        case INSERT_CH: case APPEND_CH: ra.insert(pos, n, ch); break;
        case INSERT_STR_N: case INSERT_STR: case APPEND_STR_N: case APPEND_STR: ra.insert(pos, bstr); break;
        case INSERT: case APPEND: ra.insert(pos, rb); break;
        case ERASE: if (pos < sz) ra.erase(pos, std::min(n, sz - pos)); break;
        case SUBSTR: rb = pos <= sz ? ra.substr(pos, std::min(n, sz - pos)) : Str(); break;
        case RESIZE: ra.resize(n, (C)0); break;
        case RESERVE: {
            if (failed) {
                size_t cap1 = 0;
                C *data1 = nullptr;
                LIB(cap1 = T::capacity(sa));
                LIB(data1 = T::data(sa));
                // unchanged, or satisfied another way (then the capacity covers the request; later edits exercise the storage)
                CHECK((cap1 == cap0 && data1 == data0) || (cap1 > cap0 && cap1 >= n), "C16.string.reserve.unchanged",   // "quietly do nothing" is C16's wording
                      "%s: the allocation failed but capacity %zu -> %zu, data %s", desc, cap0, cap1,
                      data1 == data0 ? "same" : "moved");
                CNT("class.reserve_failed_quietly");
            }
            break;
        }
        case CLEAR: ra.clear(); break;
        case SWAP: ra.swap(rb); break;
        case AT: {
            const C *p = nullptr;
            LIB(p = T::str(sa));
            CHECK(atp == p + pos, "C10.at.addr", "%s: at(%zu) is not &str()[%zu]", desc, pos, pos);
            CHECK(*atp == ra[pos], "C10.at.value", "%s: *at(%zu) is 0x%lx, reference 0x%lx", desc, pos, (unsigned long)*atp,
                  (unsigned long)ra[pos]);
            break;
        }
        case FIND_CH: {
            const C *b0 = ra.c_str();
            const C *r = T::xchr(b0 + pos, ch);
            long want = (r != nullptr && r != b0 + sz) ? (long)(r - b0) : -1;     // rule 4.11
            snprintf(res, sizeof res, " -> %ld", fr);
            CHECK(fr == want, "C10.find_ch", "%s returned %ld, strchr on the reference gives %ld", desc, fr, want);
            if (want >= 0) CNT("class.find_hit"); else CNT("class.find_miss");
            break;
        }
        case FIND_STR: case FIND: {
            const C *b0 = ra.c_str();
            const C *ndl = op == FIND ? rb.c_str() : bstr.c_str();
            const C *r = T::xstr(b0 + pos, ndl);
            long want = r ? (long)(r - b0) : -1;
            snprintf(res, sizeof res, " -> %ld", fr);
            CHECK(fr == want, op == FIND ? "C10.find" : "C10.find_str", "%s returned %ld, strstr on the reference gives %ld", desc,
                  fr, want);
            if (want >= 0) CNT("class.find_hit"); else CNT("class.find_miss");
            break;
        }
        case COMPARE: case COMPARE_STR: {
            int want = T::xcmp(ra.c_str(), op == COMPARE ? rb.c_str() : bstr.c_str());
            int sg = (cr > 0) - (cr < 0), sw = (want > 0) - (want < 0);
            snprintf(res, sizeof res, " -> %d", sg);
            CHECK(sg == sw, op == COMPARE ? "C10.compare" : "C10.compare_str", "%s has sign %d, strcmp on the reference has sign %d",
                  desc, sg, sw);
            if (sw == 0) CNT("class.compare_equal"); else CNT("class.compare_differ");
            break;
        }
        }
        TRACE("%s%s%s", desc, res, may ? " (optional abort not taken)" : "");
        if (edit && allocated && !twin) nt_realloc = true;
        if (allocated) CNT("class.reallocated");
        if (twin) {
            audit(twA, "twin");
            if (usesB) audit(twB, "twin of other");
            destroy(twA);
            if (usesB) destroy(twB);
        }
        audit_all(twin ? 0 : (1u << ai) | (usesB ? 1u << bi : 0));
#undef desc
    }

    void run(Cursor &cur, uint8_t h0, uint8_t h1, uint8_t h2, uint8_t h3)
    {
        nobj = 2 + ((h0 >> 1) & 1);
        int prof = h1 % NPROFILES;
        make_tab(prof, tab);
        for (int i = 0; i < nobj; i++) m[i].s = mk();
        TRACE("header %s objects=%d profile=%d base0=%u base1=%u limit=%zu", T::tag(), nobj, prof, h2 % 16, h3 % 16, g_alloc_limit);
        build_base(0, h2);
        build_base(1, h3);
        audit_all();
        bool marked = false;
        while (cur.remaining() >= REC) {
            uint8_t o = cur.u8(), ob = cur.u8(), pb = cur.u8(), nb = cur.u8(), cb = cur.u8(), xb = cur.u8();
            if (o == 0xFE) {
                if (g_want_state) { g_state = peek_state(); marked = true; }
                continue;
            }
            step(o, ob, pb, nb, cb, xb);
        }
        g_cur_op = "final audit";
        audit_all();
        if (g_want_state && !marked) g_state = peek_state();
        // teardown: clear every live object, then the leak audit
        g_cur_op = "final clear";
        for (int i = 0; i < nobj; i++) {
            LIB(T::clear(m[i].s));
            m[i].ref.clear();
            audit(m[i], "cleared");
            kill(m[i].s);
            m[i].s = nullptr;
        }
        CHECK(lib_live_count() == 0, "C16.string.leak", "%zu library allocations still live after every string was cleared",
              lib_live_count());
        if (g_c16) g_nontrivial = g_faults_hit >= 1 && first_fault_op >= 0 && nops >= (size_t)first_fault_op + 3;
        else g_nontrivial = nt_poscnt && nt_realloc;
        if (g_nontrivial) { if (CS == 1) CNT("class.narrow"); else CNT("class.wide"); }
        if (nt_poscnt) CNT("class.pos_and_huge_count");
        CNTN("ops", nops);
        CNTN("noops", noops);
    }
};

} // namespace

void vf_run(const uint8_t *data, size_t len)
{
    // nothing survives a case: the library's blocks were released by case_reset
    for (void *p : g_structs) free(p);
    g_structs.clear();
    for (void *p : g_bufs) free(p);
    g_bufs.clear();
    g_c16 = g_prop == "C16";
    g_fault_seen = false;
    Cursor cur(data, len);
    uint8_t h0 = cur.u8(), h1 = cur.u8(), h2 = cur.u8(), h3 = cur.u8();
    g_alpha_set = (h0 >> 4) & 3;
    g_long = (h0 & 0x40) != 0;
    MAXLEN = g_long ? 6000 : 200;
    static_assert(HDR == 4, "header: wide/objects, profile, base of S0, base of S1");
    if (h0 & 1) { Interp<wchar_t> in; in.run(cur, h0, h1, h2, h3); }
    else { Interp<char> in; in.run(cur, h0, h1, h2, h3); }
}

static int op_byte(const std::vector<uint8_t> &tab, int op)
{
    for (size_t i = 0; i < tab.size(); i++) if (tab[i] == op) return (int)i;
    return -1;
}

void vf_gen(Rng &r, std::vector<uint8_t> &out)
{
    bool c16 = g_prop == "C16";
    uint8_t prof = c16 ? (uint8_t)PROFILE_ALLOC : (uint8_t)(r.byte() % NPROFILES);
    out.push_back((uint8_t)((r.byte() & 0x0f) | (r.chance(1, 2) ? 0 : (r.below(4) << 4)) | (r.chance(1, 40) ? 0x40 : 0)));   // wide / objects / alphabet set / long strings
    out.push_back(prof);
    out.push_back(r.byte());                         // base of S0
    out.push_back(r.chance(1, 2) ? 0 : r.byte());    // base of S1
    size_t n = c16 ? 6 + r.below(9) : r.chance(2, 3) ? 1 + r.below(12) : 1 + r.below(40);
    size_t start = out.size();
    for (size_t i = 0; i < n; i++) {
        out.push_back(r.byte() % 251);
        out.push_back(r.byte());
        if (c16) { out.push_back(r.byte() % ORD_BOUND); out.push_back(r.byte() % ORD_BOUND); }   // small in-range sizes
        else { out.push_back(r.byte()); out.push_back(r.byte()); }   // 20 % of the byte values are boundary codes
        out.push_back(r.byte());
        out.push_back(r.byte());
    }
    if (!c16 && r.chance(1, 3)) {
        // force the rare shape: position >= 1 together with a count >= SIZE_MAX - size
        static const int OPS3[3] = {INSERT_CH, ERASE, SUBSTR};
        static const uint8_t POS[4] = {4, 1, 2, 3};
        static const uint8_t CN[6] = {B_MAX, B_MAX_M1, B_MAX_M_SIZE, B_MAX_M_POS, B_MAX_M_POS_P1, B_MAX_M_SIZE_P1};
        std::vector<uint8_t> tab;
        make_tab(prof, tab);
        int ob = op_byte(tab, OPS3[r.below(3)]);
        size_t k = start + REC * r.below((uint32_t)n);
        if (ob >= 0) {
            out[k] = (uint8_t)ob;
            out[k + 2] = POS[r.below(4)];
            out[k + 3] = (uint8_t)(ORD_BOUND + CN[r.below(6)]);
        }
    }
}

// G1 scopes. name = "<n|w>:<base 0..14>:<depth>[:full|std|red]"
//   depth 1 -> every single op with the full symbolic table
//   depth 2 -> every ordered pair, standard table
//   depth 3 -> every triple, reduced table
// Object S0 holds the base, S1 holds "ab" (source / destination).
bool vf_scope(const std::string &name, Scope &s)
{
    char w = 'n', tbl[16] = "";
    int base = 0, depth = 1;
    if (sscanf(name.c_str(), "%c:%d:%d:%15s", &w, &base, &depth, tbl) < 3) return false;
    if ((w != 'n' && w != 'w') || base < 0 || base > 15 || depth < 1) return false;
    std::string t = tbl[0] ? tbl : depth == 1 ? "full" : depth == 2 ? "std" : "red";
    s.header = {(uint8_t)(w == 'w' ? 1 : 0), 0, (uint8_t)base, 4};
    s.prune = false;
    s.max_depth = depth;
    auto O = [](unsigned k) { return (uint8_t)k; };                 // ordinary code k
    auto B = [](unsigned k) { return (uint8_t)(ORD_BOUND + k); };   // boundary code k
    const uint8_t RND2 = 22, RND7 = 62, RND40 = 119;
    std::vector<uint8_t> P, N, BUFS_C, BUFS_L;
    std::vector<unsigned> CH;
    if (t == "full") {
        for (unsigned k = 0; k < 6; k++) P.push_back(O(k));
        P.push_back(RND2); P.push_back(RND7); P.push_back(RND40);
        for (unsigned k = 0; k < NBND; k++) P.push_back(B(k));
        N = P;
        CH = {2, 3, 4};
    } else if (t == "std") {
        P = {O(0), O(4), O(1), O(2), O(3), B(B_SIZE_P1), B(B_MAX), B(B_MAX_M1), B(B_MAX_M_SIZE), B(B_LIM)};
        N = {O(0), O(4), O(1), O(2), O(3), O(5), RND2, B(B_SIZE_P1), B(B_MAX), B(B_MAX_M1), B(B_MAX_M_SIZE), B(B_MAX_M_POS),
             B(B_MAX_M_POS_P1), B(B_LIM_M1), B(B_LIM), B(B_LIM_P1), B(B_MAX_M_SIZE_P1)};
        CH = {2};
    } else if (t == "red") {
        P = {O(0), O(2), O(3), B(B_SIZE_P1), B(B_MAX_M_POS_P1), B(B_MAX)};
        N = {O(4), O(3), B(B_MAX_M_POS_P1), B(B_MAX)};
        CH = {2};
    } else return false;
    // buffers (content code, length): "", "a", "b", "ab", "ba", "a\0b"
    struct Bf { uint8_t c, l; };
    std::vector<Bf> bufs = {{0, 0}, {0, 1}, {1, 1}, {5, 2}, {1, 2}, {40, 3}};
    if (t == "red") bufs = {{0, 1}, {5, 2}};
    auto rec = [&](int op, uint8_t p, uint8_t n, uint8_t c, uint8_t len, bool derived = false) {
        s.alphabet.push_back({(uint8_t)op, 0, p, n, c, (uint8_t)(1 + 5 * len + (derived ? 45 : 0))});
        s.names.push_back(OPN[op]);
    };
    for (uint8_t p : P) for (uint8_t n : N) {
        for (unsigned c : CH) rec(INSERT_CH, p, n, (uint8_t)c, 0);
        rec(ERASE, p, n, 0, 0);
        rec(SUBSTR, p, n, 0, 0);
    }
    const bool red = t == "red";
    for (uint8_t n : red ? P : N) {
        rec(RESIZE, 0, n, 0, 0);
        rec(RESERVE, 0, n, 0, 0);
    }
    for (uint8_t n : red ? std::vector<uint8_t>{O(2), O(3), B(B_MAX)} : N) rec(AT, n, 0, 0, 0);
    for (uint8_t n : red ? std::vector<uint8_t>{O(4), B(B_MAX)} : N) rec(APPEND_CH, 0, n, 2, 0);
    for (uint8_t p : P) {
        for (unsigned c = 0; c < (red ? 1u : 4u); c++) rec(FIND_CH, p, 0, (uint8_t)c, 0);   // a, (b, c, NUL)
        for (Bf b : bufs) { rec(FIND_STR, p, 0, b.c, b.l); if (red) break; }
        if (!red) rec(FIND, p, 0, 0, 0);
        rec(INSERT, p, 0, 0, 0);
        for (Bf b : bufs) {
            if (b.l == 0 && t != "full") continue;
            rec(INSERT_STR, p, 0, b.c, b.l);
            if (red) break;
            rec(INSERT_STR_N, p, b.l, b.c, b.l);
        }
    }
    for (Bf b : bufs) {
        rec(SET_STR, 0, 0, b.c, b.l);
        if (red && b.l != 2) continue;
        rec(APPEND_STR, 0, 0, b.c, b.l);
        rec(APPEND_STR_N, 0, b.l, b.c, b.l);
        rec(COMPARE_STR, 0, 0, b.c, b.l);
    }
    for (uint8_t c = 0; c < (red ? 1 : 3); c++) rec(COMPARE_STR, 0, 0, c, 0, true);
    rec(APPEND, 0, 0, 0, 0);
    rec(CLEAR, 0, 0, 0, 0);
    rec(SWAP, 0, 0, 0, 0);
    rec(COMPARE, 0, 0, 0, 0);
    return true;
}

int vf_custom(int, char **) { fprintf(stderr, "unknown engine\n"); return 2; }
