/*
 * C19 demo 2: while a rehash is pending no single keyed operation does work
 * proportional to the whole table.
 *
 * Work that does not go through the hash function cannot be seen in a call
 * log, so the demo measures it in memory pages: a table with 32768 buckets
 * (512 KiB, 128 pages of bucket array) gets a resize request (same size,
 * another function), the pending rehash is worked off by finds, and at three
 * moments (after 25 %, 50 % and 99 % of the sweep) the bucket array is made
 * inaccessible (mprotect PROT_NONE) for the duration of ONE find; a SIGSEGV
 * handler counts the distinct pages that the operation touches and opens them.
 *
 * An incremental rehash touches the key's old bucket, its new bucket and the
 * bucket of the sweep: a handful of pages, the same at every moment.
 */
#define _GNU_SOURCE
#include <stdio.h>
#include <stdlib.h>
#include <stdint.h>
#include <string.h>
#include <signal.h>
#include <unistd.h>
#include <sys/mman.h>

#include "cstl/hash.h"

struct obj
{
    size_t key;
    struct cstl_hash_node hn;
};

#define NB 32768u
#define PG 4096u

static size_t h_a(const size_t k, const size_t m) { return k % m; }
static size_t h_b(const size_t k, const size_t m) { return (k * 7 + 3) % m; }

static volatile unsigned int touched;

static void on_segv(int sig, siginfo_t * const si, void * const uc)
{
    void * const pg = (void *)((uintptr_t)si->si_addr & ~(uintptr_t)(PG - 1));
    (void)sig; (void)uc;
    touched++;
    if (mprotect(pg, PG, PROT_READ | PROT_WRITE) != 0) {
        _exit(9);
    }
}

/* pages of the bucket array touched by one find(k) */
static unsigned int pages_for_one_find(struct cstl_hash * const h,
                                       const size_t k, unsigned int * const of)
{
    const uintptr_t b = (uintptr_t)h->bucket.at;
    const uintptr_t e = b + (uintptr_t)h->bucket.capacity * sizeof(*h->bucket.at);
    const uintptr_t lo = (b + PG - 1) & ~(uintptr_t)(PG - 1);
    const uintptr_t hi = e & ~(uintptr_t)(PG - 1);

    *of = (hi - lo) / PG;
    touched = 0;
    if (mprotect((void *)lo, hi - lo, PROT_NONE) != 0) {
        perror("mprotect");
        exit(2);
    }
    cstl_hash_find(h, k, NULL, NULL);
    mprotect((void *)lo, hi - lo, PROT_READ | PROT_WRITE);
    return touched;
}

int main(void)
{
    DECLARE_CSTL_HASH(h, struct obj, hn);
    static struct obj o[16];
    static const unsigned int at[3] = { NB / 4, NB / 2, NB - NB / 100 };
    struct sigaction sa;
    unsigned int i, done, m, fails = 0;

    memset(&sa, 0, sizeof(sa));
    sa.sa_sigaction = on_segv;
    sa.sa_flags = SA_SIGINFO | SA_NODEFER;
    sigaction(SIGSEGV, &sa, NULL);

    cstl_hash_resize(&h, NB, h_a);
    for (i = 0; i < 16; i++) {
        o[i].key = 1000 * i + 5;
        cstl_hash_insert(&h, o[i].key, &o[i]);
    }

    /* same size, another function: all NB buckets have to be swept */
    cstl_hash_resize(&h, NB, h_b);

    for (done = 0, m = 0; m < 3; m++) {
        unsigned int pages, of;

        /* each keyed operation advances the sweep */
        for (; done < at[m] && h.bucket.rh.hash != NULL; done++) {
            cstl_hash_find(&h, 5, NULL, NULL);
        }
        if (h.bucket.rh.hash == NULL) {
            printf("(rehash finished after %u keyed operations)\n", done);
            break;
        }

        pages = pages_for_one_find(&h, 5, &of);
        done++;
        printf("after %5u keyed operations: one find touched %3u of the "
               "%u pages of the bucket array\n", done - 1, pages, of);
        if (pages > 8) {
            printf("FAIL: a single keyed operation walked over %u%% of the "
                   "bucket array (work proportional to the table, growing "
                   "with the progress of the sweep)\n", 100 * pages / of);
            fails++;
        }
    }

    cstl_hash_clear(&h, NULL);

    if (fails) {
        printf("FAIL (%u violations of C19)\n", fails);
        return 1;
    }
    printf("PASS\n");
    return 0;
}
