#!/usr/bin/env python3
"""Evaluate one independently produced seeded change:  tools/seed_eval.py C09 1 [--tier quick|thorough] [--props C09,C16]
 1. in the producer's scratch worktree /tmp/seed_<id>: apply _seed/patch<k>.diff, `make b`, `make t` (must stay 52/0/0),
    run the demonstration (must fail), revert, run it again (must pass);
 2. run the property's check against a scratch copy with the patch (tools/audit.py machinery);
 3. store patch, demonstration and meta.json under /verif/seeded/<id>-<k>/.
"""
import sys, os, subprocess, shutil, json, re, time, glob
V = os.path.dirname(os.path.dirname(os.path.abspath(__file__)))
def sh(cmd, cwd=None, timeout=900):
    try:
        r = subprocess.run(cmd, shell=True, cwd=cwd, capture_output=True, text=True, timeout=timeout)
        return r.returncode, r.stdout + r.stderr
    except subprocess.TimeoutExpired:
        return 124, 'timeout'
def main():
    pid, k = sys.argv[1], sys.argv[2]
    tier = 'quick'
    props = [pid]
    a = sys.argv[3:]
    if '--tier' in a: tier = a[a.index('--tier') + 1]
    if '--props' in a: props = a[a.index('--props') + 1].split(',')
    root = a[a.index('--root') + 1] if '--root' in a else '/tmp/seed_'
    suffix = a[a.index('--suffix') + 1] if '--suffix' in a else ''
    wt = root + pid
    sd = os.path.join(wt, '_seed')
    patch = os.path.join(sd, 'patch%s.diff' % k)
    meta = dict(property=pid, change=int(k), evaluated_at=time.strftime('%Y-%m-%d %H:%M'), ran=[])
    sh('git checkout -- . ', cwd=wt)
    rc, out = sh('git apply %s' % patch, cwd=wt)
    meta['patch_applies'] = rc == 0
    if rc != 0:
        print('patch does not apply:', out); return 2
    rc, out = sh('make b 2>&1 | tail -3', cwd=wt)
    meta['builds'] = 'Error' not in out and 'error' not in out
    rc, out = sh('make t 2>&1 | tail -3', cwd=wt)
    m = re.search(r'Checks: (\d+), Failures: (\d+), Errors: (\d+)', out)
    meta['suite_with_change'] = m.group(0) if m else out[-200:]
    demo = os.path.join(sd, 'run_demo%s.sh' % k)
    if not os.path.exists(demo):
        c = glob.glob(os.path.join(sd, 'demo%s' % k, 'run*.sh')) + glob.glob(os.path.join(sd, 'demo%s*' % k, '*.sh'))
        demo = c[0] if c else demo
    rc1, out1 = sh('sh %s' % demo, cwd=wt)
    meta['demo_with_change'] = dict(rc=rc1, tail=out1[-400:])
    sh('git apply -R %s || git checkout -- . ' % patch, cwd=wt)      # (-R also removes files the patch added)
    sh('git checkout -- . ', cwd=wt)
    rc, out = sh('make b 2>&1 | tail -1', cwd=wt)
    rc2, out2 = sh('sh %s' % demo, cwd=wt)
    meta['demo_without_change'] = dict(rc=rc2, tail=out2[-300:])
    meta['ran'] += ['git apply patch; make b; make t; sh %s (expect failure); git checkout; sh %s (expect pass)' % (os.path.basename(demo), os.path.basename(demo))]
    confirmed = meta['builds'] and m and m.group(1) == '52' and m.group(2) == '0' and m.group(3) == '0' and \
        (rc1 != 0 or 'FAIL' in out1) and rc2 == 0 and 'FAIL' not in out2
    meta['confirmed'] = bool(confirmed)
    # detection by our checks
    det = {}
    for p in props:
        t0 = time.time()
        rc, out = sh('%s/tools/audit.py %s %s %s' % (V, patch, p, tier), timeout=3600)
        line = [l for l in out.splitlines() if l.strip().startswith(p + ':')]
        det[p] = dict(tier=tier, detected='VIOLATION' in out, detail=(line[0].strip() if line else out[-300:]), wall_s=round(time.time() - t0))
    meta['checks'] = det
    meta['ran'].append('tools/audit.py patch.diff %s %s  (scratch copy of /repo + patch, VERIF_REPO)' % (','.join(props), tier))
    notes = os.path.join(sd, 'notes%s.md' % k)
    meta['needs_to_manifest'] = open(notes).read()[:1500] if os.path.exists(notes) else ''
    dst = os.path.join(V, 'seeded', '%s-%s%s' % (pid, suffix, k))
    if '--round' in a:
        meta['round'] = a[a.index('--round') + 1]
    elif suffix:
        meta['round'] = 'adversarial: the producer was told what the tester covers (generator ranges, scopes, oracles) and asked to evade it'
    if confirmed:
        try:
            old = json.load(open(os.path.join(dst, 'meta.json')))
            for kk, vv in old.get('checks', {}).items():
                meta['checks'].setdefault(kk, vv)
        except Exception:
            pass
        shutil.rmtree(dst, ignore_errors=True)
        os.makedirs(dst)
        shutil.copy(patch, os.path.join(dst, 'patch.diff'))
        for f in glob.glob(os.path.join(sd, 'demo%s*' % k)) + glob.glob(os.path.join(sd, 'run_demo%s.sh' % k)) + glob.glob(notes):
            if os.path.isdir(f):
                shutil.copytree(f, os.path.join(dst, os.path.basename(f)))
            elif os.path.getsize(f) < 200000 and not os.access(f, os.X_OK) or f.endswith('.sh'):
                shutil.copy(f, dst)
        json.dump(meta, open(os.path.join(dst, 'meta.json'), 'w'), indent=1)
    print('%s-%s confirmed=%s suite=[%s] demo_with rc=%s demo_without rc=%s' % (pid, k, confirmed, meta['suite_with_change'], rc1, rc2))
    for p, d in det.items():
        print('   check %s (%s): detected=%s  %s' % (p, tier, d['detected'], d['detail'][:260]))
if __name__ == '__main__':
    main()
