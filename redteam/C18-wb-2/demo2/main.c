/*
 * C18 demo 2: an ordinary client with two modules of its own; each module's
 * header includes the public header it needs (cstl/map.h), and main.c
 * includes both module headers - so cstl/map.h reaches this translation unit
 * twice, which every header with an include guard must tolerate.
 */
#include "registry.h"
#include "cache.h"

#include <string.h>

static int cmp_str(const void * a, const void * b, void * p)
{
    (void)p;
    return strcmp(a, b);
}

void registry_init(struct registry * const r)
{
    cstl_map_init(&r->by_name, cmp_str, NULL);
}

size_t registry_count(const struct registry * const r)
{
    return cstl_map_size(&r->by_name);
}

void cache_init(struct cache * const c)
{
    cstl_map_init(&c->entries, cmp_str, NULL);
    c->hits = c->misses = 0;
}

int main(void)
{
    static char k[] = "key";
    static int v = 1;
    struct registry r;
    struct cache c;

    registry_init(&r);
    cache_init(&c);
    if (cstl_map_insert(&r.by_name, k, &v, NULL) != 0
        || registry_count(&r) != 1) {
        return 1;
    }
    cstl_map_clear(&r.by_name, NULL, NULL);
    cstl_map_clear(&c.entries, NULL, NULL);
    return 0;
}
