/*
 * C14 / wave 5, change 1: slicing one array object into another one that
 * already refers to a (smaller) buffer of its own. Linked against the library
 * as `make b` builds it (build/libcstl.a).
 *
 * Guarantee: after cstl_array_slice(&a, 20, 30, &s) every cstl_array_at(&s, i),
 * i < cstl_array_size(&s), lies inside the live buffer s refers to, and that
 * buffer (a's) stays alive for as long as s refers to it.
 */
#include <stdio.h>
#include <stdint.h>
#include "cstl/array.h"

static int inside(const void * p, const void * base, size_t bytes, size_t elem)
{
    return (uintptr_t)p >= (uintptr_t)base && (uintptr_t)p + elem <= (uintptr_t)base + bytes;
}

int main(void)
{
    DECLARE_CSTL_ARRAY(a);
    DECLARE_CSTL_ARRAY(s);
    DECLARE_CSTL_ARRAY(u);
    const void * abuf, * sbuf;
    int fails = 0;

    cstl_array_alloc(&a, 30, sizeof(int));
    cstl_array_alloc(&s, 4, sizeof(int));      /* s is in use: 4 ints of its own */
    abuf = cstl_array_data(&a);
    sbuf = cstl_array_data(&s);

    cstl_array_slice(&a, 20, 30, &s);          /* re-target s: elements 20..29 of a */

    if (cstl_array_size(&s) != 10) {
        printf("FAIL: the slice has %zu elements, expected 10\n", cstl_array_size(&s));
        fails++;
    }
    if (cstl_array_data(&s) != abuf) {
        printf("FAIL: after slice(a, 20, 30, s) s does not refer to a's buffer%s\n",
               cstl_array_data(&s) == sbuf ? " but still to its old 16-byte buffer" : "");
        fails++;
    }
    if (cstl_array_data(&s) != NULL && cstl_array_size(&s) > 0) {
        const void * first = cstl_array_at(&s, 0);
        const void * last = cstl_array_at(&s, cstl_array_size(&s) - 1);
        const void * base = cstl_array_data(&s);
        size_t bytes = base == abuf ? 30 * sizeof(int) : 4 * sizeof(int);
        if (!inside(first, base, bytes, sizeof(int)) || !inside(last, base, bytes, sizeof(int))) {
            printf("FAIL: at(s, 0) = buffer+%td and at(s, %zu) = buffer+%td lie outside the %zu-byte buffer s refers to\n",
                   (const char *)first - (const char *)base, cstl_array_size(&s) - 1,
                   (const char *)last - (const char *)base, bytes);
            fails++;
        } else if (first != cstl_array_at(&a, 20)) {
            printf("FAIL: at(s, 0) is not element 20 of a\n");
            fails++;
        }
    }

    /* the other direction: unslice into a third, empty object must give the whole buffer */
    if (cstl_array_data(&s) == abuf) {
        cstl_array_unslice(&s, &u);
        if (cstl_array_size(&u) != 30 || cstl_array_data(&u) != abuf) {
            printf("FAIL: unslice(s, u): u has %zu elements (expected 30) and %s a's buffer\n",
                   cstl_array_size(&u), cstl_array_data(&u) == abuf ? "refers to" : "does not refer to");
            fails++;
        }
    }

    if (fails == 0) {
        /* lifetime: a and u let go, s alone keeps the buffer alive */
        cstl_array_reset(&a);
        cstl_array_reset(&u);
        *(int *)cstl_array_at(&s, 9) = 42;
        if (*(int *)cstl_array_at(&s, 9) != 42) { printf("FAIL: element does not hold what was written\n"); fails++; }
    }
    cstl_array_reset(&s);
    cstl_array_reset(&u);
    cstl_array_reset(&a);

    if (fails) return 1;
    printf("PASS\n");
    return 0;
}
