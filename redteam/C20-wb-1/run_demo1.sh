#!/bin/sh
# run from the worktree root: sh _seed/run_demo1.sh
make b >/dev/null 2>&1 || { echo "FAIL: make b failed"; exit 1; }
DEFS=
# the demo covers every transfer function the header offers
grep -q 'cstl_unique_ptr_move' include/cstl/memory.h && DEFS=-DHAVE_UNIQUE_PTR_MOVE
gcc -std=gnu99 $DEFS -Iinclude _seed/demo1.c build/libcstl.a -lm -lpthread -o _seed/demo1.bin || { echo "FAIL: demo does not compile"; exit 1; }
./_seed/demo1.bin
