/*
 * C07 / red team round 2, change 1 -- demo
 *
 * The everyday priority-queue loop: pop the top element, give it a new
 * priority, push it back (timers that re-arm, schedulers, Dijkstra).
 * Nothing but cstl_heap_init / push / pop / get / size is used.
 *
 * A reference multiset tracks what must be in the heap; after every
 * operation size must equal the count, and every pop must return a
 * queued element whose priority is the maximum of the queued ones.
 */
#include <stdio.h>
#include <stdlib.h>
#include <string.h>
#include <stddef.h>
#include <limits.h>

#include "cstl/heap.h"

struct task {
    int prio;
    int queued;               /* reference: is it supposed to be in the heap */
    struct cstl_heap_node hn;
};

static int task_cmp(const void * a, const void * b, void * p)
{
    (void)p;
    return ((const struct task *)a)->prio - ((const struct task *)b)->prio;
}

#define N 6
static struct task T[N];
static struct cstl_heap H;
static size_t expect;
static int failed;

static void fail(const char * what)
{
    if (!failed) {
        printf("FAIL: %s\n", what);
    }
    failed = 1;
}

static void push(struct task * t, int prio)
{
    char msg[160];
    t->prio = prio;
    cstl_heap_push(&H, t);
    t->queued = 1;
    expect++;
    if (cstl_heap_size(&H) != expect) {
        snprintf(msg, sizeof(msg),
                 "after pushing task %d (prio %d) size is %zu, %zu elements were pushed and not popped",
                 (int)(t - T), prio, cstl_heap_size(&H), expect);
        fail(msg);
    }
}

static struct task * pop(void)
{
    char msg[160];
    struct task * const t = cstl_heap_pop(&H);
    int i, max = INT_MIN;

    for (i = 0; i < N; i++) {
        if (T[i].queued && T[i].prio > max) {
            max = T[i].prio;
        }
    }
    if (t == NULL) {
        if (expect != 0) {
            snprintf(msg, sizeof(msg), "pop returned NULL, %zu elements should be queued", expect);
            fail(msg);
        }
        return NULL;
    }
    if (!t->queued) {
        fail("pop returned an element that is not supposed to be in the heap");
    } else if (t->prio != max) {
        snprintf(msg, sizeof(msg), "pop returned prio %d, but an element with prio %d was pushed and never popped",
                 t->prio, max);
        fail(msg);
    }
    t->queued = 0;
    expect--;
    if (cstl_heap_size(&H) != expect) {
        snprintf(msg, sizeof(msg), "after pop size is %zu, expected %zu", cstl_heap_size(&H), expect);
        fail(msg);
    }
    return t;
}

int main(void)
{
    int i, round;

    /* heap object and elements deliberately not zero-filled */
    memset(&H, 0xA5, sizeof(H));
    memset(T, 0x5A, sizeof(T));
    for (i = 0; i < N; i++) {
        T[i].queued = 0;
    }
    cstl_heap_init(&H, task_cmp, NULL, offsetof(struct task, hn));

    for (i = 0; i < N; i++) {
        push(&T[i], 10 * (i + 1));
    }

    /* re-arm loop: the top task runs and is queued again with a lower priority */
    for (round = 0; round < 8 && !failed; round++) {
        struct task * const t = pop();
        if (t == NULL) {
            break;
        }
        push(t, t->prio - 25 - round);
    }

    /* drain: everything that was queued must come out, in order */
    while (!failed && expect > 0) {
        if (pop() == NULL) {
            break;
        }
    }
    if (!failed && cstl_heap_pop(&H) != NULL) {
        fail("pop on the drained heap returned an element");
    }

    if (failed) {
        return 1;
    }
    printf("PASS\n");
    return 0;
}
