// C08 (the map keeps exactly one entry per key), the map part of C15 (clear)
// and of C16 (a failed node allocation makes insert return -1, nothing changes).
#include "common/verif.hpp"
extern "C" {
#include "cstl/map.h"
}
using namespace vf;

const char *vf_harness_name() { return "map"; }

namespace {
struct KeyCell { int value; int id; };
struct ValCell { int id; int tag; };
struct Entry { KeyCell *k; ValCell *v; };

enum Op { INSERT, INSERT_NOIT, FIND, ERASE, ERASE_NOIT, ERASE_IT, CLEAR_CB, CLEAR_NULL, AUDIT, NOPS };
const char *OPN[] = {"insert", "insert(noiter)", "find", "erase", "erase(noiter)", "erase_iterator", "clear(cb)", "clear(NULL)", "audit"};
const uint8_t PROFILES[][NOPS] = {
    {1, 1, 1, 1, 1, 1, 1, 1, 1}, {6, 2, 2, 1, 1, 1, 0, 0, 1}, {3, 1, 1, 3, 2, 3, 0, 0, 1}, {4, 2, 2, 2, 1, 2, 1, 1, 0},
    {6, 2, 0, 1, 0, 1, 2, 0, 0}, /* C16: allocation heavy */ {8, 3, 1, 2, 1, 2, 0, 0, 1},
};
const int NPROFILES = 6;
const int KEYS[] = {1, 2, 3, 4, 8, 16, 64, 1000, 60000};
const int NKEYS = 9;
const size_t MAXLIVE[] = {1000000, 2, 3, 4, 6, 8, 10, 12};

int g_priv_token, g_clear_token, g_cmp_kind, g_mod;      // (the comparison priv and the clear priv are different pointers)
bool g_null_val;        // some entries store a NULL value pointer (the map as a set)
// keys are opaque pointers to the map: a NULL key pointer is a key like any other (an integer 0 stored in the pointer).
// In "null key" cases (header byte 2, bit 7) the value 0 is represented by the NULL pointer.
bool g_null_key;
static inline int kval(const void *k) { return k ? ((const struct KeyCell *)k)->value : 0; }
int key_class(int v) { return g_cmp_kind == 2 ? v % g_mod : v; }
// "any comparison function" includes one that consults another map while it compares (keys ordered by a rank that
// lives in an index map). In re-entrant cases (header byte 3, bits 7 and 6) every comparison of the map under test
// performs two lookups in a small auxiliary map of its own: one that must hit and one that must miss.
bool g_reenter;
cstl_map_t g_aux;
int g_aux_token;
size_t g_base_live;         // library allocations held by the auxiliary map
KeyCell g_aux_keys[3] = {{1000001, -2}, {1000003, -2}, {1000005, -2}};
int aux_cmp(const void *a, const void *b, void *p)
{
    CHECK_NOTHROW(p == &g_aux_token, "C08.cmp.priv", "compare function of the auxiliary map received a different priv pointer");
    int x = kval(a), y = kval(b);
    return (x > y) - (x < y);
}
void aux_lookups(int x)
{
    HarnessScope hs;
    CNT("class.map.reentrant_cmp");
    KeyCell hit{(int)(1000001 + 2 * (((unsigned)x) % 3)), -1}, miss{(int)(2000000 + (x & 0xffff)), -1};
    cstl_map_iterator_t it;
    const cstl_map_iterator_t *end;
    LIB(cstl_map_find(&g_aux, &hit, &it));
    LIB(end = cstl_map_iterator_end(&g_aux));
    CHECK_NOTHROW(!cstl_map_iterator_eq(&it, end) && it.key == &g_aux_keys[((unsigned)x) % 3], "C08.find.iff",
                  "a lookup made from inside the comparison function of another map did not find a present key");
    LIB(cstl_map_find(&g_aux, &miss, &it));
    CHECK_NOTHROW(cstl_map_iterator_eq(&it, end), "C08.find.iff", "a lookup made from inside the comparison function of another map found an absent key");
}
int cmp_cb(const void *a, const void *b, void *p)
{
    CHECK_NOTHROW(p == &g_priv_token, g_prop == "C15" ? "C15.map.reuse" : "C08.cmp.priv", "compare function received a different priv pointer");
    int x = key_class(kval(a)), y = key_class(kval(b));
    if (g_reenter) aux_lookups(x ^ y);
    // any negative / zero / positive int is a valid answer: differences, +-1, and values that do not fit a short or a char
    if (g_cmp_kind == 3) return x < y ? -2000000000 : x > y ? 2000000000 : 0;
    if (g_cmp_kind == 4) return (x > y) - (x < y);
    return g_cmp_kind == 1 ? y - x : x - y;
}

struct Map;
struct ClearCtx { Map *m; std::map<int, Entry> *expect; size_t calls; bool bad; };
ClearCtx *g_clear_ctx;

struct Map {
    const char *tag;
    cstl_map_t m;
    std::map<int, Entry> model;      // class -> stored pointers
    std::unordered_set<void *> cells;   // harness-owned cells still alive
    int next_id;
    void init(const char *t)
    {
        tag = t;
        model.clear();
        next_id = 0;
        memset(&m, 0xA5, sizeof m);      // init must set every field itself
        LIB(cstl_map_init(&m, cmp_cb, &g_priv_token));
    }
    KeyCell *mkkey(int v)
    {
        if (g_null_key && v == 0) return nullptr;
        KeyCell *k = (KeyCell *)malloc(sizeof *k); k->value = v; k->id = next_id++; cells.insert(k); return k;
    }
    ValCell *mkval()
    {
        if (g_null_val && (next_id++ % 3) == 0) return nullptr;
        ValCell *v = (ValCell *)malloc(sizeof *v); v->id = next_id++; v->tag = 0x11223344; cells.insert(v); return v;
    }
    void freecell(void *c, size_t sz)
    {
        if (!c) return;         // the NULL key
        cells.erase(c);
        memset(c, 0xDD, sz);
        free(c);
    }
    void destroy() { for (void *c : cells) free(c); fresh_clear(cells); }
};

void clear_cb(void *obj, void *priv)
{
    HarnessScope hs;
    ClearCtx *c = g_clear_ctx;
    c->calls++;
    if (priv != &g_clear_token) { c->bad = true; return; }
    cstl_map_iterator_t *it = (cstl_map_iterator_t *)obj;
    // the iterator must carry the stored key and value pointers of one entry, once
    for (auto kv = c->expect->begin(); kv != c->expect->end(); ++kv) {
        if (kv->second.k == it->key && kv->second.v == it->val) {
            Entry e = kv->second;
            c->expect->erase(kv);
            c->m->freecell(e.k, sizeof(KeyCell));
            c->m->freecell(e.v, sizeof(ValCell));
            return;
        }
    }
    c->bad = true;
}

typedef std::vector<long> Obs;
const char *pfx16(const char *c08, const char *c16) { return g_prop == "C16" ? c16 : c08; }

const char *cl_once() { return g_prop == "C15" ? "C15.map.once" : "C08.clear.once"; }
// (how many allocations the map keeps per entry is its own business: what is promised is that clear releases
// everything, which is checked after every clear and at the end of every case)

void audit(Map &mp, int K, Obs *obs)
{
    size_t sz;
    LIB(sz = cstl_map_size(&mp.m));
    if (obs) obs->push_back((long)sz);
    CHECK(sz == mp.model.size(), "C08.size", "%s size %zu, reference %zu", mp.tag, sz, mp.model.size());
    int lim = K <= 64 ? K : 64;        // large universes: a spread sample of keys
    for (int i = 0; i < lim; i++) {
        int v = K <= 64 ? i : (int)(((long)i * 9973 + 17) % K);
        KeyCell probe{v, -1};
        cstl_map_iterator_t it;
        LIB(cstl_map_find(&mp.m, &probe, &it));
        const cstl_map_iterator_t *end;
        LIB(end = cstl_map_iterator_end(&mp.m));
        bool isend = cstl_map_iterator_eq(&it, end);
        auto f = mp.model.find(key_class(v));
        if (obs) obs->push_back(isend ? -1 : kval(it.key));
        CHECK(isend == (f == mp.model.end()), "C08.find.iff", "%s find(%d) %s but the reference %s", mp.tag, v,
              isend ? "yields end" : "yields an entry", f == mp.model.end() ? "has no such key" : "has the key");
        if (!isend) CHECK(it.key == f->second.k && it.val == f->second.v, "C08.find.stored",
                          "%s find(%d) does not yield the stored key/value pointers", mp.tag, v);
    }
}

// canonical state for G1: shape of the underlying tree via a replica of the
// private node layout (identification only; falls back to the key set)
struct NodeReplica { const void *key; void *val; struct cstl_rbtree_node n; };
void peek_rec(Map &mp, struct cstl_bintree_node *b, std::string &s, size_t &budget, bool &ok)
{
    if (!b) { s += '.'; return; }
    if (!budget) { ok = false; return; }
    budget--;
    NodeReplica *nr = (NodeReplica *)((char *)b - offsetof(NodeReplica, n.n));
    bool mine = mp.cells.count((void *)nr->key) != 0;
    if (!mine) { ok = false; return; }
    s += '(';
    s += std::to_string(key_class(kval(nr->key)));
    s += nr->n.c == CSTL_RBTREE_COLOR_R ? 'r' : 'b';
    peek_rec(mp, b->l, s, budget, ok);
    peek_rec(mp, b->r, s, budget, ok);
    s += ')';
}
std::string peek_state(Map &mp)
{
    std::string s;
    size_t budget = mp.model.size() + 2;
    bool ok = true;
    peek_rec(mp, mp.m.t.t.root, s, budget, ok);
    if (!ok) { s = "M"; for (auto &kv : mp.model) s += std::to_string(kv.first) + ","; }
    return s;
}

struct CaseCtx { bool reinsert, erase_then_find, nonasc, clear3, reuse; int last_ins; size_t ops_after_fault; bool fault_seen; };

void apply(Map &mp, CaseCtx &cx, int op, uint8_t a, uint8_t b, int K, size_t maxlive, Obs *obs)
{
    int v = (int)((a | (b << 8)) % (unsigned)K);
    int cls = key_class(v);
    g_cur_op = OPN[op];
    if (g_replay_mode == 1) TRACE("> %s %s %d", mp.tag, OPN[op], v);
    const cstl_map_iterator_t *end;
    LIB(end = cstl_map_iterator_end(&mp.m));
    uint64_t f0 = alloc_failures();
    switch (op) {
    case INSERT:
    case INSERT_NOIT: {
        bool exists = mp.model.count(cls) != 0;
        if (!exists && mp.model.size() >= maxlive) { CNT("noop.maxlive"); TRACE("%s insert noop", mp.tag); return; }
        KeyCell *k = mp.mkkey(v);
        ValCell *val = mp.mkval();
        cstl_map_iterator_t it;
        memset(&it, 0x77, sizeof it);
        int rc;
        LIB(rc = cstl_map_insert(&mp.m, k, val, op == INSERT ? &it : nullptr));
        bool failed = alloc_failures() != f0;
        TRACE("%s %s key=%d(cell k%d) -> %d%s", mp.tag, OPN[op], v, k ? k->id : -1, rc, failed ? " [allocation failed]" : "");
        if (obs) obs->push_back(rc);
        if (exists) {
            CNT("class.insert.existing");
            if (mp.model[cls].k->value != v || true) cx.reinsert = true;
            CHECK(rc == 1, "C08.insert.existing", "%s insert of an existing key returned %d, expected 1", mp.tag, rc);
            CHECK(!failed, "C08.insert.existing", "%s insert of an existing key allocated", mp.tag);
            if (op == INSERT)
                CHECK(!cstl_map_iterator_eq(&it, end) && it.key == mp.model[cls].k && it.val == mp.model[cls].v, "C08.insert.existing",
                      "%s insert of an existing key does not yield the stored key/value pointers", mp.tag);
            mp.freecell(k, sizeof *k);
            mp.freecell(val, sizeof *val);
        } else if (rc != 0 && (failed || rc == -1)) {
            // (an insert that returns 0 although one of its requests was refused found another way: judged as a success)
            CNT("class.insert.alloc_failed");
            CHECK(failed, "C08.insert.new", "%s insert of a new key returned -1 although no allocation was refused", mp.tag);
            CHECK(rc == -1, "C16.map.insert_fail", "%s insert whose node allocation failed returned %d, expected -1", mp.tag, rc);
            if (op == INSERT)
                CHECK(cstl_map_iterator_eq(&it, end), "C16.map.insert_fail", "%s failed insert yields a non-end iterator", mp.tag);
            mp.freecell(k, sizeof *k);
            mp.freecell(val, sizeof *val);
        } else {
            CNT("class.insert.new");
            CHECK(rc == 0, "C08.insert.new", "%s insert of a new key returned %d, expected 0", mp.tag, rc);
            if (op == INSERT)
                CHECK(!cstl_map_iterator_eq(&it, end) && it.key == k && it.val == val, "C08.insert.new",
                      "%s insert of a new key does not yield the given key/value pointers", mp.tag);
            mp.model[cls] = Entry{k, val};
            if (cx.last_ins >= 0 && cls < cx.last_ins) cx.nonasc = true;
            cx.last_ins = cls;
        }
        break;
    }
    case FIND: {
        KeyCell probe{v, -1};
        cstl_map_iterator_t it;
        LIB(cstl_map_find(&mp.m, (g_null_key && v == 0 && (b & 1)) ? nullptr : &probe, &it));
        bool isend = cstl_map_iterator_eq(&it, end);
        auto f = mp.model.find(cls);
        TRACE("%s find %d -> %s", mp.tag, v, isend ? "end" : "entry");
        if (obs) obs->push_back(isend ? -1 : kval(it.key));
        CHECK(isend == (f == mp.model.end()), "C08.find.iff", "%s find(%d) %s but the reference %s", mp.tag, v,
              isend ? "yields end" : "yields an entry", f == mp.model.end() ? "has no such key" : "has the key");
        if (!isend) CHECK(it.key == f->second.k && it.val == f->second.v, "C08.find.stored",
                          "%s find(%d) does not yield the stored key/value pointers", mp.tag, v);
        break;
    }
    case ERASE:
    case ERASE_NOIT: {
        KeyCell probe{v, -1};
        cstl_map_iterator_t it;
        memset(&it, 0x77, sizeof it);
        int rc;
        LIB(rc = cstl_map_erase(&mp.m, (g_null_key && v == 0 && (b & 1)) ? nullptr : &probe, op == ERASE ? &it : nullptr));
        auto f = mp.model.find(cls);
        TRACE("%s %s %d -> %d", mp.tag, OPN[op], v, rc);
        if (obs) obs->push_back(rc);
        if (f == mp.model.end()) {
            CNT("class.erase.absent");
            CHECK(rc == -1, "C08.erase.absent", "%s erase of an absent key returned %d, expected -1", mp.tag, rc);
            if (op == ERASE) CHECK(cstl_map_iterator_eq(&it, end), "C08.erase.absent", "%s erase of an absent key yields a non-end iterator", mp.tag);
        } else {
            CNT("class.erase.present");
            CHECK(rc == 0, "C08.erase.present", "%s erase of a present key returned %d, expected 0", mp.tag, rc);
            if (op == ERASE)
                CHECK(it.key == f->second.k && it.val == f->second.v, "C08.erase.stored",
                      "%s erase does not report the stored key/value pointers of the removed entry", mp.tag);
            Entry e = f->second;
            mp.model.erase(f);
            mp.freecell(e.k, sizeof(KeyCell));
            mp.freecell(e.v, sizeof(ValCell));
            cx.erase_then_find = true;
        }
        break;
    }
    case ERASE_IT: {
        if ((a + b) % 3 == 0 && (mp.model.count(cls) || mp.model.size() < maxlive)) {
            // through the iterator that insert yields: to the existing entry, or to the entry just created
            bool exists = mp.model.count(cls) != 0;
            KeyCell *k = mp.mkkey(v);
            ValCell *val = mp.mkval();
            cstl_map_iterator_t it;
            memset(&it, 0x77, sizeof it);
            int rc;
            LIB(rc = cstl_map_insert(&mp.m, k, val, &it));
            bool failed = alloc_failures() != f0;
            TRACE("%s insert key=%d -> %d%s, then erase through the iterator it yielded", mp.tag, v, rc, failed ? " [allocation failed]" : "");
            if (obs) obs->push_back(rc);
            CNT("class.erase_it.via_insert");
            if (rc == -1) {
                CHECK(failed && !exists, "C08.insert.new", "%s insert returned -1 although %s", mp.tag, exists ? "the key exists" : "no allocation failed");
                mp.freecell(k, sizeof *k);
                mp.freecell(val, sizeof *val);
                break;
            }
            CHECK(rc == (exists ? 1 : 0), exists ? "C08.insert.existing" : "C08.insert.new", "%s insert returned %d for %s key", mp.tag, rc, exists ? "an existing" : "a new");
            CHECK(!cstl_map_iterator_eq(&it, end), exists ? "C08.insert.existing" : "C08.insert.new", "%s insert yields the end iterator", mp.tag);
            if (exists) {
                CHECK(it.key == mp.model[cls].k && it.val == mp.model[cls].v, "C08.insert.existing", "%s insert of an existing key does not yield the stored pointers", mp.tag);
                mp.freecell(k, sizeof *k);
                mp.freecell(val, sizeof *val);
            } else {
                CHECK(it.key == k && it.val == val, "C08.insert.new", "%s insert of a new key does not yield the given pointers", mp.tag);
                mp.model[cls] = Entry{k, val};
            }
            LIB(cstl_map_erase_iterator(&mp.m, &it));
            Entry e = mp.model[cls];
            mp.model.erase(cls);
            mp.freecell(e.k, sizeof(KeyCell));
            mp.freecell(e.v, sizeof(ValCell));
            cx.erase_then_find = true;
            break;
        }
        KeyCell probe{v, -1};
        cstl_map_iterator_t it;
        LIB(cstl_map_find(&mp.m, &probe, &it));
        auto f = mp.model.find(cls);
        bool isend = cstl_map_iterator_eq(&it, end);
        CHECK(isend == (f == mp.model.end()), "C08.find.iff", "%s find(%d) disagrees with the reference", mp.tag, v);
        if (isend) { CNT("noop.erase_it"); TRACE("%s erase_iterator noop (absent)", mp.tag); break; }
        LIB(cstl_map_erase_iterator(&mp.m, &it));
        TRACE("%s erase_iterator %d", mp.tag, v);
        Entry e = f->second;
        mp.model.erase(f);
        mp.freecell(e.k, sizeof(KeyCell));
        mp.freecell(e.v, sizeof(ValCell));
        cx.erase_then_find = true;
        break;
    }
    case CLEAR_CB:
    case CLEAR_NULL: {
        std::map<int, Entry> expect = mp.model;
        size_t n = mp.model.size();
        ClearCtx cc{&mp, &expect, 0, false};
        g_clear_ctx = &cc;
        LIB(cstl_map_clear(&mp.m, op == CLEAR_CB ? clear_cb : nullptr, &g_clear_token));
        g_clear_ctx = nullptr;
        TRACE("%s %s (n=%zu) callbacks=%zu", mp.tag, OPN[op], n, cc.calls);
        if (op == CLEAR_CB) {
            CHECK(!cc.bad, cl_once(), "%s clear callback received an entry twice, unknown pointers, or a wrong priv", mp.tag);
            CHECK(cc.calls == n && expect.empty(), cl_once(), "%s clear made %zu callbacks for %zu entries", mp.tag, cc.calls, n);
        } else {
            for (auto &kv : mp.model) { mp.freecell(kv.second.k, sizeof(KeyCell)); mp.freecell(kv.second.v, sizeof(ValCell)); }
        }
        mp.model.clear();
        size_t sz;
        LIB(sz = cstl_map_size(&mp.m));
        CHECK(sz == 0, g_prop == "C15" ? "C15.map.empty" : "C08.size", "%s size %zu after clear", mp.tag, sz);
        CHECK(lib_live_count() == g_base_live || g_prop == "C15", "C08.clear.released", "%s clear left %zu library allocations", mp.tag, lib_live_count() - g_base_live);
        if (n >= 3) cx.clear3 = true;
        break;
    }
    case AUDIT:
        TRACE("%s audit n=%zu", mp.tag, mp.model.size());
        audit(mp, K, obs);
        break;
    }
    size_t sz;
    LIB(sz = cstl_map_size(&mp.m));
    if (obs) obs->push_back((long)sz);
    CHECK(sz == mp.model.size(), "C08.size", "%s size %zu, reference %zu", mp.tag, sz, mp.model.size());
}

Map M, MW;
} // namespace

void vf_run(const uint8_t *data, size_t len)
{
    M.destroy();
    MW.destroy();
    Cursor cur(data, len);
    int K = KEYS[cur.u8() % NKEYS];
    g_cmp_kind = cur.u8() % 5;
    { uint8_t mb = cur.u8(); g_mod = 2 + (mb & 0x3f) % 5; g_null_key = (mb & 0x80) != 0; g_null_val = (mb & 0x40) != 0; }
    uint8_t lb = cur.u8();
    size_t maxlive = MAXLIVE[lb % 8];
    int prof = cur.u8() % NPROFILES;
    bool c15 = g_prop == "C15", c16 = g_prop == "C16";
    g_reenter = false;
    g_base_live = 0;
    if ((lb & 0xC0) == 0xC0) {
        // (set up outside the case's fault plan and allocation numbering: the auxiliary map is scenery)
        uint64_t ord0 = g_alloc_ordinal, ff0 = g_fail_from;
        std::vector<uint64_t> fo0;
        fo0.swap(g_fail_ordinals);
        g_fail_from = UINT64_MAX;
        LIB(cstl_map_init(&g_aux, aux_cmp, &g_aux_token));
        for (int i = 0; i < 3; i++) { cstl_map_iterator_t it; int r; LIB(r = cstl_map_insert(&g_aux, &g_aux_keys[i], nullptr, &it)); (void)r; }
        g_alloc_ordinal = ord0; g_fail_from = ff0; fo0.swap(g_fail_ordinals);
        g_base_live = lib_live_count();
        g_reenter = true;
    }
    CaseCtx cx{};
    cx.last_ins = -1;
    M.init("map");
    bool twin = false;
    std::vector<uint8_t> tab;
    for (int o = 0; o < NOPS; o++) for (int k = 0; k < PROFILES[prof][o]; k++) tab.push_back((uint8_t)o);
    TRACE("header keys=%d cmp=%d mod=%d maxlive=%zu profile=%d", K, g_cmp_kind, g_mod, maxlive, prof);
    size_t total = cur.remaining() / 3, idx = 0, nops = 0, last_idx = total ? total - 1 : 0;
    for (size_t i = 0; i < total; i++) if (data[cur.i + 3 * i] == 0xFE) { last_idx = i ? i - 1 : 0; break; }
    bool marked = false;
    while (cur.remaining() >= 3) {
        uint8_t o = cur.u8(), a = cur.u8(), b = cur.u8();
        size_t my = idx++;
        if (o == 0xFE) { if (g_want_state) { g_state = peek_state(M); marked = true; } continue; }
        int op = tab[o % tab.size()];
        nops++;
        Obs oa, ob;
        uint64_t fh = g_faults_hit;
        if (c16) g_ours_after_fault = {"C08"};     // also for the op that receives the first failure
        bool do_audit = g_want_state ? my >= last_idx : total > 5000 ? (my % 4096) == 4095 : (total <= 24 || (my % 8) == 7);
        bool first_clear = c15 && op == CLEAR_CB && !twin;
        if (!twin && !first_clear) {
            apply(M, cx, op, a, b, K, maxlive, nullptr);
            if (cx.fault_seen) cx.ops_after_fault++;
            if (g_faults_hit != fh) cx.fault_seen = true;
            if (do_audit) audit(M, K, nullptr);
            continue;
        }
        bool okA = model_ok([&] { apply(M, cx, op, a, b, K, maxlive, &oa); if (do_audit || first_clear) audit(M, K, &oa); }), okB;
        if (first_clear) {
            twin = true;
            MW.init("map'");
            TRACE("twin created");
            oa.clear();
            okA = model_ok([&] { audit(M, K, &oa); }) && okA;
            okB = model_ok([&] { audit(MW, K, &ob); });
        } else {
            okB = model_ok([&] { apply(MW, cx, op, a, b, K, maxlive, &ob); if (do_audit) audit(MW, K, &ob); });
            cx.reuse = true;
        }
        CHECK(okA == okB, "C15.map.reuse", "after clear the map %s the map model where a freshly initialised one %s (op %s)",
              okA ? "satisfies" : "violates", okB ? "satisfies it" : "does not", OPN[op]);
        if (!okA) throw Abandon{"C08.(cleared map and fresh twin alike)"};
        CHECK(oa == ob, "C15.map.reuse", "after clear the map behaves differently from a freshly initialised one (op %s)", OPN[op]);
    }
    g_cur_op = "final audit";
    audit(M, K, nullptr);
    if (g_want_state && !marked) g_state = peek_state(M);
    apply(M, cx, CLEAR_CB, 0, 0, K, maxlive, nullptr);
    if (twin) apply(MW, cx, CLEAR_CB, 0, 0, K, maxlive, nullptr);
    CHECK(M.cells.empty(), cl_once(), "%zu key/value cells never reached the clear callback", M.cells.size());
    CHECK(lib_live_count() == g_base_live, pfx16("C08.clear.released", "C16.map.leak"), "clear left %zu library allocations", lib_live_count() - g_base_live);
    if (g_reenter) {
        g_reenter = false;
        LIB(cstl_map_clear(&g_aux, NULL, NULL));
        CHECK(lib_live_count() == 0, "C08.clear.released", "clear of the auxiliary map left %zu library allocations", lib_live_count());
        g_base_live = 0;
    }
    if (c15) g_nontrivial = cx.clear3 && cx.reuse;
    else if (c16) g_nontrivial = g_faults_hit >= 1 && cx.ops_after_fault >= 3;
    else g_nontrivial = cx.reinsert && cx.erase_then_find && cx.nonasc;
    CNTN("ops", nops);
}

void vf_gen(Rng &r, std::vector<uint8_t> &out)
{
    bool c15 = g_prop == "C15", c16 = g_prop == "C16";
    static const uint8_t kw[] = {0, 1, 2, 3, 3, 4, 4, 5, 5, 6, 7};
    out.push_back(kw[r.below(sizeof kw)]);
    out.push_back(r.byte());
    out.push_back(r.byte());
    out.push_back(r.chance(5, 6) ? 0 : r.byte());
    out.push_back(c16 ? 5 : c15 ? (r.chance(2, 3) ? 4 : r.byte()) : r.byte());
    size_t n = c16 ? 6 + r.below(10) : r.chance(3, 5) ? 1 + r.below(24) : r.chance(7, 8) ? 1 + r.below(200) : 1 + r.below(1000);
    if (c16 && r.chance(1, 6)) { n = 40 + r.below(50); out[0] = 6 + (uint8_t)r.below(2); out[3] = 0; }   // long fill: dozens of nodes (pooled / slab allocators)
    if (!c15 && !c16 && r.chance(1, 30000)) { n = 60000 + r.below(60000); out[0] = 8; out[3] = 0; out[4] = 1; }   // scale run: tens of thousands of entries
    for (size_t i = 0; i < n; i++) { out.push_back(r.byte() % 251); out.push_back(r.byte()); out.push_back(r.byte()); }
}

bool vf_scope(const std::string &name, Scope &s)
{
    // "<keys idx>:<cmp>:<maxlive idx>[:seqN]"   (cells: two inserts of the same key use different cells by construction)
    int ki = 3, cmp = 0, mi = 0;
    char mode[32] = "closure";
    sscanf(name.c_str(), "%d:%d:%d:%31s", &ki, &cmp, &mi, mode);
    bool c15 = g_prop == "C15";
    s.header = {(uint8_t)ki, (uint8_t)cmp, 0, (uint8_t)mi, 0};
    int K = KEYS[ki % NKEYS];
    std::vector<int> ops = {INSERT, FIND, ERASE, ERASE_IT};
    if (!c15 && strncmp(mode, "seq", 3) == 0) { ops.push_back(INSERT_NOIT); ops.push_back(ERASE_NOIT); }
    for (int op : ops) {
        if (c15 && op == FIND) continue;
        for (int k = 0; k < K; k++) s.alphabet.push_back({(uint8_t)op, (uint8_t)k, 0});
    }
    if (!c15 && strncmp(mode, "seq", 3) == 0) { s.alphabet.push_back({CLEAR_CB, 0, 0}); s.alphabet.push_back({CLEAR_NULL, 0, 0}); }
    if (!strncmp(mode, "seq", 3)) { s.prune = false; s.max_depth = atoi(mode + 3); }
    if (c15)
        s.trailer = {0xFE, 0, 0, CLEAR_CB, 0, 0, INSERT, 1, 0, INSERT, 0, 0, INSERT, 1, 0, INSERT, 2, 0, ERASE, 1, 0, FIND, 0, 0,
                     ERASE_IT, 2, 0, INSERT, 3, 0, AUDIT, 0, 0, CLEAR_CB, 0, 0, INSERT, 1, 0};
    return true;
}

int vf_custom(int, char **) { fprintf(stderr, "unknown engine\n"); return 2; }
