/*
 * C17 demo 2: "If a caller-supplied hash function ever returns a value of m or
 * more, the operation that invoked it aborts instead of touching memory outside
 * the bucket array" -- for every keyed entry point the library exports.
 *
 * The application's hash function has an off-by-one (k % (m + 1)) and returns m
 * for key 16 in a 16-bucket table. Each keyed entry point is called with that
 * key in a child process; the guarantee holds iff the child dies by SIGABRT.
 * cstl_hash_count() is referenced weakly so that this program also builds
 * against a library that does not have it (then there is nothing to check for it).
 */
#include <stdio.h>
#include <stdlib.h>
#include <signal.h>
#include <unistd.h>
#include <sys/wait.h>
#include "cstl/hash.h"

size_t cstl_hash_count(const struct cstl_hash *, size_t) __attribute__((weak));

struct item { int v; struct cstl_hash_node hn; };
static struct item items[8], extra;
static struct cstl_hash h;

static size_t app_hash(const size_t k, const size_t m)
{
    return k % (m + 1);         /* bug: can return m */
}

static void setup(void)
{
    size_t i;
    cstl_hash_init(&h, offsetof(struct item, hn));
    cstl_hash_resize(&h, 16, app_hash);
    for (i = 0; i < 8; i++) cstl_hash_insert(&h, i, &items[i]);     /* app_hash(0..7, 16) are in range */
}

static void do_find(void)   { cstl_hash_find(&h, 16, NULL, NULL); }
static void do_insert(void) { cstl_hash_insert(&h, 16, &extra); }
static void do_erase(void)  { extra.hn.key = 16; cstl_hash_erase(&h, &extra); }
static void do_count(void)
{
    volatile size_t c = cstl_hash_count(&h, 16);
    (void)c;
}

static int expect_abort(const char * what, void (*op)(void))
{
    int st;
    pid_t pid;

    fflush(stdout);
    pid = fork();
    if (pid == 0) {
        setup();
        op();
        _exit(0);
    }
    waitpid(pid, &st, 0);
    if (WIFSIGNALED(st) && WTERMSIG(st) == SIGABRT) return 0;
    if (WIFSIGNALED(st))
        printf("FAIL: %s: killed by signal %d instead of aborting\n", what, WTERMSIG(st));
    else
        printf("FAIL: %s: the hash function returned m (16 for a 16-bucket table) and the operation "
               "returned normally after reading bucket.at[16]\n", what);
    return 1;
}

int main(void)
{
    int bad = 0;
    bad |= expect_abort("cstl_hash_find(h, 16)", do_find);
    bad |= expect_abort("cstl_hash_insert(h, 16, e)", do_insert);
    bad |= expect_abort("cstl_hash_erase(h, e) with key 16", do_erase);
    if (cstl_hash_count != NULL)
        bad |= expect_abort("cstl_hash_count(h, 16)", do_count);
    if (bad) return 1;
    printf("PASS\n");
    return 0;
}
