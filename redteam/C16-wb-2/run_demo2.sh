#!/bin/sh
# run from the worktree root: sh _seed/run_demo2.sh
set -e
make b >/dev/null 2>&1 || { echo "make b failed"; exit 2; }
gcc -std=gnu99 -O1 -g -Iinclude _seed/demo2.c build/libcstl.a -lm -lpthread \
    -Wl,--wrap=malloc -Wl,--wrap=realloc -o _seed/demo2.bin || exit 2
set +e
timeout 60 ./_seed/demo2.bin
rc=$?
if [ $rc -ne 0 ] && [ $rc -ne 1 ]; then echo "FAIL: the demo crashed or hung (exit status $rc)"; rc=1; fi
exit $rc
