#!/bin/sh
# tools/check_regress.sh [ORIG]  -- every regression seed must FAIL on the pre-fix tree ORIG (a checkout of
# the pinned commit 4e29e4a, default /tmp/repo_orig) and PASS on /repo. Maintenance aid, not part of a check.
# (create ORIG with: git -C /repo worktree add --detach /tmp/repo_orig 4e29e4a ; remove it afterwards with git worktree remove --force)
ORIG=${1:-/tmp/repo_orig}
cd "$(dirname "$0")/.." || exit 2
bad=0
for f in seeds/*/regress/*.case; do
    id=$(echo "$f" | cut -d/ -f2)
    VERIF_REPO=$ORIG ./vcheck seedcheck "$id" "$f" >/dev/null 2>&1; ro=$?
    ./vcheck seedcheck "$id" "$f" >/dev/null 2>&1; rn=$?
    st=ok
    [ "$ro" -eq 0 ] && st="NOT-FAILING-ON-ORIG"
    [ "$rn" -ne 0 ] && st="FAILING-ON-REPO"
    [ "$st" = ok ] || bad=1
    echo "$st orig=$ro repo=$rn $f"
done
exit $bad
