/*
 * C18 demo 1: an ordinary C99 client (two translation units, project flags) that
 * uses a heap, a hash table and a vector of libcstl and has its own
 * reallocarray() in its portability layer.
 */
#include <stdio.h>
#include <stdlib.h>
#include "compat.h"
#include "cstl/heap.h"
#include "cstl/hash.h"
#include "cstl/vector.h"

struct job {
    int prio;
    struct cstl_heap_node hn;
};

static int job_cmp(const void * const a, const void * const b, void * const p)
{
    (void)p;
    return ((const struct job *)a)->prio - ((const struct job *)b)->prio;
}

int main(void)
{
    static struct job jobs[5];
    struct cstl_heap h;
    struct cstl_hash t;
    DECLARE_CSTL_VECTOR(v, int);
    unsigned long own_calls = 0;
    int i, * mine;

    cstl_heap_init(&h, job_cmp, NULL, offsetof(struct job, hn));
    for (i = 0; i < 5; i++) {
        jobs[i].prio = (i * 7) % 5;
        cstl_heap_push(&h, &jobs[i]);
    }
    cstl_hash_init(&t, 0);
    cstl_hash_resize(&t, 16, NULL);
    cstl_vector_resize(&v, 10);

    /* the program's own use of its wrapper */
    mine = reallocarray(NULL, 4, sizeof(*mine));
    own_calls++;
    free(mine);

    i = ((struct job *)cstl_heap_pop(&h))->prio;
    cstl_vector_clear(&v);
    cstl_hash_clear(&t, NULL);
    if (compat_reallocarray_calls != own_calls) {
        printf("the program called its reallocarray() %lu time(s), but it ran %lu times: "
               "the library's internal allocations were routed into the client's function\n",
               own_calls, compat_reallocarray_calls);
        return 1;
    }
    return i == 4 ? 0 : 2;
}
