/*
 * C02 demo 1: two red-black trees of the same element type; an ascending
 * stream of keys is split over them (two keys to one tree, the next two to
 * the other, and so on), later some keys are erased again.
 *
 * After every insert BOTH trees are checked against the rules the header
 * documents, walking the public node fields: root black with no parent, no red
 * node with a red child, the same number of black nodes on every path down to
 * a missing child, every child's parent link pointing back at its parent, as
 * many linked nodes as cstl_rbtree_size() reports, and the longest path that
 * cstl_rbtree_height() reports within 2*log2(n+1).
 *
 * prints PASS / exits 0 when the guarantee holds, FAIL / exits 1 otherwise.
 */
#include <stdio.h>
#include <stdlib.h>
#include <stddef.h>
#include <math.h>

#include "cstl/rbtree.h"

struct item
{
    int key;
    struct cstl_rbtree_node link;
};

static int item_cmp(const void * const a, const void * const b, void * const p)
{
    (void)p;
    return ((const struct item *)a)->key - ((const struct item *)b)->key;
}

/* which of the two trees receives key k */
#define WHICH(k) (((k) / 2) % 2)

static const char * why;
static size_t nodes;

static struct item * item_of(const struct cstl_bintree_node * const bn)
{
    return (struct item *)((char *)bn - offsetof(struct item, link.n));
}

/* returns the black height of the subtree, or -1 after noting a violation */
static int walk(const struct cstl_bintree_node * const bn,
                const struct cstl_bintree_node * const parent,
                const int parent_red, const size_t limit)
{
    int red, l, r;

    if (bn == NULL) {
        return 1;
    }
    if (++nodes > limit) {
        why = "the links reach more nodes than the tree says it holds";
        return -1;
    }
    if (bn->p != parent) {
        why = "a child's parent link does not point back at its parent";
        return -1;
    }
    red = item_of(bn)->link.c == CSTL_RBTREE_COLOR_R;
    if (red && parent_red) {
        why = "a red node has a red child";
        return -1;
    }
    l = walk(bn->l, bn, red, limit);
    if (l < 0) {
        return -1;
    }
    r = walk(bn->r, bn, red, limit);
    if (r < 0) {
        return -1;
    }
    if (l != r) {
        why = "paths from a node down to a missing child cross different numbers of black nodes";
        return -1;
    }
    return l + (red ? 0 : 1);
}

static int check(const struct cstl_rbtree * const t)
{
    const size_t n = cstl_rbtree_size(t);
    const struct cstl_bintree_node * const root = t->t.root;
    size_t min, max;

    why = NULL;
    nodes = 0;
    if (root == NULL) {
        if (n != 0) {
            why = "the tree has no root although it holds elements";
        }
        return why == NULL;
    }
    if (item_of(root)->link.c != CSTL_RBTREE_COLOR_B) {
        why = root->p != NULL
            ? "the root is red (and is linked below another node)"
            : "the root is red";
        return 0;
    }
    if (root->p != NULL) {
        why = "the root is linked below another node";
        return 0;
    }
    if (walk(root, NULL, 0, n) < 0) {
        return 0;
    }
    if (nodes != n) {
        why = "the links reach fewer nodes than the tree says it holds";
        return 0;
    }
    cstl_rbtree_height(t, &min, &max);
    if ((double)max > 2.0 * log2((double)n + 1.0)) {
        why = "cstl_rbtree_height reports a path longer than 2*log2(n+1)";
        return 0;
    }
    return 1;
}

int main(void)
{
    enum { N = 200 };
    static struct item items[N];
    struct cstl_rbtree tree[2];
    int i, k;

    cstl_rbtree_init(&tree[0], item_cmp, NULL, offsetof(struct item, link));
    cstl_rbtree_init(&tree[1], item_cmp, NULL, offsetof(struct item, link));

    for (i = 0; i < N; i++) {
        items[i].key = i;
        cstl_rbtree_insert(&tree[WHICH(i)], &items[i], NULL);

        {
            int bad = 0;
            for (k = 0; k < 2; k++) {
                if (!check(&tree[k])) {
                    printf("%s after inserting key %d into tree %d, tree %d "
                           "(size %zu) breaks the red-black rules: %s\n",
                           bad ? "     " : "FAIL:", i, WHICH(i), k,
                           cstl_rbtree_size(&tree[k]), why);
                    bad = 1;
                }
            }
            if (bad) {
                const struct cstl_bintree_node * top = &items[i].link.n;
                while (top->p != NULL) {
                    top = top->p;
                }
                printf("      (the new element is linked below the root of "
                       "tree %d)\n", top == tree[0].t.root ? 0 : 1);
                return 1;
            }
        }
    }

    /* and the same with erases in between */
    for (i = 0; i < N; i += 3) {
        struct item probe;
        probe.key = i;
        if (cstl_rbtree_erase(&tree[WHICH(i)], &probe) != &items[i]) {
            printf("FAIL: erase of key %d did not return its element\n", i);
            return 1;
        }
        for (k = 0; k < 2; k++) {
            if (!check(&tree[k])) {
                printf("FAIL: after erasing key %d from tree %d, tree %d "
                       "(size %zu) breaks the red-black rules: %s\n",
                       i, WHICH(i), k, cstl_rbtree_size(&tree[k]), why);
                return 1;
            }
        }
    }

    printf("PASS: both trees satisfied the red-black rules after each of "
           "%d inserts and %d erases\n", N, (N + 2) / 3);
    return 0;
}
