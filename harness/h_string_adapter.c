/* C adapter for the string harness: see h_string_adapter.h */
#include "cstl/string.h"

#include <stdlib.h>
#include <string.h>
#include <sys/types.h>

#include "h_string_adapter.h"

#define GEN(P, S, C)                                                                          \
    void *P##_new(void)                                                                       \
    {                                                                                         \
        struct S *s = malloc(sizeof *s);                                                      \
        if (s == NULL) abort();                                                               \
        S##_init(s);                                                                          \
        return s;                                                                             \
    }                                                                                         \
    void P##_kill(void *s)                                                                    \
    {                                                                                         \
        memset(s, 0xDD, sizeof(struct S));                                                    \
        free(s);                                                                              \
    }                                                                                         \
    void P##_init(void *s) { S##_init(s); }                                                   \
    size_t P##_size(const void *s) { return S##_size(s); }                                    \
    size_t P##_capacity(const void *s) { return S##_capacity(s); }                            \
    void P##_reserve(void *s, size_t n) { S##_reserve(s, n); }                                \
    void P##_resize(void *s, size_t n) { S##_resize(s, n); }                                  \
    C *P##_at(void *s, size_t i) { return S##_at(s, i); }                                     \
    const C *P##_at_const(const void *s, size_t i) { return S##_at_const(s, i); }             \
    C *P##_data(void *s) { return S##_data(s); }                                              \
    const C *P##_str(const void *s) { return S##_str(s); }                                    \
    int P##_compare_str(const void *s, const C *str) { return S##_compare_str(s, str); }      \
    int P##_compare(const void *a, const void *b) { return S##_compare(a, b); }               \
    void P##_clear(void *s) { S##_clear(s); }                                                 \
    void P##_insert_ch(void *s, size_t pos, size_t cnt, C ch) { S##_insert_ch(s, pos, cnt, ch); } \
    void P##_insert_str_n(void *s, size_t pos, const C *str, size_t n)                        \
    {                                                                                         \
        S##_insert_str_n(s, pos, str, n);                                                     \
    }                                                                                         \
    void P##_insert_str(void *s, size_t pos, const C *str) { S##_insert_str(s, pos, str); }   \
    void P##_insert(void *s, size_t pos, const void *ins) { S##_insert(s, pos, ins); }        \
    void P##_append(void *s, const void *s2) { S##_append(s, s2); }                           \
    void P##_append_ch(void *s, size_t cnt, C ch) { S##_append_ch(s, cnt, ch); }              \
    void P##_append_str_n(void *s, const C *str, size_t n) { S##_append_str_n(s, str, n); }   \
    void P##_append_str(void *s, const C *str) { S##_append_str(s, str); }                    \
    void P##_set_str(void *s, const C *str) { S##_set_str(s, str); }                          \
    void P##_erase(void *s, size_t pos, size_t n) { S##_erase(s, pos, n); }                   \
    void P##_substr(const void *s, size_t pos, size_t n, void *dst)                           \
    {                                                                                         \
        S##_substr(s, pos, n, dst);                                                           \
    }                                                                                         \
    long P##_find_ch(const void *s, C ch, size_t pos) { return (long)S##_find_ch(s, ch, pos); } \
    long P##_find_str(const void *s, const C *ndl, size_t pos)                                \
    {                                                                                         \
        return (long)S##_find_str(s, ndl, pos);                                               \
    }                                                                                         \
    long P##_find(const void *s, const void *ndl, size_t pos)                                 \
    {                                                                                         \
        return (long)S##_find(s, ndl, pos);                                                   \
    }                                                                                         \
    void P##_swap(void *a, void *b) { S##_swap(a, b); }                                       \
    const C *P##_nul(void) { return &S##_nul; }                                               \
    void *P##_peek_base(const void *s) { return ((const struct S *)s)->v.elem.base; }         \
    size_t P##_peek_count(const void *s) { return ((const struct S *)s)->v.count; }           \
    size_t P##_peek_cap(const void *s) { return ((const struct S *)s)->v.cap; }

GEN(hs, cstl_string, char)
GEN(hw, cstl_wstring, wchar_t)
