/*
 * C16 / wave 5, change 2: a big vector grows while memory is tight.
 *
 * The process may not obtain blocks larger than 5000 bytes (the allocator is
 * wrapped with -Wl,--wrap: a stand-in for ulimit -v / a cgroup limit / a
 * fragmented heap). A vector of 4-byte elements reserves room for 1000
 * elements: 1001 * 4 = 4004 bytes, which the allocator grants.
 *
 * Guarantee (C16, with C09): whatever allocation requests are refused, the
 * operation completes normally or quietly does nothing, the vector remains
 * fully usable and nothing is accessed out of bounds -- so what capacity()
 * reports afterwards must be backed by storage.
 */
#include <stdio.h>
#include <stdlib.h>
#include <string.h>
#include <stdint.h>

#include "cstl/vector.h"

#define LIMIT 5000

void * __real_realloc(void *, size_t);
void * __real_malloc(size_t);
static void * last_block;
static size_t last_size;
static int refused, granted;

static void * note(void * p, size_t n)
{
    if (p != NULL) {
        last_block = p;
        last_size = n;
        granted++;
    }
    return p;
}
void * __wrap_realloc(void * old, size_t n)
{
    if (n > LIMIT) {
        refused++;
        return NULL;
    }
    return note(__real_realloc(old, n), n);
}
void * __wrap_malloc(size_t n)
{
    if (n > LIMIT) {
        refused++;
        return NULL;
    }
    return note(__real_malloc(n), n);
}

int main(void)
{
    struct cstl_vector v;
    size_t cap, size, i;
    int bad = 0;

    cstl_vector_init(&v, sizeof(uint32_t));

    cstl_vector_resize(&v, 10);
    for (i = 0; i < 10; i++) {
        *(uint32_t *)cstl_vector_at(&v, i) = 0xC0DE0000u + (uint32_t)i;
    }

    cstl_vector_reserve(&v, 1000);
    cap = cstl_vector_capacity(&v);
    size = cstl_vector_size(&v);
    printf("reserve(1000): %d request(s) refused, %d granted; size %zu, capacity %zu, "
           "storage block %zu bytes\n", refused, granted, size, cap, last_size);

    if (size != 10) {
        printf("  size changed to %zu\n", size);
        bad = 1;
    }
    for (i = 0; i < 10 && i < size; i++) {
        if (*(uint32_t *)cstl_vector_at(&v, i) != 0xC0DE0000u + (uint32_t)i) {
            printf("  element %zu changed\n", i);
            bad = 1;
        }
    }
    if (cap != 10 && cap < 1000) {
        printf("  capacity %zu is neither the old one (10) nor at least the requested 1000\n", cap);
        bad = 1;
    }
    if (cstl_vector_data(&v) != last_block && cap != 10) {
        printf("  data() is not the block the allocator granted last\n");
        bad = 1;
    }
    /* the library keeps one scratch element behind the capacity */
    if (cap != 10 && (cap + 1) * sizeof(uint32_t) > last_size) {
        printf("  capacity() reports room for %zu elements, the storage block holds %zu: "
               "resize(%zu) would not allocate and write %zu bytes past the end of the block\n",
               cap, last_size / sizeof(uint32_t), cap, (cap + 1) * sizeof(uint32_t) - last_size);
        bad = 1;
    }

    if (!bad) {
        /* fully usable: fill it up to the reported capacity */
        cstl_vector_resize(&v, cap);
        for (i = 10; i < cap; i++) {
            *(uint32_t *)cstl_vector_at(&v, i) = (uint32_t)i;
        }
        if (cstl_vector_size(&v) != cap || *(uint32_t *)cstl_vector_at(&v, cap - 1) != (uint32_t)(cap - 1)) {
            printf("  the vector cannot be filled to its capacity\n");
            bad = 1;
        }
    }
    if (!bad) {
        cstl_vector_clear(&v);
    }

    if (bad) {
        printf("FAIL: after a refused allocation request the vector reports capacity it has no storage for\n");
        return 1;
    }
    printf("PASS\n");
    return 0;
}
