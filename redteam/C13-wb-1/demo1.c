/* C13 demo 1: size / pop_front after concat and after sort, against the library as `make b` ships it */
#include <stdio.h>
#include <stdlib.h>
#include "cstl/slist.h"

struct item { int v; struct cstl_slist_node n; };

static int cmp(const void * a, const void * b, void * p)
{
    (void)p;
    return ((const struct item *)a)->v - ((const struct item *)b)->v;
}
static int count_cb(void * e, void * p) { (void)e; ++*(size_t *)p; return 0; }

static int fails;
#define EXPECT(c, ...) do { if (!(c)) { fails++; printf("  violated: "); printf(__VA_ARGS__); printf("\n"); } } while (0)

int main(void)
{
    DECLARE_CSTL_SLIST(a, struct item, n);
    DECLARE_CSTL_SLIST(b, struct item, n);
    struct item it[8];
    size_t seen, i, popped;
    int prev;

    for (i = 0; i < 8; i++) it[i].v = (int)((i * 5) % 8);   /* 0 5 2 7 4 1 6 3 */

    /* reference: a = [it0 it1 it2], b = [it3 it4] ; concat -> a = 5 elements, b empty */
    for (i = 0; i < 3; i++) cstl_slist_push_back(&a, &it[i]);
    for (i = 3; i < 5; i++) cstl_slist_push_back(&b, &it[i]);
    cstl_slist_concat(&a, &b);
    seen = 0; cstl_slist_foreach(&a, count_cb, &seen);
    EXPECT(seen == 5, "traversal after concat yields %zu elements, reference has 5", seen);
    EXPECT(cstl_slist_size(&a) == 5, "size after concat is %zu, reference has 5 (traversal yields %zu)", cstl_slist_size(&a), seen);
    EXPECT(cstl_slist_size(&b) == 0, "source list size %zu after concat", cstl_slist_size(&b));
    EXPECT(cstl_slist_back(&a) == &it[4], "back after concat is not the true last element");

    /* sort (uses the same code path internally) */
    for (i = 5; i < 8; i++) cstl_slist_push_back(&a, &it[i]);
    cstl_slist_sort(&a, cmp, NULL);
    seen = 0; cstl_slist_foreach(&a, count_cb, &seen);
    EXPECT(seen == 8, "traversal after sort yields %zu elements, reference has 8", seen);
    EXPECT(cstl_slist_size(&a) == 8, "size after sort is %zu, reference has 8", cstl_slist_size(&a));

    /* drain with pop_front: must hand back all 8 elements in ascending order, then NULL */
    popped = 0; prev = -1;
    for (i = 0; i < 20; i++) {
        struct item * e = cstl_slist_pop_front(&a);
        if (e == NULL) break;
        EXPECT(e->v >= prev, "pop_front order broken");
        prev = e->v;
        popped++;
    }
    EXPECT(popped == 8, "pop_front handed back %zu of 8 elements before reporting the list empty", popped);
    seen = 0; cstl_slist_foreach(&a, count_cb, &seen);
    EXPECT(seen == 0, "list reports empty (pop_front NULL) but traversal still yields %zu elements", seen);

    if (fails) { printf("FAIL: %d clause(s) of C13 violated (size/pop_front disagree with the reference sequence)\n", fails); return 1; }
    printf("PASS\n");
    return 0;
}
