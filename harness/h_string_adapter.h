/* C adapter for the string harness (h_string.cpp).
 *
 * cstl/string.h does not compile as C++ (implicit void* -> char* in an inline
 * function), so every narrow (hs_*) and wide (hw_*) string function, including
 * the static-inline ones, is exposed here through an ordinary C function that
 * takes the object as an opaque `void *`.
 *
 * The adapter is harness code: the object structs are allocated with the
 * harness's allocator (call *_new / *_kill outside LIB(...)); everything else
 * is called inside LIB(...) / vf::may_abort so that the vector's realloc/free
 * are attributed to the library.
 */
#ifndef H_STRING_ADAPTER_H
#define H_STRING_ADAPTER_H
#include <stddef.h>
#include <wchar.h>

#ifdef __cplusplus
extern "C" {
#endif

#define H_STRING_ADAPTER_DECLS(P, C)                                              \
    void *P##_new(void);              /* malloc(struct) + init */                 \
    void P##_kill(void *s);           /* poison + free the struct only */         \
    void P##_init(void *s);                                                       \
    size_t P##_size(const void *s);                                               \
    size_t P##_capacity(const void *s);                                           \
    void P##_reserve(void *s, size_t n);                                          \
    void P##_resize(void *s, size_t n);                                           \
    C *P##_at(void *s, size_t i);                                                 \
    const C *P##_at_const(const void *s, size_t i);                               \
    C *P##_data(void *s);                                                         \
    const C *P##_str(const void *s);                                              \
    int P##_compare_str(const void *s, const C *str);                             \
    int P##_compare(const void *a, const void *b);                                \
    void P##_clear(void *s);                                                      \
    void P##_insert_ch(void *s, size_t pos, size_t cnt, C ch);                    \
    void P##_insert_str_n(void *s, size_t pos, const C *str, size_t n);           \
    void P##_insert_str(void *s, size_t pos, const C *str);                       \
    void P##_insert(void *s, size_t pos, const void *ins);                        \
    void P##_append(void *s, const void *s2);                                     \
    void P##_append_ch(void *s, size_t cnt, C ch);                                \
    void P##_append_str_n(void *s, const C *str, size_t n);                       \
    void P##_append_str(void *s, const C *str);                                   \
    void P##_set_str(void *s, const C *str);                                      \
    void P##_erase(void *s, size_t pos, size_t n);                                \
    void P##_substr(const void *s, size_t pos, size_t n, void *dst);              \
    long P##_find_ch(const void *s, C ch, size_t pos);                            \
    long P##_find_str(const void *s, const C *ndl, size_t pos);                   \
    long P##_find(const void *s, const void *ndl, size_t pos);                    \
    void P##_swap(void *a, void *b);                                              \
    const C *P##_nul(void);           /* address of cstl_(w)string_nul */         \
    /* peeks into the public struct: state identification (G1) and releasing */   \
    /* the storage of an abandoned object only, never used in an oracle clause */ \
    void *P##_peek_base(const void *s);                                           \
    size_t P##_peek_count(const void *s);                                         \
    size_t P##_peek_cap(const void *s);

H_STRING_ADAPTER_DECLS(hs, char)
H_STRING_ADAPTER_DECLS(hw, wchar_t)

#ifdef __cplusplus
}
#endif
#endif
