#!/bin/sh
# run from the worktree root: sh _seed/run_demo1.sh
make b >/dev/null 2>&1 || { echo "FAIL: make b failed"; exit 1; }
gcc -std=gnu99 -O1 -Iinclude _seed/demo1.c build/libcstl.a -lm -lpthread -o _seed/demo1.bin || { echo "FAIL: demo does not compile"; exit 1; }
timeout 20 ./_seed/demo1.bin
rc=$?
if [ $rc -ne 0 ] && [ $rc -ne 1 ]; then echo "FAIL: demo ended abnormally (status $rc: hang or crash inside the nested traversal)"; exit 1; fi
exit $rc
