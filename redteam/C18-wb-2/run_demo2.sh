#!/bin/sh
# run from the worktree root: sh _seed/run_demo2.sh
make b >/dev/null 2>&1 || { echo "FAIL: make b failed"; exit 1; }
# the project's own flags, feature-test macro included
CFLAGS="-Wall -Wextra -Werror=vla -Werror=declaration-after-statement -std=c99 -pedantic -D_POSIX_C_SOURCE=199309L"
rc=0
for lib in static shared; do
    if ! gcc $CFLAGS -O0 -Iinclude -I_seed/demo2 -c _seed/demo2/main.c -o _seed/demo2/main.o 2>_seed/demo2/err.txt; then
        echo "  client ($lib): main.c does not compile:"
        grep -m2 'error' _seed/demo2/err.txt | sed 's/^/    /'
        rc=1
        continue
    fi
    if [ $lib = static ]; then
        gcc -o _seed/demo2/prog _seed/demo2/main.o build/libcstl.a -lm 2>_seed/demo2/err.txt
    else
        gcc -o _seed/demo2/prog _seed/demo2/main.o -Lbuild -Wl,-rpath,"$PWD/build" -lcstl -lm 2>_seed/demo2/err.txt
    fi
    if [ $? -ne 0 ]; then
        echo "  client ($lib) does not link:"; head -3 _seed/demo2/err.txt | sed 's/^/    /'
        rc=1
        continue
    fi
    if ! LD_LIBRARY_PATH="$PWD/build" ./_seed/demo2/prog; then
        echo "  client ($lib) fails at run time"
        rc=1
    fi
done
rm -f _seed/demo2/main.o _seed/demo2/prog _seed/demo2/err.txt
if [ $rc -ne 0 ]; then
    echo "FAIL: cstl/map.h cannot be included by two headers of the same client program"
    exit 1
fi
echo PASS
