/*
 * C16 demo 2: removing characters from a string is not one of the operations
 * that are allowed to fail when memory runs out (only growth aborts, reserve
 * quietly does nothing).  Whatever allocations fail, erase() has to complete
 * normally and leave the remaining characters in place.
 *
 * Linked with -Wl,--wrap=malloc,--wrap=realloc: while cstl_string_erase() /
 * cstl_wstring_erase() run, every allocation request of the library fails.
 * SIGABRT is trapped so that an abort() inside the call can be reported.
 *
 * prints PASS / exits 0 when the guarantee holds, FAIL / exits 1 otherwise.
 */
#include <stdio.h>
#include <stdlib.h>
#include <string.h>
#include <signal.h>
#include <setjmp.h>
#include <wchar.h>

#include "cstl/string.h"

void * __real_malloc(size_t);
void * __real_realloc(void *, size_t);

static volatile int armed;      /* inside the library call under test */
static volatile unsigned refused;

void * __wrap_malloc(size_t sz)
{
    if (armed) {
        refused++;
        return NULL;
    }
    return __real_malloc(sz);
}

void * __wrap_realloc(void * p, size_t sz)
{
    if (armed && sz != 0) {
        refused++;
        return NULL;
    }
    return __real_realloc(p, sz);
}

static sigjmp_buf env;

static void on_abort(int sig)
{
    (void)sig;
    siglongjmp(env, 1);
}

static int narrow(const size_t fill, const size_t pos, const size_t cnt)
{
    DECLARE_CSTL_STRING(string, s);
    char expect[512];
    size_t i;

    for (i = 0; i < fill; i++) {
        cstl_string_append_ch(&s, 1, (char)('a' + i % 26));
        expect[i] = (char)('a' + i % 26);
    }
    memmove(expect + pos, expect + pos + cnt, fill - pos - cnt);
    expect[fill - cnt] = '\0';

    refused = 0;
    if (sigsetjmp(env, 1) != 0) {
        armed = 0;
        printf("FAIL: cstl_string_erase(%zu, %zu) on a %zu-character string "
               "called abort() when its allocation request was refused "
               "(erase is not a growth operation and must not fail)\n",
               pos, cnt, fill);
        return 1;
    }
    armed = 1;
    cstl_string_erase(&s, pos, cnt);
    armed = 0;

    if (cstl_string_size(&s) != fill - cnt
        || strcmp(cstl_string_str(&s), expect) != 0) {
        printf("FAIL: after cstl_string_erase(%zu, %zu) with %u refused "
               "allocation(s) the string is \"%s\" (size %zu), expected "
               "\"%s\"\n", pos, cnt, refused, cstl_string_str(&s),
               cstl_string_size(&s), expect);
        return 1;
    }

    /* continued use */
    cstl_string_append_str(&s, "xyz");
    if (cstl_string_size(&s) != fill - cnt + 3
        || strncmp(cstl_string_str(&s), expect, fill - cnt) != 0
        || strcmp(cstl_string_str(&s) + fill - cnt, "xyz") != 0) {
        printf("FAIL: the string is not usable after the erase\n");
        return 1;
    }
    cstl_string_clear(&s);
    return 0;
}

static int wide(const size_t fill, const size_t pos, const size_t cnt)
{
    DECLARE_CSTL_STRING(wstring, s);
    wchar_t expect[512];
    size_t i;

    for (i = 0; i < fill; i++) {
        cstl_wstring_append_ch(&s, 1, (wchar_t)(L'a' + i % 26));
        expect[i] = (wchar_t)(L'a' + i % 26);
    }
    memmove(expect + pos, expect + pos + cnt,
            (fill - pos - cnt) * sizeof(wchar_t));
    expect[fill - cnt] = L'\0';

    refused = 0;
    if (sigsetjmp(env, 1) != 0) {
        armed = 0;
        printf("FAIL: cstl_wstring_erase(%zu, %zu) on a %zu-character string "
               "called abort() when its allocation request was refused\n",
               pos, cnt, fill);
        return 1;
    }
    armed = 1;
    cstl_wstring_erase(&s, pos, cnt);
    armed = 0;

    if (cstl_wstring_size(&s) != fill - cnt
        || wcscmp(cstl_wstring_str(&s), expect) != 0) {
        printf("FAIL: after cstl_wstring_erase(%zu, %zu) with %u refused "
               "allocation(s) the string does not hold the remaining "
               "characters (size %zu, expected %zu)\n", pos, cnt, refused,
               cstl_wstring_size(&s), fill - cnt);
        return 1;
    }
    cstl_wstring_clear(&s);
    return 0;
}

int main(void)
{
    static const size_t F[] = {8, 40, 100, 300};
    size_t f;
    int bad = 0;

    signal(SIGABRT, on_abort);

    for (f = 0; f < sizeof(F) / sizeof(*F) && !bad; f++) {
        const size_t n = F[f];
        /* a little, about half, most, everything; front, middle, tail */
        bad |= narrow(n, 1, 2);
        bad = bad || narrow(n, 0, n / 2);
        bad = bad || narrow(n, n / 4, n / 2 + 1);
        bad = bad || narrow(n, 2, n - 2);
        bad = bad || narrow(n, 0, n);
        bad = bad || wide(n, 1, n - 3);
        bad = bad || wide(n, 0, n);
    }

    if (bad) {
        return 1;
    }
    printf("PASS: erase() completed and left exactly the remaining characters "
           "although every allocation request made during it was refused\n");
    return 0;
}
