// Common machinery shared by every harness (one C++ TU per binary).
//
//  * byte-coded cases with a total decoder (Cursor)
//  * failure clauses (verif_fail) -> exit code 97, line "VERIF-FAIL clause=..."
//  * link-time allocation interposer (--wrap=malloc/calloc/realloc/free)
//  * SIGABRT trap around library calls that are allowed to abort
//  * own __assert_fail so library asserts become clauses
//  * engines: replay, g2 (seeded swarm), g1 (closure / all sequences),
//    libFuzzer entry (when built with -DVERIF_FUZZ)
//
// A harness defines:
//    const char *vf_harness_name();
//    void vf_run(const uint8_t *data, size_t len);       // total decoder + oracle
//    void vf_gen(vf::Rng &r, std::vector<uint8_t> &out); // G2 case generator
//    bool vf_scope(const std::string &name, vf::Scope &s); // G1 scopes (optional)
//    void vf_custom(int argc, char **argv)               // optional extra engines
#pragma once
#include <algorithm>
#include <csetjmp>
#include <csignal>
#include <cstdarg>
#include <cstdint>
#include <cstdio>
#include <cstdlib>
#include <cstring>
#include <deque>
#include <map>
#include <set>
#include <string>
#include <unordered_map>
#include <unordered_set>
#include <vector>
#include <fcntl.h>
#include <sys/mman.h>
#include <sys/stat.h>
#include <sys/time.h>
#include <sys/wait.h>
#include <sanitizer/asan_interface.h>
#include <cerrno>
#include <unistd.h>

namespace vf {

// ---------------------------------------------------------------- RNG
struct Rng {
    uint64_t s;
    explicit Rng(uint64_t seed) : s(seed) {}
    uint64_t next() {
        uint64_t z = (s += 0x9E3779B97F4A7C15ull);
        z = (z ^ (z >> 30)) * 0xBF58476D1CE4E5B9ull;
        z = (z ^ (z >> 27)) * 0x94D049BB133111EBull;
        return z ^ (z >> 31);
    }
    uint32_t below(uint32_t n) { return n ? (uint32_t)(next() % n) : 0; }
    bool chance(uint32_t num, uint32_t den) { return below(den) < num; }
    uint8_t byte() { return (uint8_t)next(); }
};
static inline uint64_t mix_seed(uint64_t a, uint64_t b, uint64_t c)
{
    Rng r(a * 0x9E3779B97F4A7C15ull + b);
    r.next();
    r.s ^= c * 0xD6E8FEB86659FD93ull;
    return r.next();
}

// ---------------------------------------------------------------- cursor
struct Cursor {
    const uint8_t *p;
    size_t n, i;
    Cursor(const uint8_t *d, size_t len) : p(d), n(len), i(0) {}
    size_t remaining() const { return i < n ? n - i : 0; }
    uint8_t u8() { return i < n ? p[i++] : (uint8_t)0; }
    uint16_t u16() { uint16_t a = u8(); return (uint16_t)(a | (u8() << 8)); }
    uint32_t u32() { uint32_t a = u16(); return a | ((uint32_t)u16() << 16); }
    uint64_t u64() { uint64_t a = u32(); return a | ((uint64_t)u32() << 32); }
};

static inline uint64_t fnv64(const uint8_t *d, size_t n)
{
    uint64_t h = 0xcbf29ce484222325ull;
    for (size_t i = 0; i < n; i++) { h ^= d[i]; h *= 0x100000001b3ull; }
    return h;
}

// ---------------------------------------------------------------- globals
static bool g_trace = false;            // record decoded ops
static std::vector<std::string> g_ops;  // decoded ops of the current case
static std::string g_prop;              // property id this run checks (--prop)
static bool g_want_state = false;       // G1: harness must fill g_state
static std::string g_state;             // canonical state at end of case
static bool g_out_of_scope = false;     // G1: case left the scope -> prune
static bool g_nontrivial = false;       // set by harness per case
static const char *g_cur_op = "";       // for diagnostics
static int g_replay_mode = 0;
static const char *g_deferred_abandon = nullptr;

static void tracef(const char *fmt, ...) __attribute__((format(printf, 1, 2)));
static void tracef(const char *fmt, ...)
{
    char buf[512];
    va_list ap;
    va_start(ap, fmt);
    vsnprintf(buf, sizeof buf, fmt, ap);
    va_end(ap);
    if (g_replay_mode == 1) { printf("op[%zu] %s\n", g_ops.size(), buf); fflush(stdout); }
    g_ops.emplace_back(buf);
}
#define TRACE(...) do { if (vf::g_trace) vf::tracef(__VA_ARGS__); } while (0)

// counters: cheap named counters
static std::vector<std::pair<std::string, uint64_t>> &counters()
{
    static std::vector<std::pair<std::string, uint64_t>> c;
    return c;
}
static int counter_id(const char *name)
{
    auto &c = counters();
    for (size_t i = 0; i < c.size(); i++) if (c[i].first == name) return (int)i;
    c.emplace_back(name, 0);
    return (int)c.size() - 1;
}
#define CNT(name) do { static int _ci = vf::counter_id(name); vf::counters()[_ci].second++; } while (0)
#define CNTN(name, n) do { static int _ci = vf::counter_id(name); vf::counters()[_ci].second += (n); } while (0)
static void cnt_dyn(const std::string &name, uint64_t n = 1)
{
    counters()[counter_id(name.c_str())].second += n;
}

// ---------------------------------------------------------------- failure
static void dump_ops_stderr()
{
    if (g_trace) {
        size_t from = g_ops.size() > 400 ? g_ops.size() - 400 : 0;
        for (size_t i = from; i < g_ops.size(); i++)
            fprintf(stderr, "  op[%zu] %s\n", i, g_ops[i].c_str());
    }
}
[[noreturn]] static void verif_fail(const char *clause, const char *fmt, ...)
    __attribute__((format(printf, 2, 3)));
[[noreturn]] static void verif_fail(const char *clause, const char *fmt, ...)
{
    char buf[1024];
    va_list ap;
    va_start(ap, fmt);
    vsnprintf(buf, sizeof buf, fmt, ap);
    va_end(ap);
    dump_ops_stderr();
    fprintf(stderr, "VERIF-FAIL clause=%s msg=%s (during %s)\n", clause, buf, g_cur_op);
    fflush(stderr);
    _exit(97);
}
// Clause ids look like "C13.seq". A clause that belongs to another property
// than the one this run checks (--prop) is not reported: the case is abandoned
// (counted), so a defect is attributed to the property it breaks.
struct Abandon { const char *clause; };
// C16 (allocation failure never corrupts a container): once a fault has been
// delivered in a case, the container's ordinary model clauses count as C16's
static std::vector<std::string> g_also_ours;
static std::vector<std::string> g_ours_after_fault;     // ... from the moment the first injected failure is delivered
static uint64_t g_faults_hit = 0;
static bool clause_is_ours(const char *clause)
{
    if (clause[0] != 'C' || g_prop.empty()) return true;
    for (auto &p : g_also_ours)
        if (strncmp(clause, p.c_str(), p.size()) == 0 && clause[p.size()] == '.') return true;
    // C16: "in every failing case the container still holds exactly what it held before and remains fully usable" -- once a
    // failure has been delivered, every container clause of the harness is C16's, whichever property normally owns it
    if (g_faults_hit && g_prop == "C16") return true;
    if (g_faults_hit)
        for (auto &p : g_ours_after_fault)
            if (strncmp(clause, p.c_str(), p.size()) == 0 && clause[p.size()] == '.') return true;
    return strncmp(clause, g_prop.c_str(), g_prop.size()) == 0 && clause[g_prop.size()] == '.';
}
#define CHECK(cond, clause, ...) do { if (!(cond)) { \
        if (vf::clause_is_ours(clause)) vf::verif_fail(clause, __VA_ARGS__); \
        throw vf::Abandon{clause}; } } while (0)
// run f; false when a clause of another property failed inside it (used by the C15 twin comparison:
// a model failure on only one of {cleared container, fresh twin} is itself a difference)
template <class F> static bool model_ok(F &&f)
{
    try { f(); return true; } catch (const Abandon &) { return false; }
}
// for use inside callbacks invoked by the library (must not throw)
#define CHECK_NOTHROW(cond, clause, ...) do { if (!(cond)) { \
        if (vf::clause_is_ours(clause)) vf::verif_fail(clause, __VA_ARGS__); \
        vf::g_deferred_abandon = clause; } } while (0)

// ---------------------------------------------------------------- abort trap
static sigjmp_buf g_abort_jmp;
static volatile int g_abort_armed = 0;
static void on_sigabrt(int)
{
    if (g_abort_armed) {
        g_abort_armed = 0;
        siglongjmp(g_abort_jmp, 1);
    }
    // an abort outside a region where the oracle allows one
    static const char m[] = "VERIF-FAIL clause=abort.unexpected msg=library aborted where no abort is allowed\n";
    ssize_t r = write(2, m, sizeof m - 1);
    (void)r;
    if (g_cur_op) { r = write(2, g_cur_op, strlen(g_cur_op)); r = write(2, "\n", 1); }
    _exit(97);
}
// ---------------------------------------------------------------- per-case watchdog
// A library call that never returns is a violation of whatever property the case belongs to (the operation does not
// complete), not an inconclusive run: every case gets a CPU-time budget far above what any generated case needs
// (the slowest legitimate ones, 2^30 callback calls or 10^5-element scale runs under ASan, take 10-20 s).
#ifdef VERIF_FUZZ
static const int CASE_CPU_SECONDS = 600;      // (coverage + value-profile instrumentation makes the same case several times slower)
#else
static const int CASE_CPU_SECONDS = 150;
#endif
static void on_vtalrm(int)
{
    static const char m[] = "VERIF-FAIL clause=liveness.case_timeout msg=the case did not finish within its CPU-time budget: a library call does not return\n";
    ssize_t r = write(2, m, sizeof m - 1);
    (void)r;
    if (g_cur_op) { r = write(2, "during ", 7); r = write(2, g_cur_op, strlen(g_cur_op)); r = write(2, "\n", 1); }
    _exit(97);
}
static void arm_watchdog()
{
    struct itimerval it;
    memset(&it, 0, sizeof it);
    it.it_value.tv_sec = CASE_CPU_SECONDS;
    setitimer(ITIMER_VIRTUAL, &it, nullptr);        // CPU time of this process: machine load does not matter
}
static void install_abort_handler()
{
    struct sigaction sv;
    memset(&sv, 0, sizeof sv);
    sv.sa_handler = on_vtalrm;
    sigemptyset(&sv.sa_mask);
    sigaction(SIGVTALRM, &sv, nullptr);
    struct sigaction sa;
    memset(&sa, 0, sizeof sa);
    sa.sa_handler = on_sigabrt;
    sa.sa_flags = SA_NODEFER;
    sigemptyset(&sa.sa_mask);
    sigaction(SIGABRT, &sa, nullptr);
}

// ---------------------------------------------------------------- allocation interposer
} // namespace vf
extern "C" {
void *__real_malloc(size_t);
void *__real_calloc(size_t, size_t);
void *__real_realloc(void *, size_t);
void __real_free(void *);
}
namespace vf {
struct AllocEv { char kind; void *p; size_t sz; };  // 'm' malloc, 'f' free, 'r' realloc(new), 'x' failed
static volatile int in_lib = 0;         // >0 while executing library code (volatile + barriers: gcc knows what free()
                                        // and malloc() do and would otherwise move the bookkeeping across such calls)
static std::unordered_map<void *, size_t> *g_live;   // blocks allocated by the library
static std::vector<AllocEv> *g_events;  // events since last clear (only when recording)
static bool g_record_events = false;
static size_t g_alloc_limit = (size_t)1 << 20;     // requests above are unsatisfiable
static uint64_t g_alloc_ordinal = 0;    // counts library allocation requests in this case
static std::vector<uint64_t> g_fail_ordinals;       // sorted ordinals to fail
static uint64_t g_fail_from = UINT64_MAX;           // fail every ordinal >= this
static uint64_t g_limit_hits = 0;
// number of library allocation requests that returned NULL so far in this case
// (injected fault or request above g_alloc_limit = "cannot be satisfied")
static inline uint64_t alloc_failures() { return g_faults_hit + g_limit_hits; }
static void (*g_alloc_hook)(char kind, void *p, size_t sz) = nullptr; // C06 yields
// Scale runs: requests in (g_alloc_limit, g_big_alloc_max] are satisfied by anonymous MAP_NORESERVE mappings that are
// never touched unless the library touches them (containers of 2^32 and more elements without the memory)
static size_t g_big_alloc_max = 0;
static std::unordered_set<void *> *g_bigs;
static void *big_map(size_t sz)
{
    void *p = mmap(nullptr, sz, PROT_READ | PROT_WRITE, MAP_PRIVATE | MAP_ANONYMOUS | MAP_NORESERVE, -1, 0);
    return p == MAP_FAILED ? nullptr : p;
}

// Allocator personalities. The sanitizer's allocator never hands a freed address out again soon, never grows a block
// in place, and (with the options this harness sets) fills fresh memory with 0xBE. A defect that depends on the
// opposite -- realloc() returning the same pointer, a node landing on the address of the one just freed, fresh
// memory that happens to be zero -- can never show under it. So a share of the cases (chosen by the case's hash)
// runs the library on a thin layer over it that behaves like an ordinary malloc:
//   fill:   fresh bytes (malloc, and the tail a growing realloc adds) hold 0x00 or 0xFF instead of 0xBE
//   recycle: every block gets slack behind it (poisoned: touching it is still reported), a realloc that fits is done in
//            place, and freed blocks are kept (poisoned) on a LIFO per size and handed out again at once
static int g_force_alloc_mode = -1;         // regression replays: 0 plain, 1..4 = the four personalities
static bool g_no_alloc_modes = false;      // harnesses whose oracle depends on the sanitizer's allocator (fibres) opt out
static int g_alloc_fill = -1;              // -1: leave what the sanitizer put there
static bool g_alloc_recycle = false;
static std::unordered_map<void *, size_t> *g_caps;     // recycle mode: usable bytes of each block it handed out
static std::map<size_t, std::vector<void *>> *g_free_cache;
static const size_t RECYCLE_MAX = 4096;    // larger requests go straight to the sanitizer's allocator
static size_t cap_for(size_t sz) { size_t c = 16; while (c < sz) c <<= 1; return c; }
static void *arena_malloc(size_t sz)
{
    if (!g_alloc_recycle || sz > RECYCLE_MAX) {
        void *p = __real_malloc(sz);
        if (p && g_alloc_fill >= 0) memset(p, g_alloc_fill, sz);
        return p;
    }
    size_t cap = cap_for(sz);
    void *p = nullptr;
    auto &fl = (*g_free_cache)[cap];
    if (!fl.empty()) { p = fl.back(); fl.pop_back(); }
    else p = __real_malloc(cap);
    if (!p) return nullptr;
    ASAN_UNPOISON_MEMORY_REGION(p, cap);
    if (g_alloc_fill >= 0) memset(p, g_alloc_fill, sz);
    if (cap > sz) ASAN_POISON_MEMORY_REGION((char *)p + sz, cap - sz);
    (*g_caps)[p] = cap;
    return p;
}
static void arena_free(void *p)
{
    auto it = g_caps->find(p);
    if (it == g_caps->end()) { __real_free(p); return; }
    size_t cap = it->second;
    g_caps->erase(it);
    ASAN_UNPOISON_MEMORY_REGION(p, cap);
    memset(p, 0xDD, cap);
    ASAN_POISON_MEMORY_REGION(p, cap);      // a later touch through a stale pointer is reported (use-after-poison)
    (*g_free_cache)[cap].push_back(p);
}
static void *arena_realloc(void *old, size_t oldsz, size_t sz)
{
    auto it = old ? g_caps->find(old) : g_caps->end();
    if (old && it != g_caps->end() && sz <= it->second) {
        // fits: in place, like an ordinary allocator
        size_t cap = it->second;
        ASAN_UNPOISON_MEMORY_REGION(old, cap);
        if (sz > oldsz && g_alloc_fill >= 0) memset((char *)old + oldsz, g_alloc_fill, sz - oldsz);
        if (cap > sz) ASAN_POISON_MEMORY_REGION((char *)old + sz, cap - sz);
        return old;
    }
    if (old && it == g_caps->end() && !(g_alloc_recycle && sz <= RECYCLE_MAX)) {
        void *p = __real_realloc(old, sz);
        if (p && sz > oldsz && g_alloc_fill >= 0) memset((char *)p + oldsz, g_alloc_fill, sz - oldsz);
        return p;
    }
    void *p = arena_malloc(sz);
    if (!p) return nullptr;
    if (old) { memcpy(p, old, sz < oldsz ? sz : oldsz); arena_free(old); }
    return p;
}
static void arena_flush()
{
    if (!g_free_cache) return;
    for (auto &kv : *g_free_cache) for (void *p : kv.second) { ASAN_UNPOISON_MEMORY_REGION(p, kv.first); __real_free(p); }
    g_free_cache->clear();
}

static void alloc_init()
{
    if (!g_caps) { g_caps = new std::unordered_map<void *, size_t>(); g_free_cache = new std::map<size_t, std::vector<void *>>(); }
    if (!g_live) {
        g_live = new std::unordered_map<void *, size_t>();
        g_events = new std::vector<AllocEv>();
        g_bigs = new std::unordered_set<void *>();
    }
}
static bool should_fail(size_t sz)
{
    uint64_t ord = g_alloc_ordinal++;
    if (sz > g_alloc_limit && !(g_big_alloc_max && sz <= g_big_alloc_max)) { g_limit_hits++; return true; }
    if (ord >= g_fail_from) { g_faults_hit++; return true; }
    if (!g_fail_ordinals.empty() &&
        std::binary_search(g_fail_ordinals.begin(), g_fail_ordinals.end(), ord)) {
        g_faults_hit++;
        return true;
    }
    return false;
}
static bool lib_is_live(const void *p, size_t *sz = nullptr)
{
    auto it = g_live->find((void *)p);
    if (it == g_live->end()) return false;
    if (sz) *sz = it->second;
    return true;
}
// is [q, q+len) inside some live library block?
static bool lib_contains(const void *q, size_t len, void **blk = nullptr, size_t *bsz = nullptr)
{
    for (auto &kv : *g_live) {
        uintptr_t b = (uintptr_t)kv.first, e = b + kv.second;
        if ((uintptr_t)q >= b && (uintptr_t)q + len <= e && (uintptr_t)q + len >= (uintptr_t)q) {
            if (blk) *blk = kv.first;
            if (bsz) *bsz = kv.second;
            return true;
        }
    }
    return false;
}
static size_t lib_live_count() { return g_live->size(); }
static void events_clear() { g_events->clear(); }

struct HarnessScope {   // code in callbacks that is *not* library code
    int saved;
    HarnessScope() : saved(in_lib) { in_lib = 0; }
    ~HarnessScope() { in_lib = saved; }
};
} // namespace vf

extern "C" {

void *__wrap_malloc(size_t sz)
{
    using namespace vf;
    if (!in_lib) return __real_malloc(sz);
    int save = in_lib; in_lib = 0;
    void *p = nullptr;
    if (g_alloc_hook) g_alloc_hook('m', nullptr, sz);
    if (!should_fail(sz)) {
        if (sz > g_alloc_limit) { p = big_map(sz); if (p) g_bigs->insert(p); }
        else p = arena_malloc(sz);
        if (p) (*g_live)[p] = sz;
    }
    if (g_record_events) g_events->push_back({p ? 'm' : 'x', p, sz});
    in_lib = save;
    return p;
}
void *__wrap_calloc(size_t n, size_t m)
{
    using namespace vf;
    if (!in_lib) return __real_calloc(n, m);
    int save = in_lib; in_lib = 0;
    void *p = nullptr;
    unsigned __int128 tot = (unsigned __int128)n * m;
    size_t sz = tot > SIZE_MAX ? SIZE_MAX : (size_t)tot;
    if (!should_fail(sz)) {
        if (g_alloc_recycle && sz <= RECYCLE_MAX) { p = arena_malloc(sz); if (p) memset(p, 0, sz); }
        else p = __real_calloc(n, m);
        if (p) (*g_live)[p] = sz;
    }
    if (g_record_events) g_events->push_back({p ? 'm' : 'x', p, sz});
    in_lib = save;
    return p;
}
void *__wrap_realloc(void *old, size_t sz)
{
    using namespace vf;
    if (!in_lib) return __real_realloc(old, sz);
    int save = in_lib; in_lib = 0;
    void *p = nullptr;
    if (old && !lib_is_live(old))
        verif_fail("alloc.realloc_foreign", "library realloc()s %p which it did not allocate or already freed", old);
    if (sz == 0) {
        // realloc(p, 0): implementation-defined; model it as free + NULL (what
        // ASan's allocator does) so the accounting stays exact.
        if (old) {
            size_t osz = (*g_live)[old];
            g_live->erase(old);
            if (g_record_events) g_events->push_back({'f', old, 0});
            if (g_bigs->count(old)) { munmap(old, osz); g_bigs->erase(old); } else arena_free(old);
            in_lib = save;
            return nullptr;
        }
        sz = 1;
    }
    if (!should_fail(sz)) {
        bool oldbig = old && g_bigs->count(old), newbig = sz > g_alloc_limit;
        size_t oldsz = old ? (*g_live)[old] : 0;
        if (!oldbig && !newbig) p = arena_realloc(old, oldsz, sz);
        else if (oldbig && newbig) {
            p = mremap(old, oldsz, sz, MREMAP_MAYMOVE);
            if (p == MAP_FAILED) p = nullptr; else { g_bigs->erase(old); g_bigs->insert(p); }
        } else if (newbig) {
            p = big_map(sz);
            if (p) { if (old) { memcpy(p, old, oldsz); arena_free(old); } g_bigs->insert(p); }
        } else {
            p = arena_malloc(sz);
            if (p) { memcpy(p, old, sz < oldsz ? sz : oldsz); munmap(old, oldsz); g_bigs->erase(old); }
        }
        if (p) {
            if (old) g_live->erase(old);
            (*g_live)[p] = sz;
        }
    }
    if (g_record_events) g_events->push_back({p ? 'r' : 'x', p, sz});
    in_lib = save;
    return p;
}
void __wrap_free(void *p)
{
    using namespace vf;
    if (!in_lib) { __real_free(p); return; }
    if (!p) return;
    int save = in_lib; in_lib = 0;
    if (g_alloc_hook) g_alloc_hook('f', p, 0);
    if (!lib_is_live(p))
        verif_fail("alloc.free_foreign", "library free()s %p which it did not allocate or already freed", p);
    size_t fsz = (*g_live)[p];
    g_live->erase(p);
    if (g_record_events) g_events->push_back({'f', p, 0});
    if (g_bigs->count(p)) { munmap(p, fsz); g_bigs->erase(p); } else arena_free(p);
    in_lib = save;
}

// library asserts become clauses (the library is built without NDEBUG)
void __assert_fail(const char *expr, const char *file, unsigned line, const char *)
{
    const char *b = strrchr(file, '/');
    char clause[256];
    snprintf(clause, sizeof clause, "assert:%s:%u", b ? b + 1 : file, line);
    vf::in_lib = 0;
    vf::verif_fail(clause, "assertion `%s' failed", expr);
}
} // extern "C"

namespace vf {
// Run a library call. LIB(x): abort is a violation. MAY_ABORT(x): returns true
// if the call ended in abort(); the objects involved must then be abandoned.
#define LIB(stmt) do { vf::in_lib = vf::in_lib + 1; __asm__ volatile("" ::: "memory"); stmt; __asm__ volatile("" ::: "memory"); vf::in_lib = vf::in_lib - 1; } while (0)
// "aborts" means the call cannot continue: abort() terminates the process even when SIGABRT is ignored or handled by a
// handler that returns, raise(SIGABRT) does not. In 1 case of 1024 every call that may abort is first tried in a forked
// child with SIGABRT ignored; if that child comes back although the real run below ends in SIGABRT, the library merely
// raised the signal and would have carried on.
static uint64_t g_case_hash = 0;     // FNV of the case bytes: per-case choices that are not part of the case language (setup habits)
static bool g_fork_probe = false;
static bool g_in_fibre = false;      // (set by harnesses that run library code on their own stacks: no fork there)
template <class F> static int probe_child_survives(F &f)
{
    fflush(nullptr);
    pid_t pid = fork();
    if (pid < 0) return -1;
    if (pid == 0) {
        signal(SIGABRT, SIG_IGN);
        struct itimerval it;
        memset(&it, 0, sizeof it);
        setitimer(ITIMER_VIRTUAL, &it, nullptr);
        alarm(20);
        g_abort_armed = 0;
        in_lib = in_lib + 1;
        f();
        _exit(0);               // came back: either no abort was attempted, or it did not stop the call
    }
    int st = 0;
    while (waitpid(pid, &st, 0) < 0 && errno == EINTR) {}
    if (WIFEXITED(st) && WEXITSTATUS(st) == 0) return 1;
    return 0;                   // killed (SIGABRT, or anything else: the real run decides what that means)
}
template <class F> static bool may_abort(F &&f)
{
    int survived = g_fork_probe && !g_in_fibre ? probe_child_survives(f) : -1;
    volatile int saved_in_lib = in_lib;
    if (sigsetjmp(g_abort_jmp, 1) == 0) {
        g_abort_armed = 1;
        in_lib = in_lib + 1;
        f();
        in_lib = in_lib - 1;
        g_abort_armed = 0;
        return false;
    }
    in_lib = saved_in_lib;
    if (survived == 1)
        verif_fail("abort.not_fail_stop", "the call ends in SIGABRT, but with SIGABRT ignored the same call returns normally: the library "
                   "raises the signal instead of aborting, and carries on when the signal does not kill the process");
    return true;
}

// release every block the library still holds (after an abandoned object,
// or at the end of a case) so that cases stay independent
static void lib_release_all()
{
    std::vector<std::pair<void *, size_t>> v;
    for (auto &kv : *g_live) v.push_back(kv);
    if (g_live->bucket_count() > 4096) { delete g_live; g_live = new std::unordered_map<void *, size_t>(); } else g_live->clear();
    for (auto &kv : v) { if (g_bigs->count(kv.first)) { munmap(kv.first, kv.second); g_bigs->erase(kv.first); } else arena_free(kv.first); }
}

static void case_reset()
{
    alloc_init();
    in_lib = 0;
    g_abort_armed = 0;
    g_ops.clear();
    g_state.clear();
    g_out_of_scope = false;
    g_nontrivial = false;
    g_alloc_ordinal = 0;
    g_faults_hit = 0;
    g_limit_hits = 0;
    g_cur_op = "";
    g_deferred_abandon = nullptr;
    g_also_ours.clear();
    g_ours_after_fault.clear();
    g_big_alloc_max = 0;
    events_clear();
    if (!g_live->empty()) lib_release_all();
}

// run one case: reset, run, turn a foreign-clause failure into "abandoned"
static void run_case(const uint8_t *d, size_t n);

// clear() of an unordered container memsets its whole bucket array: after one scale run every later clear()
// of a static container would cost milliseconds. Give the memory back instead.
template <class S> static void fresh_clear(S &s)
{
    if (s.bucket_count() > 4096) { S tmp; s.swap(tmp); } else s.clear();
}

// ---------------------------------------------------------------- G1 scope
struct Scope {
    std::vector<uint8_t> header;                 // bytes before the first op record
    std::vector<std::vector<uint8_t>> alphabet;  // op records
    std::vector<std::string> names;              // optional op names
    std::vector<uint8_t> trailer;                // appended after the path (final audit)
    bool prune = true;                           // closure (true) or all sequences
    int max_depth = 1000;
};
} // namespace vf

// harness interface
const char *vf_harness_name();
void vf_run(const uint8_t *data, size_t len);
void vf_gen(vf::Rng &r, std::vector<uint8_t> &out);
bool vf_scope(const std::string &name, vf::Scope &s);
int vf_custom(int argc, char **argv);

namespace vf {
// A case may start with a fault prefix (C16): "\xF7VFLT1", u16 count,
// u32 fail_from (0xffffffff = none), count x u32 ordinals of library allocation
// requests that must return NULL.
static const char FAULT_MAGIC[] = "\xF7VFLT1";
static size_t parse_fault_prefix(const uint8_t *d, size_t n)
{
    g_fail_ordinals.clear();
    g_fail_from = UINT64_MAX;
    if (n < 13 || memcmp(d, FAULT_MAGIC, 7) != 0) return 0;
    size_t cnt = d[7] | (d[8] << 8);
    uint32_t ff;
    memcpy(&ff, d + 9, 4);
    if (n < 13 + 4 * cnt) return 0;
    if (ff != 0xffffffffu) g_fail_from = ff;
    for (size_t i = 0; i < cnt; i++) {
        uint32_t o;
        memcpy(&o, d + 13 + 4 * i, 4);
        g_fail_ordinals.push_back(o);
    }
    std::sort(g_fail_ordinals.begin(), g_fail_ordinals.end());
    return 13 + 4 * cnt;
}
static void make_fault_prefix(std::vector<uint8_t> &out, const std::vector<uint32_t> &ords, uint32_t fail_from)
{
    out.assign(FAULT_MAGIC, FAULT_MAGIC + 7);
    out.push_back((uint8_t)(ords.size() & 255));
    out.push_back((uint8_t)(ords.size() >> 8));
    for (int i = 0; i < 4; i++) out.push_back((uint8_t)(fail_from >> (8 * i)));
    for (uint32_t o : ords) for (int i = 0; i < 4; i++) out.push_back((uint8_t)(o >> (8 * i)));
}
static void run_case(const uint8_t *d, size_t n)
{
    case_reset();
    arm_watchdog();
    g_case_hash = n ? fnv64(d, n) : 0;
    {
        // allocator personality of this case (a pure function of the case bytes, so a replay sees the same one)
        arena_flush();
        uint64_t hh = n ? fnv64(d, n) >> 12 : 0;
        if (g_force_alloc_mode >= 0) hh = g_force_alloc_mode == 0 ? 0 : (uint64_t)(3 + g_force_alloc_mode);
        switch (hh & 7) {
        case 4: g_alloc_fill = 0x00; g_alloc_recycle = false; break;
        case 5: g_alloc_fill = 0xFF; g_alloc_recycle = false; break;
        case 6: g_alloc_fill = 0x00; g_alloc_recycle = true; break;
        case 7: g_alloc_fill = -1; g_alloc_recycle = true; break;
        default: g_alloc_fill = -1; g_alloc_recycle = false;
        }
        if (g_no_alloc_modes) { g_alloc_fill = -1; g_alloc_recycle = false; }
    }
    g_fork_probe = n > 0 && (fnv64(d, n) & 1023) == 0;    // 1 case in 1024 (forking a sanitized process costs milliseconds): expected aborts are also tried with SIGABRT ignored
    size_t off = parse_fault_prefix(d, n);
    d += off;
    n -= off;
    if (g_trace && off) {
        std::string f;
        for (uint64_t o : g_fail_ordinals) f += std::to_string(o) + " ";
        tracef("fault set: fail allocation ordinals { %s} fail_from=%lld", f.c_str(),
               g_fail_from == UINT64_MAX ? -1ll : (long long)g_fail_from);
    }
    try {
        vf_run(d, n);
        if (g_deferred_abandon) throw Abandon{g_deferred_abandon};
    } catch (const Abandon &a) {
        CNT("abandoned_foreign_clause");
        if (g_trace) tracef("ABANDONED: clause %s belongs to another property", a.clause);
        g_nontrivial = false;
        g_out_of_scope = true;
        in_lib = 0;
        g_abort_armed = 0;
    }
}
// ---------------------------------------------------------------- current-case file
// The case being run is copied into a MAP_SHARED file first, so the failing
// input survives a sanitizer abort / signal / _exit.
struct CurFile {
    uint8_t *m = nullptr;
    size_t cap = 1 << 20;
    void open(const std::string &path)
    {
        int fd = ::open(path.c_str(), O_RDWR | O_CREAT | O_TRUNC, 0644);
        if (fd < 0) { perror("open curfile"); exit(2); }
        if (ftruncate(fd, (off_t)cap) != 0) { perror("ftruncate"); exit(2); }
        m = (uint8_t *)mmap(nullptr, cap, PROT_READ | PROT_WRITE, MAP_SHARED, fd, 0);
        close(fd);
        if (m == MAP_FAILED) { perror("mmap"); exit(2); }
    }
    void put(const uint8_t *d, size_t n, const uint8_t *extra = nullptr, size_t en = 0)
    {
        if (!m) return;
        if (n + en + 16 > cap) return;
        uint64_t len = n, elen = en;
        memcpy(m + 16, d, n);
        if (en) memcpy(m + 16 + n, extra, en);
        memcpy(m, &len, 8);
        memcpy(m + 8, &elen, 8);
    }
};
static CurFile g_cur;

static std::string json_escape(const std::string &s)
{
    std::string o;
    for (unsigned char c : s) {
        if (c == '"' || c == '\\') { o += '\\'; o += (char)c; }
        else if (c < 0x20 || c >= 0x7f) { char b[8]; snprintf(b, sizeof b, "\\u%04x", c); o += b; }
        else o += (char)c;
    }
    return o;
}
static std::string hexstr(const uint8_t *d, size_t n)
{
    static const char *hx = "0123456789abcdef";
    std::string s;
    for (size_t i = 0; i < n; i++) { s += hx[d[i] >> 4]; s += hx[d[i] & 15]; }
    return s;
}

struct Sample { std::string hex; std::vector<std::string> ops; bool nontrivial; };

static Sample take_sample(const std::vector<uint8_t> &c)
{
    bool t = g_trace;
    g_trace = true;
    run_case(c.data(), c.size());
    Sample s;
    s.hex = hexstr(c.data(), std::min<size_t>(c.size(), 96));
    if (c.size() > 96) s.hex += "...";
    s.ops = g_ops;
    if (s.ops.size() > 60) {
        std::vector<std::string> t2(s.ops.begin(), s.ops.begin() + 40);
        t2.push_back("... (" + std::to_string(s.ops.size() - 50) + " ops elided) ...");
        t2.insert(t2.end(), s.ops.end() - 10, s.ops.end());
        s.ops.swap(t2);
    }
    s.nontrivial = g_nontrivial;
    g_trace = t;
    return s;
}

static void write_stats(const std::string &path, const char *engine, uint64_t evals,
                        uint64_t nontrivial, const std::unordered_set<uint64_t> &hashes,
                        const std::vector<Sample> &samples, double wall,
                        const std::string &extra_json)
{
    FILE *f = fopen((path + ".json").c_str(), "w");
    if (!f) { perror("stats"); return; }
    fprintf(f, "{\"engine\":\"%s\",\"harness\":\"%s\",\"prop\":\"%s\",\"evaluations\":%llu,"
               "\"nontrivial\":%llu,\"distinct_nontrivial\":%zu,\"wall_s\":%.3f,",
            engine, vf_harness_name(), g_prop.c_str(), (unsigned long long)evals,
            (unsigned long long)nontrivial, hashes.size(), wall);
    fprintf(f, "\"counters\":{");
    bool first = true;
    for (auto &kv : counters()) {
        fprintf(f, "%s\"%s\":%llu", first ? "" : ",", json_escape(kv.first).c_str(),
                (unsigned long long)kv.second);
        first = false;
    }
    fprintf(f, "},\"samples\":[");
    for (size_t i = 0; i < samples.size(); i++) {
        fprintf(f, "%s{\"case_hex\":\"%s\",\"nontrivial\":%s,\"ops\":[", i ? "," : "",
                samples[i].hex.c_str(), samples[i].nontrivial ? "true" : "false");
        for (size_t j = 0; j < samples[i].ops.size(); j++)
            fprintf(f, "%s\"%s\"", j ? "," : "", json_escape(samples[i].ops[j]).c_str());
        fprintf(f, "]}");
    }
    fprintf(f, "]%s%s}\n", extra_json.empty() ? "" : ",", extra_json.c_str());
    fclose(f);
    // distinct-case hashes for the cross-worker merge
    f = fopen((path + ".hashes").c_str(), "wb");
    if (f) {
        std::vector<uint64_t> v(hashes.begin(), hashes.end());
        if (!v.empty()) fwrite(v.data(), 8, v.size(), f);
        fclose(f);
    }
}

static double now_s()
{
    struct timeval tv;
    gettimeofday(&tv, nullptr);
    return tv.tv_sec + tv.tv_usec * 1e-6;
}

static std::vector<uint8_t> read_file(const char *path)
{
    std::vector<uint8_t> v;
    FILE *f = fopen(path, "rb");
    if (!f) { perror(path); exit(2); }
    uint8_t buf[65536];
    size_t n;
    while ((n = fread(buf, 1, sizeof buf, f)) > 0) v.insert(v.end(), buf, buf + n);
    fclose(f);
    return v;
}

static const size_t HASH_CAP = 400000;

// ---------------------------------------------------------------- engines
static int engine_replay(const char *path, bool quiet)
{
    std::vector<uint8_t> c = read_file(path);
    g_trace = true;
    g_replay_mode = quiet ? 2 : 1;
    run_case(c.data(), c.size());
    if (quiet && g_alloc_ordinal > 0 && getenv("VERIF_ALL_PERSONALITIES")) {
        // regression seeds (quiet replays): a case that makes the library allocate is run under every allocator
        // personality, not only the one its hash selects (a seed must keep failing whatever fresh memory contains)
        for (int m = 0; m < 5; m++) { g_force_alloc_mode = m; run_case(c.data(), c.size()); }
        g_force_alloc_mode = -1;
    }
    if (!quiet) {
        printf("REPLAY-OK nontrivial=%d ops=%zu\n", (int)g_nontrivial, g_ops.size());
    }
    return 0;
}

static int engine_g2(uint64_t seed, unsigned worker, uint64_t ncases, const std::string &outdir)
{
    double t0 = now_s();
    g_cur.open(outdir + "/cur-g2-" + std::to_string(worker) + ".case");
    std::unordered_set<uint64_t> hashes;
    std::vector<Sample> samples;
    std::vector<uint8_t> c, longest, firstnt, rnd;
    uint64_t nontriv = 0;
    Rng pick(mix_seed(seed, worker, 777));
    for (uint64_t k = 0; k < ncases; k++) {
        Rng r(mix_seed(seed, worker, k));
        c.clear();
        vf_gen(r, c);
        g_cur.put(c.data(), c.size());
        run_case(c.data(), c.size());
        if (g_nontrivial) {
            nontriv++;
            if (hashes.size() < HASH_CAP) hashes.insert(fnv64(c.data(), c.size()));
            if (firstnt.empty()) firstnt = c;
            if (c.size() > longest.size() && c.size() < 600) longest = c;
            if (pick.below((uint32_t)std::min<uint64_t>(nontriv, 1u << 30)) == 0) rnd = c;
        }
    }
    std::vector<uint8_t> none;
    g_cur.put(none.data(), 0);
    if (!firstnt.empty()) samples.push_back(take_sample(firstnt));
    if (!rnd.empty() && rnd != firstnt) samples.push_back(take_sample(rnd));
    if (!longest.empty() && longest != firstnt && longest != rnd) samples.push_back(take_sample(longest));
    if (samples.empty() && !c.empty()) samples.push_back(take_sample(c));
    write_stats(outdir + "/stats-g2-" + std::to_string(worker), "g2", ncases, nontriv, hashes,
                samples, now_s() - t0, "");
    return 0;
}

// G1: closure over canonical states (prune) or all sequences (no prune).
static int engine_g1(const std::string &scope_name, uint64_t state_cap, const std::string &outdir,
                     const std::string &tag)
{
    double t0 = now_s();
    Scope sc;
    if (!vf_scope(scope_name, sc)) { fprintf(stderr, "unknown scope %s\n", scope_name.c_str()); return 2; }
    g_cur.open(outdir + "/cur-g1-" + tag + ".case");
    struct Node { uint32_t parent; uint16_t op; uint16_t depth; };
    std::vector<Node> nodes;
    std::unordered_set<uint64_t> seen;     // 64-bit hash of canonical state strings
    std::unordered_set<uint64_t> hashes;   // distinct non-trivial cases
    std::vector<Sample> samples;
    uint64_t evals = 0, transitions = 0, nontriv = 0, pruned_scope = 0;
    bool capped = false;
    int depth_done = 0;
    g_want_state = true;

    auto build = [&](uint32_t idx, int extra_op, std::vector<uint8_t> &out) {
        std::vector<uint16_t> path;
        for (uint32_t i = idx; i != UINT32_MAX && nodes[i].parent != UINT32_MAX; i = nodes[i].parent)
            path.push_back(nodes[i].op);
        out = sc.header;
        for (size_t k = path.size(); k-- > 0;)
            out.insert(out.end(), sc.alphabet[path[k]].begin(), sc.alphabet[path[k]].end());
        if (extra_op >= 0)
            out.insert(out.end(), sc.alphabet[extra_op].begin(), sc.alphabet[extra_op].end());
        out.insert(out.end(), sc.trailer.begin(), sc.trailer.end());
    };
    std::vector<uint8_t> c, last_nt;
    // root
    build(UINT32_MAX, -1, c);
    g_cur.put(c.data(), c.size());
    run_case(c.data(), c.size());
    evals++;
    nodes.push_back({UINT32_MAX, 0, 0});
    seen.insert(fnv64((const uint8_t *)g_state.data(), g_state.size()));
    size_t head = 0;
    while (head < nodes.size()) {
        uint32_t cur = (uint32_t)head++;
        if (nodes[cur].depth >= sc.max_depth) continue;
        depth_done = nodes[cur].depth;
        for (size_t op = 0; op < sc.alphabet.size(); op++) {
            build(cur, (int)op, c);
            g_cur.put(c.data(), c.size());
            run_case(c.data(), c.size());
            evals++;
            transitions++;
            if (g_nontrivial) {
                nontriv++;
                if (hashes.size() < HASH_CAP) hashes.insert(fnv64(c.data(), c.size()));
                if (last_nt.empty() || (evals % 4093) == 0) last_nt = c;
            }
            if (g_out_of_scope) { pruned_scope++; continue; }
            if (sc.prune) {
                uint64_t h = fnv64((const uint8_t *)g_state.data(), g_state.size());
                if (!seen.insert(h).second) continue;
            }
            if (nodes[cur].depth + 1 >= sc.max_depth) continue;   // leaves need no node
            if (nodes.size() >= state_cap) { capped = true; continue; }
            nodes.push_back({cur, (uint16_t)op, (uint16_t)(nodes[cur].depth + 1)});
        }
    }
    g_want_state = false;
    std::vector<uint8_t> none;
    g_cur.put(none.data(), 0);
    if (!last_nt.empty()) samples.push_back(take_sample(last_nt));
    if (nodes.size() > 1) { build((uint32_t)nodes.size() - 1, -1, c); samples.push_back(take_sample(c)); }
    if (samples.empty()) { build(UINT32_MAX, -1, c); samples.push_back(take_sample(c)); }
    char extra[512];
    snprintf(extra, sizeof extra,
             "\"scope\":\"%s\",\"states\":%zu,\"transitions\":%llu,\"exhaustive\":%s,"
             "\"pruned\":%s,\"out_of_scope\":%llu,\"max_depth_reached\":%d,\"alphabet\":%zu",
             scope_name.c_str(), nodes.size(), (unsigned long long)transitions,
             capped ? "false" : "true", sc.prune ? "true" : "false",
             (unsigned long long)pruned_scope, depth_done + 1, sc.alphabet.size());
    write_stats(outdir + "/stats-g1-" + tag, "g1", evals, nontriv, hashes, samples, now_s() - t0, extra);
    return 0;
}

// G7 (C16): generated scripts x fault sets over the script's allocation ordinals:
// every single ordinal, every suffix, every pair (N <= pair_max), triples (N <= 8)
static int engine_g7(uint64_t seed, unsigned worker, uint64_t nscripts, const std::string &outdir,
                     unsigned pair_max, const char *scriptfile)
{
    double t0 = now_s();
    g_cur.open(outdir + "/cur-g7-" + std::to_string(worker) + ".case");
    std::unordered_set<uint64_t> hashes;
    std::vector<Sample> samples;
    std::vector<uint8_t> c, full, pre, firstnt, rnd;
    uint64_t evals = 0, nontriv = 0, scripts = 0, sumN = 0, hit_runs = 0;
    Rng pick(mix_seed(seed, worker, 778));
    auto one = [&](const std::vector<uint32_t> &ords, uint32_t ff) {
        make_fault_prefix(pre, ords, ff);
        full = pre;
        full.insert(full.end(), c.begin(), c.end());
        g_cur.put(full.data(), full.size());
        run_case(full.data(), full.size());
        evals++;
        if (g_faults_hit) hit_runs++;
        if (g_nontrivial) {
            nontriv++;
            if (hashes.size() < HASH_CAP) hashes.insert(fnv64(full.data(), full.size()));
            if (firstnt.empty()) firstnt = full;
            if (pick.below((uint32_t)std::min<uint64_t>(nontriv, 1u << 30)) == 0) rnd = full;
        }
    };
    for (uint64_t k = 0; k < nscripts; k++) {
        if (scriptfile) c = read_file(scriptfile);
        else { Rng r(mix_seed(seed, worker, k)); c.clear(); vf_gen(r, c); }
        g_cur.put(c.data(), c.size());
        run_case(c.data(), c.size());
        evals++;
        if (g_out_of_scope) continue;
        uint32_t N = (uint32_t)std::min<uint64_t>(g_alloc_ordinal, 64);
        scripts++;
        sumN += N;
        for (uint32_t i = 0; i < N; i++) one({i}, 0xffffffffu);
        for (uint32_t i = 0; i < N; i++) one({}, i);
        if (N <= pair_max)
            for (uint32_t i = 0; i < N; i++) for (uint32_t j = i + 1; j < N; j++) one({i, j}, 0xffffffffu);
        if (N <= 10)
            for (uint32_t i = 0; i < N; i++) for (uint32_t j = i + 1; j < N; j++)
                for (uint32_t l = j + 1; l < N; l++) one({i, j, l}, 0xffffffffu);
    }
    std::vector<uint8_t> none;
    g_cur.put(none.data(), 0);
    if (!firstnt.empty()) samples.push_back(take_sample(firstnt));
    if (!rnd.empty() && rnd != firstnt) samples.push_back(take_sample(rnd));
    if (samples.empty() && !c.empty()) samples.push_back(take_sample(c));
    char extra[256];
    snprintf(extra, sizeof extra, "\"scripts\":%llu,\"alloc_ordinals_total\":%llu,\"runs_with_fault_delivered\":%llu",
             (unsigned long long)scripts, (unsigned long long)sumN, (unsigned long long)hit_runs);
    write_stats(outdir + "/stats-g7-" + std::to_string(worker), "g7", evals, nontriv, hashes, samples, now_s() - t0, extra);
    return 0;
}

// run every case in a list file (length-prefixed) or directory listing: used
// for regression replays inside one process
static int engine_files(int n, char **paths)
{
    for (int i = 0; i < n; i++) {
        std::vector<uint8_t> c = read_file(paths[i]);
        run_case(c.data(), c.size());
    }
    return 0;
}

static void common_init()
{
    alloc_init();
    install_abort_handler();
    setvbuf(stdout, nullptr, _IOLBF, 0);
}

static int common_main(int argc, char **argv)
{
    common_init();
    // usage: <bin> --prop Cxx <engine> args...
    int a = 1;
    while (a < argc && strncmp(argv[a], "--", 2) == 0) {
        if (!strcmp(argv[a], "--prop") && a + 1 < argc) { g_prop = argv[a + 1]; a += 2; }
        else if (!strcmp(argv[a], "--limit") && a + 1 < argc) { g_alloc_limit = strtoull(argv[a + 1], 0, 0); a += 2; }
        else break;
    }
    if (a >= argc) { fprintf(stderr, "usage: %s --prop Cxx replay|g2|g1|files ...\n", argv[0]); return 2; }
    std::string eng = argv[a++];
    if (eng == "replay" && a < argc) return engine_replay(argv[a], false);
    if (eng == "replayq" && a < argc) return engine_replay(argv[a], true);
    if (eng == "files") return engine_files(argc - a, argv + a);
    if (eng == "g2" && a + 3 < argc)
        return engine_g2(strtoull(argv[a], 0, 0), (unsigned)atoi(argv[a + 1]), strtoull(argv[a + 2], 0, 0), argv[a + 3]);
    if (eng == "g1" && a + 3 < argc)
        return engine_g1(argv[a], strtoull(argv[a + 1], 0, 0), argv[a + 2], argv[a + 3]);
    if (eng == "g7" && a + 4 < argc)
        return engine_g7(strtoull(argv[a], 0, 0), (unsigned)atoi(argv[a + 1]), strtoull(argv[a + 2], 0, 0), argv[a + 3],
                         (unsigned)atoi(argv[a + 4]), a + 5 < argc ? argv[a + 5] : nullptr);
    return vf_custom(argc - a + 1, argv + a - 1);
}
} // namespace vf

#ifdef VERIF_FUZZ
extern "C" int LLVMFuzzerInitialize(int *, char ***)
{
    vf::common_init();
    const char *p = getenv("VERIF_PROP");
    vf::g_prop = p ? p : "";
    return 0;
}
extern "C" int LLVMFuzzerTestOneInput(const uint8_t *data, size_t size)
{
    static bool once = false;
    if (!once) {
        once = true;
        vf::install_abort_handler();   // after libFuzzer installed its own
        const char *o = getenv("VERIF_OUT"), *w = getenv("VERIF_WORKER");
        if (o) vf::g_cur.open(std::string(o) + "/cur-g3-" + (w ? w : "0") + ".case");
    }
    vf::g_cur.put(data, size);
    vf::run_case(data, size);
    return 0;
}
#else
int main(int argc, char **argv) { return vf::common_main(argc, argv); }
#endif
