/* C03 demo 2: erase while an incremental rehash is in progress */
#include <stdio.h>
#include <stdlib.h>
#include "cstl/hash.h"

struct item { size_t key; struct cstl_hash_node hn; };

static int fails;
#define EXPECT(c, ...) do { if (!(c)) { fails++; printf("  violated: "); printf(__VA_ARGS__); printf("\n"); } } while (0)

#define N 8
static struct item it[N];

int main(void)
{
    DECLARE_CSTL_HASH(h, struct item, hn);
    size_t k;

    cstl_hash_resize(&h, 4, cstl_hash_div);
    for (k = 0; k < N; k++) { it[k].key = k; cstl_hash_insert(&h, k, &it[k]); }

    cstl_hash_resize(&h, 8, cstl_hash_div);                     /* incremental rehash 4 -> 8 starts */
    EXPECT(cstl_hash_find(&h, 5, NULL, NULL) == &it[5], "find(5) during the rehash does not return the element");

    cstl_hash_erase(&h, &it[5]);                                /* erase lands during the sweep */
    EXPECT(cstl_hash_size(&h) == N - 1, "size %zu after erasing one of %d elements", cstl_hash_size(&h), N);
    EXPECT(cstl_hash_find(&h, 5, NULL, NULL) == NULL, "the erased element is still found by its key (during the rehash)");

    cstl_hash_rehash(&h);
    EXPECT(cstl_hash_find(&h, 5, NULL, NULL) == NULL, "the erased element is still found by its key (after the rehash completed)");
    for (k = 0; k < N; k++)
        if (k != 5) EXPECT(cstl_hash_find(&h, k, NULL, NULL) == &it[k], "live element %zu is not found", k);
    EXPECT(cstl_hash_size(&h) == N - 1, "size %zu after the rehash, %d elements are live", cstl_hash_size(&h), N - 1);

    cstl_hash_clear(&h, NULL);
    if (fails) { printf("FAIL: %d clause(s) of C03 violated (erase did not remove the object passed)\n", fails); return 1; }
    printf("PASS\n");
    return 0;
}
