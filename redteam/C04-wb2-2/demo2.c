/*
 * C04 demo 2: a table is filled "in the background" and then swapped into
 * place with cstl_hash_swap() (the usual double-buffering idiom).  Later the
 * live table is shrunk.  At every moment cstl_hash_foreach() must visit every
 * live element exactly once and cstl_hash_clear() must hand every live element
 * to the clear callback exactly once.
 */
#include <stdio.h>
#include <stdlib.h>
#include "cstl/hash.h"

struct item {
    size_t key;
    int visits, cleared;
    struct cstl_hash_node hn;
};

#define N 40
static struct item items[N];

static int visit(void * const e, void * const p)
{
    ((struct item *)e)->visits++;
    ++*(int *)p;
    return 0;
}

static int visit_const(const void * const e, void * const p)
{
    return visit((void *)e, p);
}

static void clear_cb(void * const e, void * const p)
{
    (void)p;
    ((struct item *)e)->cleared++;
}

static int audit(const char * const what, const int n)
{
    int i, bad = 0;

    if (n != N) {
        printf("  %s made %d visits, %d elements are live\n", what, n, N);
        bad = 1;
    }
    for (i = 0; i < N; i++) {
        if (items[i].visits != 1 && bad < 4) {
            printf("  %s visited the element with key %zu %d times\n",
                   what, items[i].key, items[i].visits);
            bad++;
        }
        items[i].visits = 0;
    }
    return bad != 0;
}

int main(void)
{
    struct cstl_hash live, next;
    int i, n, bad = 0;

    /* the table in use: sized once */
    cstl_hash_init(&live, offsetof(struct item, hn));
    cstl_hash_resize(&live, 8, cstl_hash_div);

    /* its replacement: sized, grown once while being filled */
    cstl_hash_init(&next, offsetof(struct item, hn));
    cstl_hash_resize(&next, 8, cstl_hash_div);
    for (i = 0; i < N; i++) {
        items[i].key = 1000 + 7 * i;
        cstl_hash_insert(&next, items[i].key, &items[i]);
        if (i == N / 2) {
            cstl_hash_resize(&next, 32, NULL);
        }
    }
    cstl_hash_rehash(&next);            /* nothing pending */

    /* put the new table into place, drop the old (empty) one */
    cstl_hash_swap(&live, &next);
    cstl_hash_clear(&next, NULL);

    n = 0;
    cstl_hash_foreach_const(&live, visit_const, &n);
    bad |= audit("foreach_const after the swap", n);

    /* later: fewer buckets are enough */
    cstl_hash_resize(&live, 4, NULL);

    n = 0;
    cstl_hash_foreach_const(&live, visit_const, &n);
    bad |= audit("foreach_const while the shrink is pending", n);

    n = 0;
    cstl_hash_foreach(&live, visit, &n);
    bad |= audit("foreach after the shrink", n);

    if (cstl_hash_size(&live) != N) {
        printf("  size is %zu, expected %d\n", cstl_hash_size(&live), N);
        bad = 1;
    }

    cstl_hash_clear(&live, clear_cb);
    for (i = 0, n = 0; i < N; i++) {
        n += items[i].cleared == 1;
    }
    if (n != N) {
        printf("  clear handed %d of %d live elements to the callback exactly once\n", n, N);
        bad = 1;
    }

    if (bad) {
        printf("FAIL: live elements are skipped by enumeration / clear\n");
        return 1;
    }
    printf("PASS\n");
    return 0;
}
