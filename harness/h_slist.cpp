// C13 (slist equals a reference sequence, tail is the true last) and the slist
// part of C15 (clear hands over each element exactly once, list reusable).
#include "common/verif.hpp"
extern "C" {
#include "cstl/slist.h"
}
using namespace vf;

const char *vf_harness_name() { return "slist"; }

namespace {

struct Elem {
    uint64_t guard1;        // the library must never write outside the node it was given
    int id;
    int key;
    int cleared;            // times handed to the clear callback
    size_t slot;            // index in Inst::all (O(1) removal)
    struct cstl_slist_node node;
    uint64_t guard2;
    struct cstl_slist_node node2;   // "mixed offsets" cases: list 1 threads its elements through this member
    uint64_t guard3;
};
const uint64_t GUARD1 = 0x5EED5EED0BADF00Dull, GUARD2 = 0xFEEDFACECAFEBEEFull;

enum Op { PUSH_F, PUSH_B, INSERT_AFTER, ERASE_AFTER, POP_F, REVERSE, SORT, CONCAT, SWAP,
          FOREACH_STOP, CLEAR, AUDIT, NOPS };
const char *OPN[] = {"push_front", "push_back", "insert_after", "erase_after", "pop_front",
                     "reverse", "sort", "concat", "swap", "foreach_stop", "clear", "audit"};

// weight profiles (swarm): index by header byte
const uint8_t PROFILES[][NOPS] = {
    /* uniform      */ {1, 1, 1, 1, 1, 1, 1, 1, 1, 1, 1, 1},
    /* grow         */ {4, 6, 4, 1, 1, 2, 2, 2, 2, 1, 0, 1},
    /* shrink       */ {2, 2, 1, 4, 5, 1, 1, 1, 1, 1, 1, 1},
    /* structural   */ {2, 6, 2, 3, 3, 4, 4, 4, 4, 1, 1, 0},
    /* no clear     */ {3, 3, 3, 3, 3, 2, 2, 2, 2, 1, 0, 1},
    /* C15 fill     */ {4, 4, 4, 1, 1, 1, 1, 1, 1, 0, 2, 0},
    /* scale        */ {0, 200, 0, 0, 6, 0, 0, 0, 0, 0, 0, 0},
};
const int NPROFILES = sizeof PROFILES / sizeof PROFILES[0];
const int KEYS[] = {1, 2, 3, 5, 8};
const int MAXLIVE[] = {1000000, 2, 3, 4, 5, 6, 8, 12};

int g_cmp_calls;
void *g_cmp_priv_expected;
// any negative / zero / positive int is a valid comparison result: the plain difference, +-1, and values that do not
// fit a short or a char (sort op byte, bits 1-2)
int g_cmp_mag;
static int cmp_scale(int d) { return g_cmp_mag == 1 ? (d < 0 ? -2000000000 : d > 0 ? 2000000000 : 0) : g_cmp_mag == 2 ? (d > 0) - (d < 0) : g_cmp_mag == 3 ? d * 300 : d; }
int cmp_asc(const void *a, const void *b, void *p)
{
    CHECK_NOTHROW(p == g_cmp_priv_expected, "C13.sort.priv", "compare priv pointer changed");
    g_cmp_calls++;
    return cmp_scale(((const Elem *)a)->key - ((const Elem *)b)->key);
}
int cmp_desc(const void *a, const void *b, void *p)
{
    CHECK_NOTHROW(p == g_cmp_priv_expected, "C13.sort.priv", "compare priv pointer changed");
    g_cmp_calls++;
    return cmp_scale(((const Elem *)b)->key - ((const Elem *)a)->key);
}

struct Inst;
struct VisitCtx {
    Inst *in;
    std::vector<Elem *> seen;
    size_t limit;       // fail deterministically after this many visits
    size_t stop_at;     // 1-based index at which to return stop_val (0: never)
    int stop_val;
    bool overflow;
};

struct Inst {
    const char *tag;
    struct cstl_slist sl[3];
    std::vector<Elem *> model[3];
    std::vector<Elem *> all;      // every element ever allocated & still owned by us
    std::vector<int> keyof;       // id -> key, kept outside the elements
    int nlists, next_id;
    size_t clear_calls;
    bool twin_of_cleared;

    size_t off[3];              // which node member each list object uses (exchanged by swap)
    void init(const char *t, int n, bool mixed = false)
    {
        tag = t;
        nlists = n;
        next_id = 0;
        clear_calls = 0;
        keyof.clear();
        for (int i = 0; i < 3; i++) {
            model[i].clear();
            off[i] = (mixed && i == 1) ? offsetof(Elem, node2) : offsetof(Elem, node);
            memset(&sl[i], 0xA5, sizeof sl[i]);      // init must set every field itself
            cstl_slist_init(&sl[i], off[i]);
        }
    }
    Elem *mk(int key)
    {
        Elem *e = (Elem *)malloc(sizeof *e);
        e->id = next_id++;
        e->key = key;
        e->cleared = 0;
        e->guard1 = GUARD1;
        e->guard2 = GUARD2;
        e->node.n = (struct cstl_slist_node *)0x5a5a5a5a5a5a5a5aull;
        e->node2.n = (struct cstl_slist_node *)0x5a5a5a5a5a5a5a5aull;
        e->guard3 = GUARD2;
        if ((size_t)e->id >= keyof.size()) keyof.resize(e->id + 1);
        keyof[e->id] = key;
        e->slot = all.size();
        all.push_back(e);
        return e;
    }
    void kill(Elem *e)
    {
        size_t i = e->slot;
        if (i < all.size() && all[i] == e) { all[i] = all.back(); all[i]->slot = i; all.pop_back(); }
        memset(e, 0xDD, sizeof *e);
        free(e);
    }
    void destroy()
    {
        for (Elem *e : all) free(e);
        all.clear();
    }
    size_t live() const { return model[0].size() + model[1].size() + model[2].size(); }
};

// a visitor may itself traverse the list (read-only): the outer traversal must be unaffected and the inner one complete
struct NestedWalk { struct cstl_slist *l; VisitCtx *outer; size_t at; bool done; size_t inner_seen; int inner_rv; } g_nested;
int count_cb(void *, void *priv) { (*(size_t *)priv)++; return 0; }
int visit_cb(void *obj, void *priv)
{
    VisitCtx *c = (VisitCtx *)priv;
    if (c->seen.size() >= c->limit) { c->overflow = true; return 77; }
    c->seen.push_back((Elem *)obj);
    if (g_nested.l && g_nested.outer == c && !g_nested.done && c->seen.size() == g_nested.at) {
        g_nested.done = true;
        g_nested.inner_seen = 0;
        g_nested.inner_rv = cstl_slist_foreach(g_nested.l, count_cb, &g_nested.inner_seen);     // library call from within the visitor
    }
    if (c->stop_at && c->seen.size() == c->stop_at) return c->stop_val;
    return 0;
}

struct ClearCtx { Inst *in; std::unordered_set<Elem *> *expect; size_t calls; bool bad; };
ClearCtx *g_clear_ctx;
void clear_cb(void *obj, void *priv)
{
    HarnessScope hs;
    ClearCtx *c = g_clear_ctx;
    (void)priv;
    c->calls++;
    Elem *e = (Elem *)obj;
    if (!c->expect->count(e)) { c->bad = true; return; }   // not an element of this list (or handed over before): do not touch
    c->expect->erase(e);
    e->cleared++;
    if (e->cleared > 1) { c->bad = true; return; }
    // the callee takes ownership: poison and free
    c->in->kill(e);
}

// observations made by an op; compared between the cleared list and a fresh twin
typedef std::vector<long> Obs;

bool g_sparse_skip;     // scale runs: the O(n) audit runs only every 2048th op (and in the epilogue)
void audit(Inst &in, int li, Obs *obs, const char *clause_pfx)
{
    if (g_sparse_skip && !obs) return;
    struct cstl_slist *l = &in.sl[li];
    std::vector<Elem *> &m = in.model[li];
    size_t sz;
    void *fr, *bk;
    LIB(sz = cstl_slist_size(l));
    LIB(fr = cstl_slist_front(l));
    LIB(bk = cstl_slist_back(l));
    VisitCtx vc{&in, {}, m.size() + 1, 0, 0, false};
    vc.limit = std::max(m.size(), sz) + 1;
    int rv;
    bool nest = m.size() >= 2 && m.size() <= 2000 && (m.size() & 1) == 0;       // every other audit of a list with >= 2 elements
    g_nested = NestedWalk{nest ? l : nullptr, &vc, 1 + m.size() / 2, false, 0, 0};
    LIB(rv = cstl_slist_foreach(l, visit_cb, &vc));
    g_nested.l = nullptr;
    if (nest) {
        CNT("class.walk.nested");
        char ncl[64];
        snprintf(ncl, sizeof ncl, "%s.seq", clause_pfx);
        CHECK(g_nested.done && g_nested.inner_rv == 0 && g_nested.inner_seen == m.size(), ncl,
              "%s L%d a traversal started from inside a visit saw %zu of %zu elements (returned %d)", in.tag, li, g_nested.inner_seen, m.size(), g_nested.inner_rv);
    }
    if (obs) {
        obs->push_back((long)sz);
        obs->push_back(fr ? ((Elem *)fr == (vc.seen.empty() ? nullptr : vc.seen.front()) ? 1 : 2) : 0);
        obs->push_back(bk ? ((Elem *)bk == (vc.seen.empty() ? nullptr : vc.seen.back()) ? 1 : 2) : 0);
        obs->push_back(rv);
        obs->push_back((long)vc.seen.size());
        obs->push_back(vc.overflow);
    }
    char cl[64];
    snprintf(cl, sizeof cl, "%s.size", clause_pfx);
    CHECK(sz == m.size(), cl, "%s L%d size %zu, reference %zu", in.tag, li, sz, m.size());
    snprintf(cl, sizeof cl, "%s.front", clause_pfx);
    CHECK(fr == (m.empty() ? nullptr : m.front()), cl, "%s L%d front mismatch", in.tag, li);
    snprintf(cl, sizeof cl, "%s.back", clause_pfx);
    CHECK(bk == (m.empty() ? nullptr : m.back()), cl, "%s L%d back is not the true last element", in.tag, li);
    snprintf(cl, sizeof cl, "%s.seq", clause_pfx);
    CHECK(!vc.overflow, cl, "%s L%d traversal visits more than %zu elements", in.tag, li, vc.limit - 1);
    CHECK(rv == 0, cl, "%s L%d foreach returned %d with a visitor that never stops", in.tag, li, rv);
    CHECK(vc.seen.size() == m.size(), cl, "%s L%d traversal yields %zu elements, reference %zu", in.tag, li,
          vc.seen.size(), m.size());
    for (size_t i = 0; i < m.size(); i++)
        CHECK(vc.seen[i] == m[i], cl, "%s L%d traversal position %zu differs from the reference", in.tag, li, i);
    snprintf(cl, sizeof cl, "%s.payload", clause_pfx);
    for (Elem *e : m)
        CHECK(e->guard1 == GUARD1 && e->guard2 == GUARD2 && e->guard3 == GUARD2 && (size_t)e->id < in.keyof.size() && e->key == in.keyof[e->id] &&
              (in.off[li] == offsetof(Elem, node) ? e->node2.n : e->node.n) == (struct cstl_slist_node *)0x5a5a5a5a5a5a5a5aull, cl,
              "%s L%d the library wrote into an element outside the list node this list links", in.tag, li);
}

std::string seq_str(const std::vector<Elem *> &m)
{
    std::string s = "[";
    for (size_t i = 0; i < m.size(); i++) {
        char b[32];
        snprintf(b, sizeof b, "%se%d(k%d)", i ? "," : "", m[i]->id, m[i]->key);
        s += b;
    }
    return s + "]";
}

// canonical implementation state, read from the public struct (state
// identification for G1 only; never used in an oracle clause)
std::string peek_state(Inst &in)
{
    std::string s;
    for (int li = 0; li < in.nlists; li++) {
        struct cstl_slist *l = &in.sl[li];
        size_t bound = in.live() + 2, n = 0;
        long tailpos = -2;
        if (l->t == &l->h) tailpos = -1;
        s += "L";
        for (struct cstl_slist_node *c = l->h.n; c && n < bound; c = c->n, n++) {
            Elem *e = (Elem *)((char *)c - in.off[li]);
            s += (char)('a' + e->key);
            if (l->t == c) tailpos = (long)n;
        }
        char b[48];
        snprintf(b, sizeof b, "|t%ld|c%zu|o%zu;", tailpos, (size_t)l->count, (size_t)l->off);
        s += b;
    }
    return s;
}

struct CaseCtx {
    bool c15;
    bool after_struct;          // previous op was structural (for the non-trivial rule)
    int pred;                   // which predecessor class
    bool nt_pushb_after;        // C13 rule satisfied
    bool nt_audit_after;
    bool nt_clear3;             // C15: clear on >= 3 elements
    bool nt_reuse;              // C15: reuse ops after clear
};

enum Pred { P_NONE, P_ERASE_LAST, P_REVERSE, P_SORT, P_CONCAT, P_SWAP, P_POP_EMPTY };
const char *PREDN[] = {"", "erase_last", "reverse", "sort", "concat", "swap", "pop_to_empty"};

// apply one op to an instance
void apply(Inst &in, CaseCtx &cx, int op, uint8_t a, uint8_t b, int K, size_t maxlive, Obs *obs, Pred *pred_out)
{
    const char *pfx = "C13";
    int li = a % in.nlists;
    struct cstl_slist *l = &in.sl[li];
    std::vector<Elem *> &m = in.model[li];
    int key = b % K;
    *pred_out = P_NONE;
    g_cur_op = OPN[op];
    if (g_replay_mode == 1) TRACE("> %s %s L%d arg=%u", in.tag, OPN[op], li, b);
    switch (op) {
    case PUSH_F:
    case PUSH_B: {
        if (in.live() >= maxlive) { CNT("noop.maxlive"); TRACE("%s noop (max live)", OPN[op]); return; }
        Elem *e = in.mk(key);
        if (op == PUSH_F) { LIB(cstl_slist_push_front(l, e)); m.insert(m.begin(), e); }
        else { LIB(cstl_slist_push_back(l, e)); m.push_back(e); }
        TRACE("%s L%d.%s e%d(k%d)", in.tag, li, OPN[op], e->id, key);
        break;
    }
    case INSERT_AFTER: {
        if (m.empty() || in.live() >= maxlive) { CNT("noop.insert_after"); TRACE("insert_after noop"); return; }
        size_t pos = (b >> 3) % m.size();
        Elem *e = in.mk(key);
        LIB(cstl_slist_insert_after(l, m[pos], e));
        TRACE("%s L%d.insert_after e%d <- e%d(k%d) pos=%zu/%zu", in.tag, li, m[pos]->id, e->id, key, pos, m.size());
        if (pos + 1 == m.size()) CNT("class.insert_after_tail"); else CNT("class.insert_after_inner");
        m.insert(m.begin() + pos + 1, e);
        break;
    }
    case ERASE_AFTER: {
        if (m.size() < 2) { CNT("noop.erase_after"); TRACE("erase_after noop"); return; }
        size_t pos = b % (m.size() - 1);
        void *r;
        LIB(r = cstl_slist_erase_after(l, m[pos]));
        TRACE("%s L%d.erase_after e%d -> e%d pos=%zu/%zu", in.tag, li, m[pos]->id, m[pos + 1]->id, pos, m.size());
        if (obs) obs->push_back(r == m[pos + 1]);
        CHECK(r == m[pos + 1], "C13.erase_after.ret", "erase_after returned a pointer that is not the successor");
        if (pos + 2 == m.size()) { CNT("class.erase_last"); *pred_out = P_ERASE_LAST; }
        else CNT("class.erase_inner");
        Elem *e = m[pos + 1];
        m.erase(m.begin() + pos + 1);
        in.kill(e);
        break;
    }
    case POP_F: {
        void *r;
        LIB(r = cstl_slist_pop_front(l));
        TRACE("%s L%d.pop_front -> %s", in.tag, li, r ? "elem" : "NULL");
        if (obs) obs->push_back(r ? 1 : 0);
        if (m.empty()) {
            CNT("class.pop_empty");
            CHECK(r == nullptr, "C13.pop_front.empty", "pop_front on an empty list returned non-NULL");
        } else {
            CHECK(r == m.front(), "C13.pop_front.ret", "pop_front returned a pointer that is not the first element");
            Elem *e = m.front();
            m.erase(m.begin());
            in.kill(e);
            if (m.empty()) *pred_out = P_POP_EMPTY;
        }
        break;
    }
    case REVERSE:
        LIB(cstl_slist_reverse(l));
        std::reverse(m.begin(), m.end());
        TRACE("%s L%d.reverse (n=%zu)", in.tag, li, m.size());
        *pred_out = P_REVERSE;
        break;
    case SORT: {
        g_cmp_priv_expected = &in;
        g_cmp_mag = (b >> 1) & 3;
        LIB(cstl_slist_sort(l, (b & 1) ? cmp_desc : cmp_asc, &in));
        TRACE("%s L%d.sort %s (n=%zu)", in.tag, li, (b & 1) ? "desc" : "asc", m.size());
        // sort need not be stable: take the order from the list itself, but
        // demand an ordered permutation of the same elements
        VisitCtx vc{&in, {}, m.size() + 1, 0, 0, false};
        int rv;
        LIB(rv = cstl_slist_foreach(l, visit_cb, &vc));
        (void)rv;
        CHECK(!vc.overflow && vc.seen.size() == m.size(), "C13.sort.perm", "sort changed the number of elements (%zu -> %zu%s)",
              m.size(), vc.seen.size(), vc.overflow ? "+" : "");
        {
            std::vector<Elem *> x = vc.seen, y = m;
            std::sort(x.begin(), x.end());
            std::sort(y.begin(), y.end());
            CHECK(x == y, "C13.sort.perm", "sort result is not a permutation of the same elements");
            for (size_t i = 1; i < vc.seen.size(); i++) {
                int d = vc.seen[i - 1]->key - vc.seen[i]->key;
                if (b & 1) d = -d;
                CHECK(d <= 0, "C13.sort.order", "sort result out of order at %zu", i);
            }
        }
        m = vc.seen;
        *pred_out = P_SORT;
        break;
    }
    case CONCAT: {
        if (in.nlists < 2) { CNT("noop.concat"); TRACE("concat noop"); return; }
        int si = (li + 1 + (b % (in.nlists - 1))) % in.nlists;
        if (in.off[li] != in.off[si]) { CNT("noop.concat_mixed_offsets"); TRACE("concat noop (the two lists link different members)"); return; }
        LIB(cstl_slist_concat(l, &in.sl[si]));
        TRACE("%s L%d.concat L%d (%zu += %zu)", in.tag, li, si, m.size(), in.model[si].size());
        m.insert(m.end(), in.model[si].begin(), in.model[si].end());
        in.model[si].clear();
        *pred_out = P_CONCAT;
        break;
    }
    case SWAP: {
        if (in.nlists < 2) {
            // "over one or more lists": with one list the only swap there is exchanges the list with itself; the
            // reference sequence stays what it was, and push_back must still append after the true last element
            TRACE("%s L%d.swap L%d (itself, %zu)", in.tag, li, li, m.size());
            LIB(cstl_slist_swap(l, l));
            CNT(m.empty() ? "class.swap.self_empty" : "class.swap.self_nonempty");
            *pred_out = P_SWAP;
            break;
        }
        int si = (li + 1 + (b % (in.nlists - 1))) % in.nlists;
        LIB(cstl_slist_swap(l, &in.sl[si]));
        TRACE("%s L%d.swap L%d (%zu <-> %zu)", in.tag, li, si, m.size(), in.model[si].size());
        m.swap(in.model[si]);
        std::swap(in.off[li], in.off[si]);      // the list objects exchange everything, the member they link included
        if (in.off[li] != in.off[si]) CNT("class.swap.mixed_offsets");
        *pred_out = P_SWAP;
        break;
    }
    case FOREACH_STOP: {
        size_t n = m.empty() ? 0 : 1 + (b >> 2) % m.size();
        int v = 1 + (b & 3) * 1000003 * ((b & 4) ? -1 : 1);
        VisitCtx vc{&in, {}, m.size() + 1, n, v, false};
        int rv;
        LIB(rv = cstl_slist_foreach(l, visit_cb, &vc));
        TRACE("%s L%d.foreach stop@%zu val=%d -> %d", in.tag, li, n, v, rv);
        if (obs) { obs->push_back(rv); obs->push_back((long)vc.seen.size()); }
        CHECK(!vc.overflow, "C13.foreach.stop", "foreach visited more elements than the list holds");
        if (n == 0) CHECK(rv == 0 && vc.seen.empty(), "C13.foreach.stop", "foreach on empty list visited something");
        else {
            CHECK(rv == v, "C13.foreach.stop", "foreach returned %d, visitor stopped with %d", rv, v);
            CHECK(vc.seen.size() == n, "C13.foreach.stop", "foreach made %zu visits, expected stop at %zu", vc.seen.size(), n);
            for (size_t i = 0; i < n; i++) CHECK(vc.seen[i] == m[i], "C13.foreach.stop", "foreach prefix differs at %zu", i);
        }
        break;
    }
    case CLEAR: {
        std::unordered_set<Elem *> expect(m.begin(), m.end());
        ClearCtx cc{&in, &expect, 0, false};
        g_clear_ctx = &cc;
        size_t n = m.size();
        m.clear();
        LIB(cstl_slist_clear(l, clear_cb));
        g_clear_ctx = nullptr;
        TRACE("%s L%d.clear (n=%zu) callbacks=%zu", in.tag, li, n, cc.calls);
        in.clear_calls += cc.calls;
        CHECK(!cc.bad, "C15.slist.once", "clear callback received an element twice or an object that is not in the list");
        CHECK(cc.calls == n, "C15.slist.once", "clear made %zu callbacks for %zu elements", cc.calls, n);
        size_t sz;
        LIB(sz = cstl_slist_size(l));
        CHECK(sz == 0, g_prop == "C15" ? "C15.slist.empty" : "C13.size", "size %zu after clear", sz);
        if (n >= 3) cx.nt_clear3 = true;
        break;
    }
    case AUDIT:
        TRACE("%s audit L%d=%s", in.tag, li, seq_str(m).c_str());
        break;
    }
    audit(in, li, obs, pfx);
    if ((op == CONCAT || op == SWAP) && in.nlists >= 2) {
        int si = (li + 1 + (b % (in.nlists - 1))) % in.nlists;
        audit(in, si, obs, pfx);
    }
}

Inst A, B;
} // namespace

void vf_run(const uint8_t *data, size_t len)
{
    A.destroy();
    B.destroy();
    Cursor cur(data, len);
    int nl = 1 + cur.u8() % 3;
    int K = KEYS[cur.u8() % 5];
    size_t maxlive = MAXLIVE[cur.u8() % 8];
    int prof = cur.u8() % NPROFILES;
    uint8_t flags = cur.u8();
    bool auto_pb = flags & 1;
    bool mixed = (flags & 2) && nl >= 2;
    CaseCtx cx{};
    cx.c15 = g_prop == "C15";
    A.init("A", nl, mixed);
    B.init("B", nl, mixed);
    bool twin = false;          // C15: after the first clear every op also runs on a fresh twin
    std::vector<uint8_t> tab;
    for (int o = 0; o < NOPS; o++) for (int k = 0; k < PROFILES[prof][o]; k++) tab.push_back((uint8_t)o);
    TRACE("header lists=%d keys=%d maxlive=%zu profile=%d auto_push_back=%d", nl, K, maxlive, prof, (int)auto_pb);
    Pred last_pred = P_NONE;
    bool pending_pb_audit = false;
    size_t nops = 0;
    bool state_marked = false;
    const bool scale = cur.remaining() / 3 > 5000;
    g_sparse_skip = false;
    while (cur.remaining() >= 3) {
        uint8_t o = cur.u8(), a = cur.u8(), b = cur.u8();
        if (o == 0xFE) {                // MARK: state snapshot for G1 before the trailer
            if (g_want_state) { g_state = peek_state(A); state_marked = true; }
            continue;
        }
        int op = tab[o % tab.size()];
        nops++;
        g_sparse_skip = scale && (nops % 2048) != 0;
        Pred pred = P_NONE;
        Obs oa, ob;
        bool first_clear = cx.c15 && op == CLEAR && !twin;
        bool okA = true, okB = true;
        if (twin || first_clear) okA = model_ok([&] { apply(A, cx, op, a, b, K, maxlive, &oa, &pred); });
        else apply(A, cx, op, a, b, K, maxlive, nullptr, &pred);
        if (first_clear) {
            // from now on compare against a freshly initialised twin. Only the cleared list is
            // empty; the twin's other lists are rebuilt from the model. The state right after the
            // clear is compared too (a stale tail / count shows here or at the next push).
            twin = true;
            B.next_id = A.next_id;
            for (int i = 0; i < nl; i++) {
                if (B.off[i] != A.off[i]) { B.off[i] = A.off[i]; cstl_slist_init(&B.sl[i], B.off[i]); }   // (swaps moved the offsets around)
                for (Elem *e : A.model[i]) {
                    Elem *t = B.mk(e->key);
                    t->id = e->id;
                    if ((size_t)t->id >= B.keyof.size()) B.keyof.resize(t->id + 1);
                    B.keyof[t->id] = e->key;
                    LIB(cstl_slist_push_back(&B.sl[i], t));
                    B.model[i].push_back(t);
                }
            }
            B.next_id = A.next_id;
            TRACE("twin B created (fresh list, other lists rebuilt)");
            okB = model_ok([&] { audit(B, a % nl, &ob, "C13"); });
        } else if (twin) {
            Pred p2;
            okB = model_ok([&] { apply(B, cx, op, a, b, K, maxlive, &ob, &p2); });
            cx.nt_reuse = true;
        }
        if (twin) {
            CHECK(okA == okB, "C15.slist.reuse", "after clear the list %s the list model where a freshly initialised one %s (op %s)",
                  okA ? "satisfies" : "violates", okB ? "satisfies it" : "does not", OPN[op]);
            if (!okA) throw Abandon{"C13.(cleared list and fresh twin alike)"};
            CHECK(oa == ob, "C15.slist.reuse", "after clear the list behaves differently from a fresh one (op %s)", OPN[op]);
        }
        if (op == PUSH_B && last_pred != P_NONE) {
            cnt_dyn(std::string("class.push_back_after.") + PREDN[last_pred]);
            cx.nt_pushb_after = true;
        }
        last_pred = pred;
        if (auto_pb && pred != P_NONE && A.live() < maxlive) {
            // by construction: push_back right after every structural op
            Pred p3;
            if (!twin) apply(A, cx, PUSH_B, a, (uint8_t)(b * 7 + 1), K, maxlive, nullptr, &p3);
            else {
                Obs o1, o2;
                bool k1 = model_ok([&] { apply(A, cx, PUSH_B, a, (uint8_t)(b * 7 + 1), K, maxlive, &o1, &p3); });
                bool k2 = model_ok([&] { apply(B, cx, PUSH_B, a, (uint8_t)(b * 7 + 1), K, maxlive, &o2, &p3); });
                CHECK(k1 == k2, "C15.slist.reuse", "after clear the list %s the list model where a freshly initialised one %s (push_back)",
                      k1 ? "satisfies" : "violates", k2 ? "satisfies it" : "does not");
                if (!k1) throw Abandon{"C13.(cleared list and fresh twin alike)"};
                CHECK(o1 == o2, "C15.slist.reuse", "after clear the list behaves differently from a fresh one (push_back)");
            }
            cnt_dyn(std::string("class.push_back_after.") + PREDN[pred]);
            cx.nt_pushb_after = true;
            last_pred = P_NONE;
        }
        (void)pending_pb_audit;
    }
    g_sparse_skip = false;
    if (scale && !twin) {
        // epilogue of a scale run: the O(n) operations on a list of ~10^5 elements, each followed by push_back + audit
        Pred p;
        for (int op2 : {(int)REVERSE, (int)PUSH_B, (int)SORT, (int)PUSH_B, (int)ERASE_AFTER, (int)PUSH_B})
            apply(A, cx, op2, 0, op2 == ERASE_AFTER ? 250 : 3, K, maxlive, nullptr, &p);
        if (nl > 1) { apply(A, cx, CONCAT, 0, 0, K, maxlive, nullptr, &p); apply(A, cx, PUSH_B, 0, 1, K, maxlive, nullptr, &p); apply(A, cx, SWAP, 0, 0, K, maxlive, nullptr, &p); apply(A, cx, PUSH_B, 1, 1, K, maxlive, nullptr, &p); }
        CNT("class.scale_run");
    }
    // final audit of every list
    g_cur_op = "final audit";
    for (int i = 0; i < nl; i++) audit(A, i, nullptr, "C13");
    if (g_want_state && !state_marked) g_state = peek_state(A);
    // teardown: clear everything through the library with the freeing callback
    for (int i = 0; i < nl; i++) {
        Pred p;
        apply(A, cx, CLEAR, (uint8_t)i, 0, K, maxlive, nullptr, &p);
        if (twin) apply(B, cx, CLEAR, (uint8_t)i, 0, K, maxlive, nullptr, &p);
    }
    CHECK(A.all.empty(), "C15.slist.once", "%zu elements were never handed to the clear callback", A.all.size());
    if (cx.c15) g_nontrivial = cx.nt_clear3 && cx.nt_reuse;
    else g_nontrivial = cx.nt_pushb_after && nops >= 3;
    CNTN("ops", nops);
}

void vf_gen(Rng &r, std::vector<uint8_t> &out)
{
    bool c15 = g_prop == "C15";
    out.push_back(r.byte());                     // lists
    out.push_back(r.byte());                     // keys
    out.push_back(r.chance(3, 4) ? 0 : r.byte()); // max live: mostly unbounded
    if (c15) out.push_back(r.chance(1, 2) ? 5 : r.byte());
    else out.push_back(r.byte());                // profile
    out.push_back((uint8_t)((r.byte() & ~2) | (r.chance(1, 4) ? 2 : 0)));     // flags: auto push_back, mixed node offsets (1 in 4)
    size_t n = r.chance(2, 3) ? 1 + r.below(12) : 1 + r.below(200);
    if (!c15 && r.chance(1, 30000)) { n = 70000 + r.below(70000); out[2] = 0; out[3] = 6; out[4] = 0; }   // scale run
    for (size_t i = 0; i < n; i++) { out.push_back(r.byte() % 251); out.push_back(r.byte()); out.push_back(r.byte()); }
}

bool vf_scope(const std::string &name, Scope &s)
{
    // name: "<lists>:<keys idx>:<maxlive idx>:<mode>"  mode: closure | seq<depth> ; optional ":c15"
    int nl = 1, ki = 0, mi = 3, depth = 5;
    char mode[32] = "closure";
    sscanf(name.c_str(), "%d:%d:%d:%31s", &nl, &ki, &mi, mode);
    bool c15 = g_prop == "C15";
    s.header = {(uint8_t)(nl - 1), (uint8_t)ki, (uint8_t)mi, 0, 0};
    int K = KEYS[ki % 5];
    int npos = (int)std::min<size_t>(MAXLIVE[mi % 8], 8);
    if (!strncmp(mode, "seq", 3)) npos = std::min(npos, std::max(2, atoi(mode + 3)));
    for (int op = 0; op < NOPS; op++) {
        if (op == AUDIT) continue;
        if (c15 && (op == CLEAR || op == FOREACH_STOP)) continue;
        if ((op == CONCAT || op == SWAP) && nl < 2) continue;
        for (int li = 0; li < nl; li++) {
            std::vector<int> bs;
            switch (op) {
            case PUSH_F: case PUSH_B: for (int k = 0; k < K; k++) bs.push_back(k); break;
            // every position relative to the tail: positions are taken modulo the list's length, so up to the scope's
            // maximum length (an unpruned sequence of depth d cannot build more than d elements)
            case INSERT_AFTER: for (int pos = 0; pos < npos; pos++) bs.push_back((pos << 3) | 0); break;
            case ERASE_AFTER: for (int pos = 0; pos < npos - 1 || pos < 1; pos++) bs.push_back(pos); break;
            case SORT: bs = {0, 1, 2, 4 | 1}; break;      // asc, desc, asc with +-2e9 results, desc with +-1
            case CONCAT: case SWAP: for (int k = 0; k < nl - 1; k++) bs.push_back(k); break;
            case FOREACH_STOP: bs = {0, 4 | 1}; break;
            default: bs = {0};
            }
            for (int b : bs) {
                s.alphabet.push_back({(uint8_t)op, (uint8_t)li, (uint8_t)b});
                s.names.push_back(OPN[op]);
            }
        }
    }
    if (!strncmp(mode, "seq", 3)) { s.prune = false; depth = atoi(mode + 3); s.max_depth = depth; }
    if (c15) {
        // every reachable state gets: clear, then a reuse script on the cleared list and a fresh twin
        s.trailer = {0xFE, 0, 0, CLEAR, 0, 0, PUSH_B, 0, 1, PUSH_F, 0, 0, INSERT_AFTER, 0, 8, PUSH_B, 0, 2,
                     ERASE_AFTER, 0, 1, REVERSE, 0, 0, POP_F, 0, 0, PUSH_B, 0, 1, SORT, 0, 0, CLEAR, 0, 0, PUSH_B, 0, 0};
    }
    return true;
}

int vf_custom(int, char **) { fprintf(stderr, "unknown engine\n"); return 2; }
