/*
 * C09 / red team round 2, change 1: demonstration.
 *
 * A vector is grown by one element with cstl_vector_reserve().  When the C
 * library can extend the block where it is (the ordinary case for glibc when
 * the request still fits the chunk, and for every shrinking realloc), the data
 * pointer does not change.  The elements of the vector must then still keep
 * their bytes across sort/reverse ("elements that stay in range keep their
 * bytes"); reverse must yield the mirrored sequence.
 *
 * Built WITHOUT a sanitizer on purpose: ASan's realloc never returns the block
 * it was given, so the situation does not exist there.
 */
#include <stdio.h>
#include <stdlib.h>
#include <string.h>

#include "cstl/vector.h"

static int int_cmp(const void * a, const void * b, void * p)
{
    (void)p;
    return (*(const int *)a > *(const int *)b) - (*(const int *)a < *(const int *)b);
}

int main(void)
{
    size_t n;
    int tried = 0;

    for (n = 4; n < 200; n++) {
        DECLARE_CSTL_VECTOR(v, int);
        void * before;
        size_t i;
        int bad = 0;

        cstl_vector_resize(&v, n);
        for (i = 0; i < n; i++) {
            *(int *)cstl_vector_at(&v, i) = (int)i;
        }
        before = cstl_vector_data(&v);

        /* room for one more element */
        cstl_vector_reserve(&v, n + 1);
        if (cstl_vector_capacity(&v) < n + 1) {
            printf("FAIL: reserve(%zu) did not grow the capacity\n", n + 1);
            return 1;
        }
        if (cstl_vector_data(&v) != before) {
            /* the allocator moved the block; look for a size it can extend */
            cstl_vector_clear(&v);
            continue;
        }
        tried = 1;

        cstl_vector_resize(&v, n + 1);
        *(int *)cstl_vector_at(&v, n) = (int)n;

        /* [0 .. n] reversed must be [n .. 0] */
        cstl_vector_reverse(&v);
        for (i = 0; i <= n; i++) {
            const int got = *(int *)cstl_vector_at(&v, i);
            if (got != (int)(n - i)) {
                printf("FAIL: after reserve(%zu) extended the block in place, "
                       "reverse() left element %zu = %d, expected %d\n",
                       n + 1, i, got, (int)(n - i));
                bad = 1;
            }
        }
        if (!bad) {
            /* and sorting must give back a permutation: 0 .. n */
            cstl_vector_sort(&v, int_cmp, NULL);
            for (i = 0; i <= n; i++) {
                const int got = *(int *)cstl_vector_at(&v, i);
                if (got != (int)i) {
                    printf("FAIL: sort() after an in-place growth: "
                           "element %zu = %d, expected %d\n", i, got, (int)i);
                    bad = 1;
                }
            }
        }
        cstl_vector_clear(&v);
        if (bad) {
            return 1;
        }
        break;
    }

    if (!tried) {
        printf("PASS (inconclusive: this allocator never extended a block in place)\n");
        return 0;
    }
    printf("PASS\n");
    return 0;
}
