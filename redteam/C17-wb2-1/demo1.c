/*
 * C17 / red team round 2, change 1
 * "If a caller-supplied hash function ever returns a value of m or more, the
 * operation that invoked it aborts instead of touching memory outside the
 * bucket array."  The program has a SIGABRT handler that logs and returns (a
 * crash reporter): with abort() the process still dies inside the operation.
 */
#include <stdio.h>
#include <stdlib.h>
#include <string.h>
#include <signal.h>
#include <unistd.h>
#include <sys/wait.h>
#include "cstl/hash.h"

struct item { int id; struct cstl_hash_node hn; };

static volatile sig_atomic_t reported;

static void crash_reporter(int sig)
{
    static const char m[] = "  [crash reporter] SIGABRT seen, state logged\n";
    ssize_t r = write(2, m, sizeof(m) - 1);
    (void)r; (void)sig;
    reported = 1;
    /* returns: abort() terminates the process all the same */
}

static size_t broken_hash(size_t k, size_t m)
{
    return k == 1000 ? m : k % m;      /* out of range for one key */
}

static int child(int which)
{
    DECLARE_CSTL_HASH(h, struct item, hn);
    struct item a, b;
    struct sigaction sa;

    memset(&sa, 0, sizeof(sa));
    sa.sa_handler = crash_reporter;
    sigemptyset(&sa.sa_mask);
    sigaction(SIGABRT, &sa, NULL);

    cstl_hash_resize(&h, 4, broken_hash);
    a.id = 1; b.id = 2;
    cstl_hash_insert(&h, 1, &a);
    if (which == 0) {
        cstl_hash_insert(&h, 1000, &b);         /* must not return */
    } else {
        (void)cstl_hash_find(&h, 1000, NULL, NULL);   /* must not return */
    }
    /* reached only if the operation went on with bucket index 4 of 4 */
    _exit(reported ? 3 : 4);
}

static int run(int which, const char * what)
{
    int st;
    pid_t p = fork();
    if (p == 0) child(which);
    if (p < 0 || waitpid(p, &st, 0) != p) { printf("FAIL: cannot run child\n"); return 1; }
    if (WIFSIGNALED(st) && WTERMSIG(st) == SIGABRT) {
        printf("ok: %s with an out-of-range hash result ended in SIGABRT\n", what);
        return 0;
    }
    if (WIFEXITED(st) && (WEXITSTATUS(st) == 3 || WEXITSTATUS(st) == 4)) {
        printf("FAIL: %s RETURNED although the hash function returned m = 4 for a 4-bucket table%s;"
               " it went on to use bucket 4, outside the bucket array\n", what,
               WEXITSTATUS(st) == 3 ? " (SIGABRT was raised, the handler returned, the operation continued)" : "");
        return 1;
    }
    printf("FAIL: %s ended with status 0x%x instead of SIGABRT\n", what, st);
    return 1;
}

int main(void)
{
    int bad = 0;
    bad |= run(0, "cstl_hash_insert");
    bad |= run(1, "cstl_hash_find");
    if (bad) return 1;
    printf("PASS\n");
    return 0;
}
