/*
 * C17 demo 1: "If a caller-supplied hash function ever returns a value of m or
 * more, the operation that invoked it aborts instead of touching memory outside
 * the bucket array."
 *
 * A table starts life with the library's default hash function
 * (cstl_hash_resize(h, n, NULL) -> cstl_hash_mul) and is later switched to the
 * application's own function with another cstl_hash_resize(). The application's
 * function has an off-by-one (k % (m + 1)), so for some keys it returns m.
 * Each scenario runs in a child process; the guarantee holds iff the child is
 * killed by SIGABRT inside the operation that received the bad value.
 */
#include <stdio.h>
#include <stdlib.h>
#include <signal.h>
#include <unistd.h>
#include <sys/wait.h>
#include "cstl/hash.h"

struct item { int v; struct cstl_hash_node hn; };

static size_t app_hash(const size_t k, const size_t m)
{
    return k % (m + 1);         /* bug: can return m */
}

static struct item items[8];

/* returns 0 when the child died by SIGABRT, 1 otherwise (and says why) */
static int expect_abort(const char * what, void (*scenario)(void))
{
    int st;
    pid_t pid;

    fflush(stdout);
    pid = fork();
    if (pid == 0) {
        scenario();
        _exit(0);
    }
    waitpid(pid, &st, 0);
    if (WIFSIGNALED(st) && WTERMSIG(st) == SIGABRT) return 0;
    if (WIFSIGNALED(st))
        printf("FAIL: %s: killed by signal %d instead of aborting\n", what, WTERMSIG(st));
    else
        printf("FAIL: %s: the hash function returned m and the operation returned normally "
               "(bucket index == bucket count was used)\n", what);
    return 1;
}

static void fill(struct cstl_hash * const h, cstl_hash_func_t * const first)
{
    size_t i;
    cstl_hash_init(h, offsetof(struct item, hn));
    cstl_hash_resize(h, 8, first);
    for (i = 0; i < 8; i++) cstl_hash_insert(h, i, &items[i]);
}

/* table switched from the default function to the application's one: find */
static void scenario_switch_find(void)
{
    struct cstl_hash h;
    fill(&h, NULL);
    cstl_hash_resize(&h, 16, app_hash);     /* incremental rehash to (16, app_hash) begins */
    cstl_hash_find(&h, 16, NULL, NULL);     /* app_hash(16, 16) == 16 == m */
}

/* the same, the bad value arrives while an element is relocated by an insert */
static void scenario_switch_insert(void)
{
    static struct item extra;
    struct cstl_hash h;
    size_t i;
    cstl_hash_init(&h, offsetof(struct item, hn));
    cstl_hash_resize(&h, 8, cstl_hash_div);
    for (i = 0; i < 8; i++) cstl_hash_insert(&h, 16 + 17 * i, &items[i]);   /* app_hash(k, 16) == 16 for all of these */
    cstl_hash_resize(&h, 16, app_hash);
    cstl_hash_insert(&h, 1, &extra);        /* cleans buckets: relocates elements through app_hash */
}

/* control: a table that has always used the application's function */
static void scenario_plain(void)
{
    struct cstl_hash h;
    cstl_hash_init(&h, offsetof(struct item, hn));
    cstl_hash_resize(&h, 16, app_hash);
    cstl_hash_find(&h, 16, NULL, NULL);
}

int main(void)
{
    int bad = 0;
    bad |= expect_abort("table created with app_hash, find(16)", scenario_plain);
    bad |= expect_abort("table created with the default hash, switched to app_hash by resize, find(16)", scenario_switch_find);
    bad |= expect_abort("table created with cstl_hash_div, switched to app_hash by resize, insert relocating elements", scenario_switch_insert);
    if (bad) return 1;
    printf("PASS\n");
    return 0;
}
