/*
 * The client's own portability layer (the usual compat/reallocarray.c found in
 * portable programs): strict -std=c99 -D_POSIX_C_SOURCE=199309L does not make
 * <stdlib.h> declare reallocarray(), so the program carries its own.  Like many
 * such wrappers this one never returns NULL: it terminates the program instead.
 */
#include <stdio.h>
#include <stdlib.h>
#include <stdint.h>
#include "compat.h"

unsigned long compat_reallocarray_calls;

void * reallocarray(void * const p, const size_t n, const size_t sz)
{
    void * q;

    compat_reallocarray_calls++;
    if (sz != 0 && n > SIZE_MAX / sz) {
        fprintf(stderr, "out of memory\n");
        exit(3);
    }
    q = realloc(p, n * sz);
    if (q == NULL && n * sz != 0) {
        fprintf(stderr, "out of memory\n");
        exit(3);
    }
    return q;
}
