#!/usr/bin/env python3
"""Sensitivity audit: apply a patch to a scratch copy of /repo, make sure the
pinned suite still passes there, run a check against it and report whether the
check raised a VIOLATION.

  tools/audit.py <patch.diff> <PROP>[,<PROP>...] [quick|thorough] [--expect-green]
"""
import sys, os, subprocess, shutil, tempfile, time, re
V = os.path.dirname(os.path.dirname(os.path.abspath(__file__)))
def main():
    patch, props = sys.argv[1], sys.argv[2].split(',')
    tier = 'quick'
    for a in sys.argv[3:]:
        if a in ('quick', 'thorough'):
            tier = a
    d = tempfile.mkdtemp(prefix='vaudit_', dir='/tmp')
    try:
        for x in ('src', 'include', 'Makefile', 'benches'):
            s = os.path.join('/repo', x)
            if os.path.isdir(s):
                shutil.copytree(s, os.path.join(d, x))
            elif os.path.exists(s):
                shutil.copy(s, d)
        os.makedirs(os.path.join(d, 'build', 'test'), exist_ok=True)
        r = subprocess.run(['patch', '-p1', '-d', d, '-i', os.path.abspath(patch)], capture_output=True, text=True)
        if r.returncode != 0:
            print('AUDIT patch-failed', patch, r.stdout, r.stderr)
            return 2
        r = subprocess.run(['make', '-C', d, 't'], capture_output=True, text=True)
        m = re.search(r'Checks: (\d+), Failures: (\d+), Errors: (\d+)', r.stdout + r.stderr)
        suite = m.group(0) if m else 'suite did not run: ' + (r.stdout + r.stderr)[-300:]
        res = []
        for p in props:
            t0 = time.time()
            env = dict(os.environ, VERIF_REPO=d)
            r = subprocess.run([os.path.join(V, 'vcheck'), 'run', p, '--tier', tier], capture_output=True, text=True, env=env)
            viol = [l for l in r.stdout.splitlines() if l.startswith('VIOLATION') or l.strip().startswith('clause=')]
            res.append('%s: rc=%d %s (%.0fs)' % (p, r.returncode, ' | '.join(viol) if viol else r.stdout.strip().splitlines()[-1:] , time.time() - t0))
            if '--verbose' in sys.argv:
                print(r.stderr[-3000:])
        print('AUDIT %s  suite[%s]' % (os.path.basename(patch), suite))
        for x in res:
            print('   ', x)
    finally:
        shutil.rmtree(d, ignore_errors=True)
if __name__ == '__main__':
    sys.exit(main())
