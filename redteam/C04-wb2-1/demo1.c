/*
 * C04 demo 1: a foreach callback that looks up ANOTHER element of the same
 * table with cstl_hash_find() (read-only use of the table: every employee
 * looks up its manager).  The rehash has been completed, nothing is erased,
 * so cstl_hash_foreach()/cstl_hash_foreach_const() must call the visit
 * function exactly once for every live element.
 */
#include <stdio.h>
#include <stdlib.h>
#include "cstl/hash.h"

struct employee {
    size_t id, manager;
    int visits, reports;
    struct cstl_hash_node hn;
};

#define N 12
static struct employee emp[N];
static struct cstl_hash h;
static int total;

static int visit(void * const e, void * const p)
{
    struct employee * const w = e;
    struct employee * m;

    (void)p;
    w->visits++;
    if (++total > 10 * N) {
        return -1;              /* runaway enumeration: give up */
    }
    /* read-only lookup of another element of the same table */
    m = cstl_hash_find(&h, w->manager, NULL, NULL);
    if (m != NULL && m != w) {
        m->reports++;
    }
    return 0;
}

static int visit_const(const void * const e, void * const p)
{
    return visit((void *)e, p);
}

static int check(const char * const what, const int rv)
{
    int i, bad = 0, reports = 0;

    for (i = 0; i < N; i++) {
        if (emp[i].visits != 1) {
            printf("  %s: employee %zu visited %d times\n",
                   what, emp[i].id, emp[i].visits);
            bad = 1;
        }
        reports += emp[i].reports;
        emp[i].visits = emp[i].reports = 0;
    }
    if (rv != 0) {
        printf("  %s returned %d, no visit asked to stop\n", what, rv);
        bad = 1;
    }
    if (!bad && reports != N - 3) {
        printf("  %s: %d reports counted, expected %d\n", what, reports, N - 3);
        bad = 1;
    }
    total = 0;
    return bad;
}

int main(void)
{
    int i, bad = 0, rv;

    cstl_hash_init(&h, offsetof(struct employee, hn));
    /* few buckets, so that chains hold several elements */
    cstl_hash_resize(&h, 3, cstl_hash_div);
    for (i = 0; i < N; i++) {
        emp[i].id = 100 + i;
        /* three teams: everybody reports to the colleague hired three ids earlier, the first three to themselves */
        emp[i].manager = (i >= 3) ? 100 + i - 3 : 100 + i;
        cstl_hash_insert(&h, emp[i].id, &emp[i]);
    }
    cstl_hash_rehash(&h);       /* nothing pending */

    rv = cstl_hash_foreach(&h, visit, NULL);
    bad |= check("cstl_hash_foreach", rv);

    rv = cstl_hash_foreach_const(&h, visit_const, NULL);
    bad |= check("cstl_hash_foreach_const", rv);

    cstl_hash_clear(&h, NULL);
    if (bad) {
        printf("FAIL: enumeration did not visit every live element exactly once "
               "(the callback only called cstl_hash_find)\n");
        return 1;
    }
    printf("PASS\n");
    return 0;
}
