/* a client module that keeps a name -> record map */
#ifndef DEMO_REGISTRY_H
#define DEMO_REGISTRY_H

#include "cstl/map.h"

struct registry { cstl_map_t by_name; };
void registry_init(struct registry * r);
size_t registry_count(const struct registry * r);

#endif
