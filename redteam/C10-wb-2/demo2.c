/* C10 / wave 5, change 2: erase() with a count that reaches past the end, on the
 * library as `make b` ships it (-O2 -DNDEBUG).
 *
 * "a count that reaches past the end, however large and including the all-ones
 *  value used to mean 'to the end', is truncated to the characters available"
 * "A position beyond the end aborts as documented"
 *
 * Each scenario runs in a forked child so that a crash is reported instead of
 * taking the demo down.
 */
#include <stdio.h>
#include <stdlib.h>
#include <stdint.h>
#include <string.h>
#include <signal.h>
#include <unistd.h>
#include <wchar.h>
#include <sys/types.h>
#include <sys/wait.h>
#include "cstl/string.h"

static int scen_to_the_end(void)
{
    DECLARE_CSTL_STRING(string, s);
    cstl_string_set_str(&s, "hello world");
    cstl_string_erase(&s, 5, SIZE_MAX);                 /* "everything from 5 on" */
    if (cstl_string_size(&s) != 5 || strcmp(cstl_string_str(&s), "hello") != 0) {
        printf("  erase(5, SIZE_MAX) on \"hello world\": size %zu, str \"%s\" (reference: 5, \"hello\")\n",
               cstl_string_size(&s), cstl_string_str(&s));
        return 2;
    }
    cstl_string_clear(&s);
    return 0;
}

static int scen_wide_to_the_end(void)
{
    DECLARE_CSTL_STRING(wstring, w);
    cstl_wstring_set_str(&w, L"abcdef");
    cstl_wstring_erase(&w, 2, (size_t)-1);
    if (cstl_wstring_size(&w) != 2 || wcscmp(cstl_wstring_str(&w), L"ab") != 0) {
        printf("  wide erase(2, (size_t)-1) on L\"abcdef\": size %zu, str L\"%ls\" (reference: 2, L\"ab\")\n",
               cstl_wstring_size(&w), cstl_wstring_str(&w));
        return 2;
    }
    cstl_wstring_clear(&w);
    return 0;
}

static int scen_count_past_end(void)
{
    /* the library's own unit test: "abc".erase(1, 12) == "a" */
    DECLARE_CSTL_STRING(string, s);
    cstl_string_set_str(&s, "abc");
    cstl_string_erase(&s, 1, 12);
    if (cstl_string_size(&s) != 1 || strcmp(cstl_string_str(&s), "a") != 0) {
        printf("  erase(1, 12) on \"abc\": size %zu (reference: 1, \"a\")\n", cstl_string_size(&s));
        return 2;
    }
    cstl_string_clear(&s);
    return 0;
}

static int scen_pos_beyond_end(void)
{
    /* must abort: position 7 in a 3-character string */
    DECLARE_CSTL_STRING(string, s);
    cstl_string_set_str(&s, "abc");
    cstl_string_erase(&s, 7, 0);
    printf("  erase(7, 0) on \"abc\" returned (size now %zu) instead of aborting\n", cstl_string_size(&s));
    return 2;
}

/* returns 0 when the scenario behaved as the property says */
static int run(const char * name, int (*fn)(void), int want_abort)
{
    int st;
    pid_t pid;
    fflush(stdout);
    pid = fork();
    if (pid == 0) {
        int r = fn();
        fflush(stdout);
        _exit(r);
    }
    waitpid(pid, &st, 0);
    if (want_abort) {
        if (WIFSIGNALED(st) && WTERMSIG(st) == SIGABRT) return 0;
        printf("FAIL: %s: expected abort()\n", name);
        return 1;
    }
    if (WIFSIGNALED(st)) {
        printf("FAIL: %s: killed by signal %d (%s)\n", name, WTERMSIG(st),
               WTERMSIG(st) == SIGSEGV ? "SIGSEGV: wrote/read outside the string's storage" :
               WTERMSIG(st) == SIGABRT ? "SIGABRT: aborted although the position is in range" : "?");
        return 1;
    }
    if (WEXITSTATUS(st) != 0) {
        printf("FAIL: %s: result differs from the reference string\n", name);
        return 1;
    }
    return 0;
}

int main(void)
{
    int bad = 0;
    bad += run("erase(pos, SIZE_MAX) narrow", scen_to_the_end, 0);
    bad += run("erase(pos, (size_t)-1) wide", scen_wide_to_the_end, 0);
    bad += run("erase(1, 12) on \"abc\"", scen_count_past_end, 0);
    bad += run("erase(7, 0) on \"abc\"", scen_pos_beyond_end, 1);
    if (bad) {
        printf("FAIL (%d of 4 scenarios)\n", bad);
        return 1;
    }
    printf("PASS\n");
    return 0;
}
