/*
 * C13 / red team round 2, change 1: demonstration.
 *
 * "traversal yields exactly the reference sequence": a traversal whose visit
 * function itself traverses the same list (all pairs of elements: duplicate
 * detection, nearest neighbour, ...) only reads the list.  The outer traversal
 * must still visit every element, in order, and each inner traversal must too.
 */
#include <stdio.h>
#include <stddef.h>

#include "cstl/slist.h"

struct item
{
    int v;
    struct cstl_slist_node node;
};

#define N 5

struct ctx
{
    struct cstl_slist * l;
    int outer[N + 1], nouter;
    int inner_visits;
    int dup_pairs;
    const struct item * cur;
};

static int inner(void * e, void * p)
{
    struct ctx * c = p;
    const struct item * it = e;

    c->inner_visits++;
    if (it != c->cur && it->v == c->cur->v) {
        c->dup_pairs++;
    }
    return 0;
}

static int outer(void * e, void * p)
{
    struct ctx * c = p;

    if (c->nouter <= N) {
        c->outer[c->nouter] = ((struct item *)e)->v;
    }
    c->nouter++;
    c->cur = e;
    /* compare this element with every element of the same list */
    return cstl_slist_foreach(c->l, inner, c);
}

int main(void)
{
    static const int ref[N] = { 3, 1, 4, 1, 5 };
    DECLARE_CSTL_SLIST(l, struct item, node);
    struct item it[N];
    struct ctx c = { 0 };
    int i, rv, bad = 0;

    for (i = 0; i < N; i++) {
        it[i].v = ref[i];
        cstl_slist_push_back(&l, &it[i]);
    }

    c.l = &l;
    rv = cstl_slist_foreach(&l, outer, &c);

    if (rv != 0) {
        printf("FAIL: foreach returned %d although every visit returned 0\n", rv);
        bad = 1;
    }
    if (c.nouter != N) {
        printf("FAIL: the outer traversal of a %d-element list made %d visits\n", N, c.nouter);
        bad = 1;
    }
    for (i = 0; i < N && i < c.nouter; i++) {
        if (c.outer[i] != ref[i]) {
            printf("FAIL: outer traversal position %d yields %d, reference %d\n", i, c.outer[i], ref[i]);
            bad = 1;
        }
    }
    if (c.inner_visits != N * N) {
        printf("FAIL: the nested traversals made %d visits in all, expected %d\n", c.inner_visits, N * N);
        bad = 1;
    }
    if (c.dup_pairs != 2) {
        printf("FAIL: found %d ordered pairs of equal values, the list holds 2\n", c.dup_pairs);
        bad = 1;
    }

    /* the list itself must be untouched */
    if (cstl_slist_size(&l) != N || cstl_slist_front(&l) != &it[0] || cstl_slist_back(&l) != &it[N - 1]) {
        printf("FAIL: size/front/back changed by read-only traversals\n");
        bad = 1;
    }

    if (bad) {
        return 1;
    }
    printf("PASS\n");
    return 0;
}
