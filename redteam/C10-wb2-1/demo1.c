/*
 * C10 / red team round 2, change 1 -- demonstration
 *
 * Property: after set / insert / append the characters reported through size,
 * at and str equal those of a reference string given the same edits.
 *
 * The edits below hand the library ordinary nul-terminated C strings of 17..60
 * characters (narrow and wide) through set_str, insert_str and append_str and
 * compare the result with what the C library produces for the same edit.
 */
#include <stdio.h>
#include <stdlib.h>
#include <string.h>
#include <wchar.h>

#include "cstl/string.h"

static int bad;

static void check_n(const char * what, const struct cstl_string * s, const char * want)
{
    const size_t n = strlen(want);
    if (cstl_string_size(s) != n
        || memcmp(cstl_string_str(s), want, n) != 0
        || cstl_string_str(s)[cstl_string_size(s)] != '\0') {
        printf("  narrow %s:\n    got  \"%s\" (size %zu)\n    want \"%s\" (size %zu)\n",
               what, cstl_string_str(s), cstl_string_size(s), want, n);
        bad = 1;
    }
}

static void check_w(const char * what, const struct cstl_wstring * s, const wchar_t * want)
{
    const size_t n = wcslen(want);
    if (cstl_wstring_size(s) != n
        || wmemcmp(cstl_wstring_str(s), want, n) != 0
        || cstl_wstring_str(s)[cstl_wstring_size(s)] != L'\0') {
        printf("  wide %s:\n    got  \"%ls\" (size %zu)\n    want \"%ls\" (size %zu)\n",
               what, cstl_wstring_str(s), cstl_wstring_size(s), want, n);
        bad = 1;
    }
}

int main(void)
{
    DECLARE_CSTL_STRING(string, s);
    DECLARE_CSTL_STRING(wstring, w);
    size_t i;

    /* a short one first: everything up to 16 characters */
    cstl_string_set_str(&s, "0123456789abcdef");
    check_n("set_str(16 chars)", &s, "0123456789abcdef");

    /* 17 characters */
    cstl_string_set_str(&s, "0123456789abcdefg");
    check_n("set_str(17 chars)", &s, "0123456789abcdefg");

    /* a path name */
    cstl_string_set_str(&s, "/usr/share/doc/libcstl/examples/README.txt");
    check_n("set_str(path)", &s, "/usr/share/doc/libcstl/examples/README.txt");

    /* insert in the middle */
    cstl_string_set_str(&s, "<>");
    cstl_string_insert_str(&s, 1, "the quick brown fox jumps");
    check_n("insert_str(1, 25 chars) into \"<>\"", &s, "<the quick brown fox jumps>");

    /* append */
    cstl_string_set_str(&s, "log: ");
    cstl_string_append_str(&s, "connection from 192.168.100.200 closed");
    check_n("append_str(38 chars)", &s, "log: connection from 192.168.100.200 closed");

    /* every character still reachable through at() */
    cstl_string_set_str(&s, "abcdefghijklmnopqrstuvwxyz");
    for (i = 0; i < cstl_string_size(&s) && i < 26; i++) {
        if (*cstl_string_at(&s, i) != (char)('a' + i)) {
            printf("  narrow at(%zu) after set_str(alphabet) is '%c', want '%c'\n",
                   i, *cstl_string_at(&s, i), (char)('a' + i));
            bad = 1;
            break;
        }
    }

    /* wide */
    cstl_wstring_set_str(&w, L"0123456789abcdefg");
    check_w("set_str(17 chars)", &w, L"0123456789abcdefg");
    cstl_wstring_set_str(&w, L"<>");
    cstl_wstring_insert_str(&w, 1, L"the quick brown fox jumps");
    check_w("insert_str(1, 25 chars) into \"<>\"", &w, L"<the quick brown fox jumps>");

    cstl_wstring_clear(&w);
    cstl_string_clear(&s);

    if (bad) {
        printf("FAIL: strings built from nul-terminated sources longer than 16 characters do not equal the reference\n");
        return 1;
    }
    printf("PASS\n");
    return 0;
}
