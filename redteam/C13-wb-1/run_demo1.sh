#!/bin/sh
# run from the worktree root: sh _seed/run_demo1.sh
# builds the library exactly as the project ships it (make b: -O2 -DNDEBUG) and links the demo against it
make b >/dev/null 2>&1 || { echo "FAIL: make b failed"; exit 1; }
gcc -std=gnu99 -Iinclude _seed/demo1.c build/libcstl.a -lm -lpthread -o _seed/demo1.bin || { echo "FAIL: demo does not compile"; exit 1; }
# for information only: the same demo against slist.c compiled the way the verification harness compiles it
# (asserts enabled, no -DNDEBUG) -- this line never decides the exit status
if gcc -std=gnu99 -D_POSIX_C_SOURCE=199309L -O1 -g -Iinclude _seed/demo1.c src/slist.c -o _seed/demo1_dbg.bin 2>/dev/null; then
    echo "info: assert-enabled build of the same tree says: $(./_seed/demo1_dbg.bin | tail -1)"
fi
./_seed/demo1.bin
