#!/bin/sh
# run from the worktree root: sh _seed/run_demo2.sh
# builds the library as it is, then the demo (src/memory.c compiled in directly with the
# scheduling hooks of _seed/demo_hooks.h in front of it), runs it: PASS / exit 0, FAIL / exit 1
set -e
make b >/dev/null 2>&1 || { echo "make b failed"; exit 2; }
gcc -std=gnu99 -O1 -g -Iinclude -I_seed -D_POSIX_C_SOURCE=199309L -include _seed/demo_hooks.h \
    -c src/memory.c -o _seed/demo2_memory.o || exit 2
gcc -std=gnu99 -O1 -g -Iinclude -I_seed _seed/demo2.c _seed/demo2_memory.o build/libcstl.a \
    -lm -lpthread -o _seed/demo2.bin || exit 2
set +e
timeout 60 ./_seed/demo2.bin
rc=$?
if [ $rc -eq 124 ]; then echo "FAIL: the demo did not terminate within 60 s (a thread waits forever)"; rc=1; fi
exit $rc
