/*
 * C11 / red team round 2, change 2 -- demo
 *
 * "linear find returns the FIRST index whose element compares equal to
 * the probe, in any array".  The usual way to use that for duplicate
 * detection: element i is a duplicate iff find(&arr[i]) != i.
 * The probe is simply a pointer to an element of the array that is
 * searched (raw array and vector).
 */
#include <stdio.h>
#include <stdlib.h>

#include "cstl/array.h"
#include "cstl/vector.h"

struct item { int key; int serial; };

static int item_cmp(const void * a, const void * b, void * p)
{
    (void)p;
    return ((const struct item *)a)->key - ((const struct item *)b)->key;
}

int main(void)
{
    static const int keys[] = { 30, 10, 30, 20, 10, 40, 30 };
    enum { N = sizeof(keys) / sizeof(keys[0]) };
    struct item arr[N];
    DECLARE_CSTL_VECTOR(v, struct item);
    int i, bad = 0;

    cstl_vector_resize(&v, N);
    for (i = 0; i < N; i++) {
        arr[i].key = keys[i];
        arr[i].serial = i;
        *(struct item *)cstl_vector_at(&v, i) = arr[i];
    }

    for (i = 0; i < N; i++) {
        ssize_t first = 0, r, rv;

        while (keys[first] != keys[i]) {
            first++;
        }
        r = cstl_raw_array_find(arr, N, sizeof(arr[0]), &arr[i], item_cmp, NULL);
        rv = cstl_vector_find(&v, cstl_vector_at(&v, i), item_cmp, NULL);
        if (r != first) {
            printf("FAIL: cstl_raw_array_find(probe = &arr[%d], key %d) returned %zd, "
                   "the first element with that key is at index %zd\n", i, keys[i], r, first);
            bad = 1;
        }
        if (rv != first) {
            printf("FAIL: cstl_vector_find(probe = element %d of the vector, key %d) returned %zd, "
                   "the first element with that key is at index %zd\n", i, keys[i], rv, first);
            bad = 1;
        }
    }
    cstl_vector_clear(&v);

    if (bad) {
        return 1;
    }
    printf("PASS\n");
    return 0;
}
