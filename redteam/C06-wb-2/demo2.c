/*
 * C06 / wave 5, change 2: weak pointer locks racing the last owner of memory
 * that has no clear function (the usual case: cstl_shared_ptr_alloc(sp, n, NULL),
 * every cstl_array).
 *
 * Three threads, each with its own objects, on one allocation:
 *   O   holds the only owning shared pointer and resets it;
 *   L1  locks its weak pointer;
 *   L2  locks its weak pointer.
 * Interleaving (the demo plays the scheduler, see demo_hooks.h):
 *   1. O decrements the owner count to 0 and is preempted just before it
 *      frees the memory;
 *   2. L1 starts its lock, makes its speculative increment (0 -> 1), sees
 *      that there was no owner, and is preempted before it takes the
 *      increment back;
 *   3. L2 locks. With the library as shipped it has to wait for L1 (the demo
 *      lets L1 continue as soon as L2 starts yielding) and then finds no
 *      owner: empty result.
 *   4. O runs again and frees the memory.
 *
 * Guarantee (C06): the memory is freed only when no owner remains, and a lock
 * that yields an owner yields live memory that stays live until that owner is
 * reset.
 */
#include "demo_sched.h"
#include "cstl/memory.h"

static cstl_shared_ptr_t sp_o, sp_1, sp_2;
static cstl_weak_ptr_t wp_1, wp_2;

static void thread_o(void * nil)
{
    cstl_shared_ptr_reset(&sp_o);
    (void)nil;
}

static void thread_l1(void * nil)
{
    cstl_weak_ptr_lock(&wp_1, &sp_1);
    (void)nil;
}

static void thread_l2(void * nil)
{
    cstl_weak_ptr_lock(&wp_2, &sp_2);
    (void)nil;
}

int main(void)
{
    void * mem, * got2;
    int fail = 0, freed_under_owner;

    cstl_shared_ptr_init(&sp_o);
    cstl_shared_ptr_init(&sp_1);
    cstl_shared_ptr_init(&sp_2);
    cstl_weak_ptr_init(&wp_1);
    cstl_weak_ptr_init(&wp_2);

    cstl_shared_ptr_alloc(&sp_o, 128, NULL);
    mem = cstl_shared_ptr_get(&sp_o);
    if (mem == NULL) {
        printf("demo: allocation failed\n");
        return 2;
    }
    memset(mem, 0x5a, 128);
    cstl_weak_ptr_from(&wp_1, &sp_o);
    cstl_weak_ptr_from(&wp_2, &sp_o);

    /* 1. O: decrement done, stopped before free(memory) */
    demo_start(0, thread_o, NULL, DS_FREE, 1);
    demo_wait_paused_or_done(0);
    if (!demo_is_paused(0)) {
        printf("demo: thread O did not stop before the free as expected\n");
        return 2;
    }

    /* 2. L1: speculative increment done, stopped before the decrement that undoes it */
    demo_start(1, thread_l1, NULL, DS_FETCH_SUB, 1);
    demo_wait_paused_or_done(1);
    if (!demo_is_paused(1)) {
        printf("demo: thread L1 did not stop before undoing its increment as expected "
               "(lock returned %p)\n", cstl_shared_ptr_get(&sp_1));
        return 2;
    }

    /* 3. L2 locks; if it has to wait for L1, L1 is allowed to continue */
    demo_start(2, thread_l2, NULL, 0, 0);
    if (!demo_wait_done_or_yields(2, 1)) {
        printf("thread L2 waits for L1 to leave the critical section\n");
        demo_release(1);
        demo_wait_done_or_yields(2, 1L << 40);
    }
    pthread_join(DT[2].tid, NULL);
    got2 = cstl_shared_ptr_get(&sp_2);
    printf("thread L2: lock -> %s\n", got2 != NULL ? "owner" : "empty");
    if (got2 != NULL && got2 != mem) {
        printf("FAIL: the owner obtained by lock points to %p, the memory is %p\n", got2, mem);
        fail = 1;
    }

    /* 4. O continues: the memory is freed */
    demo_join(0);
    freed_under_owner = got2 != NULL && demo_times_freed(mem) > 0;
    if (freed_under_owner) {
        printf("FAIL: thread L2 holds an owning shared pointer obtained by cstl_weak_ptr_lock(), "
               "and the memory it owns has just been freed by thread O (use after free on the "
               "next access; freed %d time(s))\n", demo_times_freed(mem));
        fail = 1;
    }

    demo_join(1);
    if (cstl_shared_ptr_get(&sp_1) != NULL) {
        printf("FAIL: thread L1's lock yielded an owner although the last owner was gone\n");
        fail = 1;
    }

    cstl_shared_ptr_reset(&sp_1);
    cstl_shared_ptr_reset(&sp_2);
    cstl_weak_ptr_reset(&wp_1);
    cstl_weak_ptr_reset(&wp_2);

    if (demo_times_freed(mem) != 1) {
        printf("FAIL: the memory was freed %d times\n", demo_times_freed(mem));
        fail = 1;
    }
    if (fail) {
        return 1;
    }
    printf("PASS\n");
    return 0;
}
