/*
 * C16 demo 1: whichever of the library's allocations fail while a list is
 * being sorted, the list must still hold exactly the elements it held (and,
 * since sorting has no documented way to fail, hold them in order), stay
 * usable, and nothing may be leaked.
 *
 * Linked with -Wl,--wrap=malloc,--wrap=free: the allocations the LIBRARY makes
 * during cstl_dlist_sort() are numbered, and a chosen subset of them is made
 * to return NULL (every single one, every pair, all of them).
 *
 * prints PASS / exits 0 when the guarantee holds, FAIL / exits 1 otherwise.
 */
#include <stdio.h>
#include <stdlib.h>
#include <stddef.h>
#include <string.h>

#include "cstl/dlist.h"

void * __real_malloc(size_t);
void __real_free(void *);

static int armed;               /* inside the library call under test */
static unsigned fail_mask;      /* bit k set: the k-th allocation fails */
static unsigned nalloc;         /* allocations requested during the call */
static unsigned nfailed;
static long live;               /* blocks obtained minus blocks given back */

void * __wrap_malloc(size_t sz)
{
    if (armed) {
        const unsigned k = nalloc++;
        if (k < 32 && ((fail_mask >> k) & 1)) {
            nfailed++;
            return NULL;
        }
        live++;
    }
    return __real_malloc(sz);
}

void __wrap_free(void * p)
{
    if (armed && p != NULL) {
        live--;
    }
    __real_free(p);
}

struct item
{
    int key, id;
    struct cstl_dlist_node link;
};

static int item_cmp(const void * const a, const void * const b, void * const p)
{
    (void)p;
    return ((const struct item *)a)->key - ((const struct item *)b)->key;
}

enum { N = 100 };
static struct item items[N];
static int seen[N];
static int count, ordered, last_key;

static int visit(void * const e, void * const p)
{
    const struct item * const it = e;
    (void)p;
    if (it < items || it >= items + N || seen[it->id]) {
        return 1;       /* not one of ours, or presented twice */
    }
    seen[it->id] = 1;
    if (count > 0 && it->key < last_key) {
        ordered = 0;
    }
    last_key = it->key;
    count++;
    return 0;
}

/* one scenario; returns 0 if the guarantee held */
static int scenario(const unsigned mask, const char * const what)
{
    DECLARE_CSTL_DLIST(l, struct item, link);
    struct item extra;
    unsigned x = 12345;
    int i, res;

    for (i = 0; i < N; i++) {
        x = x * 1103515245u + 12345u;
        items[i].key = (int)((x >> 16) % 37);
        items[i].id = i;
        cstl_dlist_push_back(&l, &items[i]);
    }

    fail_mask = mask;
    nalloc = nfailed = 0;
    live = 0;
    armed = 1;
    cstl_dlist_sort(&l, item_cmp, NULL);
    armed = 0;

    memset(seen, 0, sizeof(seen));
    count = 0;
    ordered = 1;
    res = cstl_dlist_foreach(&l, visit, NULL, CSTL_DLIST_FOREACH_DIR_FWD);

    if (cstl_dlist_size(&l) != N || res != 0 || count != N) {
        printf("FAIL: %s (%u of the %u allocations requested by the sort "
               "failed): the list held %d elements before the sort, now "
               "size() says %zu and a traversal reaches %d of them\n",
               what, nfailed, nalloc, N, cstl_dlist_size(&l), count);
        return 1;
    }
    if (!ordered) {
        printf("FAIL: %s: the sort returned but the list is not in order\n",
               what);
        return 1;
    }
    if (live != 0) {
        printf("FAIL: %s: %ld block(s) allocated by the sort were never "
               "freed\n", what, live);
        return 1;
    }

    /* continued use */
    extra.key = -1;
    extra.id = 0;
    cstl_dlist_push_front(&l, &extra);
    if (cstl_dlist_size(&l) != N + 1 || cstl_dlist_front(&l) != &extra
        || cstl_dlist_pop_front(&l) != &extra) {
        printf("FAIL: %s: the list is not usable after the sort\n", what);
        return 1;
    }
    while (cstl_dlist_size(&l) > 0) {
        cstl_dlist_pop_back(&l);
    }

    return 0;
}

int main(void)
{
    char what[96];
    unsigned a, b;
    int bad = 0;

    bad |= scenario(0, "no allocation fails");
    for (a = 0; a < 4 && !bad; a++) {
        snprintf(what, sizeof(what), "allocation #%u of the sort fails", a + 1);
        bad |= scenario(1u << a, what);
    }
    for (a = 0; a < 4 && !bad; a++) {
        for (b = a + 1; b < 4 && !bad; b++) {
            snprintf(what, sizeof(what),
                     "allocations #%u and #%u of the sort fail", a + 1, b + 1);
            bad |= scenario((1u << a) | (1u << b), what);
        }
    }
    if (!bad) {
        bad |= scenario(~0u, "every allocation of the sort fails");
    }

    if (bad) {
        return 1;
    }
    printf("PASS: a %d-element list is intact, sorted and leak-free whichever "
           "allocations fail during cstl_dlist_sort()\n", N);
    return 0;
}
