/*
 * C05 demo 2: re-targeting a pointer that already owns something.
 *
 * A shared pointer that is the last owner of a block is re-targeted with
 * cstl_shared_ptr_alloc(); the new request happens to be for 0 bytes (a
 * computed size, e.g. "n records" with n == 0). The header promises that
 * the pointer "will be reset in preparation for the new allocation": the old
 * block must be cleared and released right there and the pointer must be
 * empty afterwards. The same for a unique pointer.
 */
#include <stdio.h>
#include <string.h>
#include "cstl/memory.h"

static int cleared;
static void * cleared_ptr;
static void on_clear(void * const mem, void * const priv)
{
    (void)priv;
    cleared++;
    cleared_ptr = mem;
}

struct rec { int a, b; };

static size_t bytes_for(const size_t nrec)
{
    return nrec * sizeof(struct rec);
}

int main(void)
{
    DECLARE_CSTL_SHARED_PTR(sp);
    DECLARE_CSTL_WEAK_PTR(wp);
    DECLARE_CSTL_SHARED_PTR(locked);
    DECLARE_CSTL_UNIQUE_PTR(up);
    void * p;

    /* ---- shared ---- */
    cstl_shared_ptr_alloc(&sp, bytes_for(8), on_clear);
    p = cstl_shared_ptr_get(&sp);
    if (p == NULL) {
        printf("FAIL: allocation failed\n");
        return 1;
    }
    memset(p, 0, bytes_for(8));
    cstl_weak_ptr_from(&wp, &sp);

    /* the table shrinks to nothing: re-target the sole owner */
    cstl_shared_ptr_alloc(&sp, bytes_for(0), on_clear);

    if (cleared != 1 || cleared_ptr != p) {
        printf("FAIL: shared pointer was re-targeted but the memory it was "
               "the last owner of was not cleared (clear calls: %d)\n",
               cleared);
        return 1;
    }
    if (cstl_shared_ptr_get(&sp) != NULL) {
        printf("FAIL: re-targeted shared pointer still returns the old block\n");
        return 1;
    }
    cstl_weak_ptr_lock(&wp, &locked);
    if (cstl_shared_ptr_get(&locked) != NULL) {
        printf("FAIL: weak pointer still locks although the last owner "
               "was re-targeted\n");
        return 1;
    }
    cstl_shared_ptr_reset(&locked);
    cstl_weak_ptr_reset(&wp);
    cstl_shared_ptr_reset(&sp);
    if (cleared != 1) {
        printf("FAIL: clear ran %d times for one block\n", cleared);
        return 1;
    }

    /* ---- unique ---- */
    cleared = 0;
    cleared_ptr = NULL;
    cstl_unique_ptr_alloc(&up, bytes_for(8), on_clear, NULL);
    p = cstl_unique_ptr_get(&up);
    if (p == NULL) {
        printf("FAIL: allocation failed\n");
        return 1;
    }
    cstl_unique_ptr_alloc(&up, bytes_for(0), NULL, NULL);
    if (cleared != 1 || cleared_ptr != p) {
        printf("FAIL: unique pointer was re-allocated but its previous "
               "memory was not cleared (clear calls: %d)\n", cleared);
        return 1;
    }
    if (cstl_unique_ptr_get(&up) != NULL) {
        printf("FAIL: re-allocated unique pointer still returns the old block\n");
        return 1;
    }
    cstl_unique_ptr_reset(&up);
    if (cleared != 1) {
        printf("FAIL: clear ran %d times for one block\n", cleared);
        return 1;
    }

    printf("PASS\n");
    return 0;
}
