/*
 * C14 / wave 5, change 2: cstl_array_alloc() with an element count around
 * SIZE_MAX (what `n - 1` yields for n == 0). The buffer plus the library's
 * private header cannot be represented, so the allocation must fail and leave
 * the object empty: size 0, data NULL, every at() aborts.
 * Linked against the library as `make b` builds it (gcc, build/libcstl.a).
 */
#include <stdio.h>
#include <stdint.h>
#include "cstl/array.h"

static int check(const char * what, size_t nm, size_t sz)
{
    DECLARE_CSTL_ARRAY(a);
    int bad = 0;

    cstl_array_alloc(&a, nm, sz);
    if (cstl_array_size(&a) != 0 || cstl_array_data(&a) != NULL) {
        printf("FAIL: alloc(%s, %zu) cannot be satisfied, yet the object reports %zu elements over a %s buffer: "
               "at(i) hands out addresses up to 2^64 bytes past a block of a few bytes\n",
               what, sz, cstl_array_size(&a), cstl_array_data(&a) ? "non-NULL" : "NULL");
        bad = 1;
    }
    /* (the object is deliberately not reset when it is in this state: its header was written past the block) */
    if (!bad) cstl_array_reset(&a);
    return bad;
}

int main(void)
{
    int fails = 0;
    size_t n = 0;

    fails += check("SIZE_MAX [= n - 1 for n == 0]", n - 1, 1);
    fails += check("SIZE_MAX - 8", SIZE_MAX - 8, 1);
    fails += check("SIZE_MAX / 8", SIZE_MAX / 8, 8);
    /* sanity: an ordinary allocation works */
    {
        DECLARE_CSTL_ARRAY(a);
        cstl_array_alloc(&a, 30, sizeof(int));
        if (cstl_array_size(&a) != 30 || cstl_array_at(&a, 29) != (char *)cstl_array_data(&a) + 29 * sizeof(int)) {
            printf("FAIL: alloc(30, 4) broken\n");
            fails++;
        }
        cstl_array_reset(&a);
    }
    if (fails) return 1;
    printf("PASS\n");
    return 0;
}
