// Hash table harness: C03 (lookups exact during incremental rehash), C04
// (enumeration / clear reach every element exactly once, mid-rehash too), C19
// (rehash incremental, bounded, lands where requested), C17b (out-of-range
// hash results abort) and the hash part of C16 (failed bucket allocation is a
// quiet no-op).
#include "common/verif.hpp"
extern "C" {
// hash.h defined cstl_hash_size/load with external linkage before finding F1 was repaired: this harness is linked with
// --allow-multiple-definition (vplans.HARNESS) so that it links whether they are external definitions in the header,
// static inline, or declared in the header and defined in hash.c
#include "cstl/hash.h"
void vf_static_hash(struct cstl_hash *h, size_t off);
}
#include <cmath>
using namespace vf;

const char *vf_harness_name() { return "hash"; }

namespace {

struct Elem {
    int id;
    size_t key;
    int visits;
    struct cstl_hash_node hn;
    struct cstl_hash_node hn2;      // "mixed offsets" cases (header byte 0, bit 7): table T1 links this member
};

// "any hash function" includes one that consults another table (say, an interning table) while it hashes: see hook()
bool g_hreenter;
size_t g_base_live;
struct cstl_hash g_auxh;
Elem g_aux_el[3];
void aux_h_setup()
{
    uint64_t ord0 = g_alloc_ordinal, ff0 = g_fail_from;
    std::vector<uint64_t> fo0;
    fo0.swap(g_fail_ordinals);
    g_fail_from = UINT64_MAX;
    memset(&g_auxh, 0xA5, sizeof g_auxh);
    LIB(cstl_hash_init(&g_auxh, offsetof(Elem, hn)));
    LIB(cstl_hash_resize(&g_auxh, 5, cstl_hash_mul));
    for (int i = 0; i < 3; i++) {
        memset(&g_aux_el[i], 0x5a, sizeof g_aux_el[i]);
        g_aux_el[i].key = 1000001 + 2 * i;
        LIB(cstl_hash_insert(&g_auxh, g_aux_el[i].key, &g_aux_el[i]));
    }
    g_alloc_ordinal = ord0; g_fail_from = ff0; fo0.swap(g_fail_ordinals);
    g_base_live = lib_live_count();
}
void aux_h_lookups(size_t x)
{
    HarnessScope hs;
    CNT("class.hash.reentrant_fn");
    void *r;
    LIB(r = cstl_hash_find(&g_auxh, 1000001 + 2 * (x % 3), nullptr, nullptr));
    CHECK_NOTHROW(r == &g_aux_el[x % 3], "C03.find.iff", "a lookup made from inside the hash function of another table did not find a present key");
    LIB(r = cstl_hash_find(&g_auxh, 2000000 + (x & 0xffff), nullptr, nullptr));
    CHECK_NOTHROW(r == nullptr, "C03.find.iff", "a lookup made from inside the hash function of another table found an absent key");
}

enum Op { RESIZE, REHASH, SHRINK, INS, FIND, FIND_V, ERASE, ERASE_ABSENT, SWAP, FOREACH, FOREACH_ERASE, FOREACH_CONST,
          CLEAR, AUDIT_ALL, NOPS };
const char *OPN[] = {"resize", "rehash", "shrink_to_fit", "insert", "find", "find(visitor)", "erase", "erase_absent", "swap",
                     "foreach", "foreach(erase)", "foreach_const", "clear", "audit_all"};
//                              RS RH SH IN FI FV ER EA SW FE FX FC CL AU
const uint8_t PROFILES[][NOPS] = {
    /* uniform          */ {1, 1, 1, 1, 1, 1, 1, 1, 1, 1, 1, 1, 1, 1},
    /* C03 grow         */ {3, 1, 1, 8, 3, 3, 2, 1, 1, 0, 0, 0, 0, 1},
    /* C03 churn        */ {4, 1, 1, 5, 3, 3, 5, 2, 1, 0, 0, 0, 0, 1},
    /* C03 resize-heavy */ {8, 1, 2, 5, 2, 2, 3, 1, 2, 0, 0, 0, 0, 1},
    /* C04 enumerate    */ {5, 1, 1, 8, 1, 1, 2, 0, 1, 2, 2, 4, 2, 0},
    /* C19              */ {6, 1, 1, 7, 4, 2, 3, 1, 0, 1, 0, 0, 0, 0},
    /* C16              */ {8, 1, 4, 6, 2, 1, 2, 0, 0, 0, 0, 1, 1, 1},
    /* big tables       */ {2, 0, 0, 30, 6, 1, 6, 1, 0, 0, 0, 0, 0, 0},
    /* big tables, C04  */ {2, 0, 0, 40, 4, 0, 5, 0, 0, 1, 2, 1, 0, 0},
};
const int NPROFILES = 9;
const size_t KEYS[] = {1, 2, 3, 4, 8, 16, 64, 1000};
const size_t MAXLIVE[] = {1000000, 2, 3, 4, 5, 6, 8, 12};
const size_t SIZES[] = {1, 2, 3, 4, 5, 6, 7, 8, 11, 13, 16, 17, 24, 0, 32, 64};   // 0 = documented no-op
// the "big tables" profile: bucket counts and element counts in the thousands (index widths, per-op work bounds)
const size_t BIGSIZES[] = {100, 257, 1000, 1024, 1500, 2048, 3000, 4099, 10000, 20000, 50000, 1025, 2047, 1536, 6000, 333};
const int PROFILE_BIG = 7, PROFILE_BIG_C04 = 8;
// keys are small indexes pushed through a transform chosen in the header, so that every width of key is exercised
int g_key_xf;
bool g_big;
size_t key_xf(size_t k)
{
    switch (g_key_xf) {
    default: return k;
    case 1: return k + ((size_t)1 << 32);
    case 2: return k * 7919 + ((size_t)1 << 32);
    case 3: return k * 0x9E3779B97F4A7C15ull;
    case 4: return SIZE_MAX - k;
    case 5: return k << 32;
    case 6: return (k << 20) + ((size_t)1 << 40);
    }
}

// ---------------------------------------------------------------- hash functions
enum { F_MOD, F_MIX, F_ZERO, F_REV, F_DIV, F_MUL, NLOGGED, F_RAWDIV = NLOGGED, F_RAWMUL, F_NULL };
struct LogEnt { int f; size_t k, m; };
std::vector<LogEnt> g_log;
uint64_t g_calls, g_bad_at;
int g_bad_kind;
bool g_bad_delivered;
size_t fn_eval(int id, size_t k, size_t m)
{
    switch (id) {
    default:
    case F_MOD: return k % m;
    case F_MIX: return ((k * 2654435761ull) >> 7) % m;
    case F_ZERO: return 0;
    case F_REV: return m - 1 - k % m;
    case F_DIV: case F_RAWDIV: return cstl_hash_div(k, m);
    case F_MUL: case F_RAWMUL: return cstl_hash_mul(k, m);
    }
}
// "any hash function" includes one that consults another table (say, an interning table) while it hashes. In re-entrant
// cases (header byte 2, bits 7 and 6; not under C17/C19, whose oracles count calls) every call of a logged hash function
// performs a hitting and a missing lookup in a small table of its own, which uses a raw built-in and is set up outside
// the case's fault plan.
size_t hook(int id, size_t k, size_t m)
{
    g_calls++;
    g_log.push_back({id, k, m});
    if (g_hreenter) aux_h_lookups(k);
    if (g_calls == g_bad_at) {
        g_bad_delivered = true;
        // any value of m or more is out of range: the smallest ones, the largest one, and values whose low 32 bits
        // alone would be a valid index
        switch (g_bad_kind) {
        case 0: return m;
        case 1: return m + 1;
        case 2: return SIZE_MAX;
        case 3: return (size_t)1 << 32;
        case 4: return ((size_t)1 << 32) + k % m;
        case 5: return (size_t)1 << 63;
        case 6: return m + ((size_t)1 << 32);
        default: return ((size_t)3 << 32) + 1 % m;
        }
    }
    return fn_eval(id, k, m);
}
template <int ID> size_t hf(size_t k, size_t m) { return hook(ID, k, m); }
cstl_hash_func_t *fn_ptr(int id)
{
    switch (id) {
    case F_MOD: return hf<F_MOD>;
    case F_MIX: return hf<F_MIX>;
    case F_ZERO: return hf<F_ZERO>;
    case F_REV: return hf<F_REV>;
    case F_DIV: return hf<F_DIV>;
    case F_MUL: return hf<F_MUL>;
    case F_RAWDIV: return cstl_hash_div;
    case F_RAWMUL: return cstl_hash_mul;
    default: return nullptr;
    }
}
const char *FN[] = {"mod", "mix", "zero", "rev", "div(logged)", "mul(logged)", "cstl_hash_div", "cstl_hash_mul", "NULL"};

// ---------------------------------------------------------------- table + model
struct Table {
    const char *tag;
    struct cstl_hash h;
    std::map<size_t, std::vector<Elem *>> model;   // key -> live elements
    size_t n;
    // geometry model (what the documentation implies)
    bool has_buckets;       // a resize has been accepted since init/clear
    size_t cap;             // bucket array capacity
    size_t cur_n, tgt_n;    // geometry in effect / requested
    int cur_f, tgt_f;
    bool pending;           // a rehash may still be in progress
    size_t B, keyed_since;  // C19: buckets when the resize was accepted; keyed ops since
    std::map<size_t, size_t> phys;   // C19 (unique keys): key -> physical bucket
    std::unordered_map<const void *, size_t> where;   // live element -> its key
    size_t off;             // which node member this table object links (exchanged by swap)
    void init(const char *t, size_t o = offsetof(Elem, hn))
    {
        tag = t;
        off = o;
        model.clear();
        phys.clear();
        fresh_clear(where);
        n = 0;
        has_buckets = pending = false;
        cap = cur_n = tgt_n = B = keyed_since = 0;
        cur_f = tgt_f = F_NULL;
        memset(&h, 0xA5, sizeof h);      // init must set every field itself
        if ((g_case_hash >> 21) & 1) vf_static_hash(&h, off);       // CSTL_HASH_INITIALIZER instead of cstl_hash_init()
        else cstl_hash_init(&h, off);
    }
};

struct Pool {
    std::vector<Elem *> all;
    std::vector<Elem *> graveyard;   // erased, kept alive for ERASE_ABSENT
    int next_id = 0;
    Elem *mk(size_t key)
    {
        Elem *e = (Elem *)malloc(sizeof *e);
        memset(e, 0x5a, sizeof *e);
        e->id = next_id++;
        e->key = key;
        e->visits = 0;
        all.push_back(e);
        return e;
    }
    void kill(Elem *e)
    {
        auto it = std::find(all.begin(), all.end(), e);
        if (it != all.end()) { *it = all.back(); all.pop_back(); }
        memset(e, 0xDD, sizeof *e);
        free(e);
    }
    void bury(Elem *e)
    {
        graveyard.push_back(e);
        if (graveyard.size() > 4) { kill(graveyard.front()); graveyard.erase(graveyard.begin()); }
    }
    void destroy() { for (Elem *e : all) free(e); all.clear(); graveyard.clear(); next_id = 0; }
};
Pool P;
Table T[2];

bool live_in(Table &t, const void *p, size_t *key = nullptr)
{
    auto it = t.where.find(p);
    if (it == t.where.end()) return false;
    if (key) *key = it->second;
    return true;
}

// ---------------------------------------------------------------- visitors
struct FindCtx {
    Table *t;
    size_t key;
    std::vector<const Elem *> offered;
    size_t accept_at;       // 1-based; 0 = reject all
    bool bad_live, bad_key, dup;
    int accept_val = 1;     // any non-zero value identifies the desired object
};
int find_visit(const void *e, void *p)
{
    FindCtx *c = (FindCtx *)p;
    size_t k;
    if (!live_in(*c->t, e, &k)) { c->bad_live = true; return 0; }
    if (k != c->key) c->bad_key = true;
    for (const Elem *x : c->offered) if (x == e) c->dup = true;
    c->offered.push_back((const Elem *)e);
    if (c->offered.size() > c->t->n + 2) return 1;     // cannot hang
    return c->accept_at && c->offered.size() == c->accept_at ? c->accept_val : 0;
}

struct EachCtx {
    Table *t;
    std::vector<Elem *> seen;
    size_t stop_at;
    int stop_val;
    size_t limit;
    bool overflow, foreign;
    int erase_mask;         // FOREACH_ERASE: erase+free the visited element when its id bit pattern matches
    bool lookups = false;   // the visitor looks other elements up in the same table (only while no rehash is pending: a lookup
                            // during a pending rehash relocates buckets, which no enumeration is promised to survive)
    bool lookup_failed = false;
};
int each_visit(void *e, void *p)
{
    EachCtx *c = (EachCtx *)p;
    if (c->seen.size() >= c->limit) { c->overflow = true; return 99; }
    if (!live_in(*c->t, e)) { c->foreign = true; return 98; }
    c->seen.push_back((Elem *)e);
    if (c->lookups && !c->t->model.empty()) {
        auto it = c->t->model.begin();
        std::advance(it, (c->seen.size() * 7) % c->t->model.size());
        void *r = cstl_hash_find(&c->t->h, it->first, nullptr, nullptr);       // library call from within the visitor
        if (!r || !live_in(*c->t, r)) c->lookup_failed = true;
    }
    if (c->stop_at && c->seen.size() == c->stop_at) return c->stop_val;
    return 0;
}
int each_visit_const(const void *e, void *p) { return each_visit((void *)e, p); }
int each_erase_visit(void *e, void *p)
{
    EachCtx *c = (EachCtx *)p;
    if (c->seen.size() >= c->limit) { c->overflow = true; return 99; }
    size_t key;
    if (!live_in(*c->t, e, &key)) { c->foreign = true; return 98; }
    Elem *el = (Elem *)e;
    c->seen.push_back(el);
    if ((c->erase_mask >> (el->id % 8)) & 1) {
        // the callback erases and frees the element being visited
        cstl_hash_erase(&c->t->h, el);      // library call from within the callback
        HarnessScope hs;
        auto &v = c->t->model[key];
        v.erase(std::find(v.begin(), v.end(), el));
        if (v.empty()) c->t->model.erase(key);
        c->t->phys.erase(key);
        c->t->where.erase(el);
        c->t->n--;
        el->visits = -1;
        P.kill(el);
        c->seen.back() = nullptr;
    }
    return 0;
}
struct ClearCtx { Table *t; std::unordered_set<Elem *> expect; size_t calls; bool bad; };
ClearCtx *g_clear;
void clear_cb(void *e, void *priv)
{
    HarnessScope hs;
    (void)priv;
    ClearCtx *c = g_clear;
    c->calls++;
    auto it = c->expect.find((Elem *)e);
    if (it == c->expect.end()) { c->bad = true; return; }
    c->expect.erase(it);
    P.kill((Elem *)e);
}

// ---------------------------------------------------------------- per-case flags
struct CaseCtx {
    bool c03, c04, c19, c17, c16;
    // C03 non-trivial
    bool ins_pending, erase_pending, resize_pending, dup_find;
    // C04
    bool enum_grow_relocated, enum_shrink;
    // C19
    bool resize_while_pending, four_buckets, grow, shrink;
    // C16
    bool fault_seen;
    size_t ops_after_fault;
    bool aborted;
};
CaseCtx cx;

const char *PF(const char *own, const char *c16) { return cx.c16 ? c16 : own; }

// statistic only (public struct peek): is a rehash pending, and does a bucket beyond the old count hold a node?
bool peek_pending(Table &t) { return t.h.bucket.rh.hash != nullptr; }
bool peek_relocated_beyond(Table &t)
{
    if (!peek_pending(t) || t.h.bucket.rh.count <= t.h.bucket.count) return false;
    for (size_t i = t.h.bucket.count; i < t.h.bucket.rh.count; i++) if (t.h.bucket.at[i].n) return true;
    return false;
}

std::string peek_state(Table &t)
{
    std::string s;
    struct cstl_hash &h = t.h;
    size_t nb = h.bucket.count;
    bool pend = h.bucket.rh.hash != nullptr;
    if (pend && h.bucket.rh.count > nb) nb = h.bucket.rh.count;
    auto fid = [&](cstl_hash_func_t *f) { for (int i = 0; i < F_NULL; i++) if (fn_ptr(i) == f) return i; return 9; };
    char b[128];
    snprintf(b, sizeof b, "c%zu/%zu f%d %s", (size_t)h.bucket.count, (size_t)h.bucket.capacity, fid(h.bucket.hash), pend ? "P" : "-");
    s += b;
    if (pend) { snprintf(b, sizeof b, "rc%zu rf%d cl%zu", (size_t)h.bucket.rh.count, fid(h.bucket.rh.hash), (size_t)h.bucket.rh.clean); s += b; }
    size_t guard = t.n + 2;
    for (size_t i = 0; i < nb && h.bucket.at; i++) {
        s += '|';
        s += (!pend || h.bucket.at[i].cst == h.bucket.cst) ? 'c' : 'd';
        size_t g = guard;
        for (struct cstl_hash_node *n = h.bucket.at[i].n; n && g; n = n->next, g--) { s += (char)('a' + n->key % 26); }
    }
    snprintf(b, sizeof b, "#%zu;", (size_t)h.count);
    s += b;
    return s;
}

// ---------------------------------------------------------------- C19 log oracle
// the log of one keyed op on key k
void c19_keyed(Table &t, size_t k, bool is_insert, bool elem_present_after)
{
    if (!cx.c19) return;
    (void)elem_present_after;
    t.keyed_since++;
    auto is = [&](const LogEnt &e, int f, size_t kk, size_t m) { return e.f == f && e.k == kk && e.m == m; };
    bool finished_pattern = g_log.size() == 1 && is(g_log[0], t.tgt_f, k, t.tgt_n);
    if (!t.pending || t.keyed_since > t.B) {
        CHECK(finished_pattern, "C19.lookup.single",
              "%s keyed op on key %zu made %zu hash calls%s; after the rehash finished exactly one call (k, %zu, %s) is expected%s",
              t.tag, k, g_log.size(), g_log.empty() ? "" : " (first with another geometry/function)", t.tgt_n, FN[t.tgt_f],
              t.pending ? " (more keyed ops than buckets since the resize)" : "");
        if (t.pending) { t.pending = false; t.cur_n = t.tgt_n; t.cur_f = t.tgt_f; CNT("class.c19.finished_by_bound"); }
        if (is_insert) t.phys[k] = fn_eval(t.tgt_f, k, t.tgt_n);
        return;
    }
    if (finished_pattern && !(t.cur_n == t.tgt_n && t.cur_f == t.tgt_f)) {
        // finished earlier than the bound (allowed): from now on single lookups only
        t.pending = false;
        t.cur_n = t.tgt_n;
        t.cur_f = t.tgt_f;
        CNT("class.c19.finished_early");
        if (is_insert) t.phys[k] = fn_eval(t.tgt_f, k, t.tgt_n);
        return;
    }
    // pending: every hash call of this operation must be a lookup of k under the current or the requested
    // geometry, or a relocation of a live element into the requested geometry (order and repetition are
    // not prescribed by the property, so neither is demanded here)
    std::set<size_t> src;
    size_t tgt_k_calls = 0;
    for (size_t i = 0; i < g_log.size(); i++) {
        const LogEnt &e = g_log[i];
        if (is(e, t.cur_f, k, t.cur_n) && !(t.cur_f == t.tgt_f && t.cur_n == t.tgt_n)) continue;   // lookup, current geometry
        CHECK(e.f == t.tgt_f && e.m == t.tgt_n, "C19.log.pattern",
              "%s keyed op on key %zu while a rehash is pending made a hash call (%zu, %zu, %s) that is neither a lookup of the key nor a relocation into the requested geometry (%zu, %s)",
              t.tag, k, e.k, e.m, FN[e.f], t.tgt_n, FN[t.tgt_f]);
        if (e.k == k) { tgt_k_calls++; continue; }      // lookup under the requested geometry (or k's own relocation, below)
        auto it = t.phys.find(e.k);
        CHECK(it != t.phys.end(), "C19.log.pattern", "%s relocation call for key %zu which is not in the table", t.tag, e.k);
        src.insert(it->second);
    }
    if (tgt_k_calls >= 2 && t.phys.count(k)) src.insert(t.phys[k]);     // k's own element was relocated as well
    CHECK(src.size() <= 3, "C19.relocate.three", "%s one keyed op relocated the contents of %zu buckets (at most 3 allowed)", t.tag, src.size());
    if (src.size() == 3) CNT("class.c19.relocated3");
    for (size_t i = 0; i < g_log.size(); i++) {
        const LogEnt &e = g_log[i];
        if (e.f == t.tgt_f && e.m == t.tgt_n && t.phys.count(e.k) && (e.k != k || tgt_k_calls >= 2)) t.phys[e.k] = fn_eval(t.tgt_f, e.k, t.tgt_n);
    }
    if (is_insert) t.phys[k] = fn_eval(t.tgt_f, k, t.tgt_n);
    CNT("class.c19.keyed_while_pending");
}
// an operation that forces the rehash to completion (rehash, foreach, accepted resize, shrink_to_fit)
void c19_forced(Table &t)
{
    if (!cx.c19) return;
    for (auto &e : g_log) {
        CHECK(e.f == t.tgt_f && e.m == t.tgt_n && t.phys.count(e.k), "C19.log.pattern",
              "%s forced completion made a hash call (%zu,%zu,%s) that is not a relocation into the requested geometry (%zu,%s)", t.tag, e.k, e.m,
              FN[e.f], t.tgt_n, FN[t.tgt_f]);
        t.phys[e.k] = fn_eval(t.tgt_f, e.k, t.tgt_n);
    }
}

// ---------------------------------------------------------------- ops
void audit_all(Table &t, size_t K)
{
    // reject-all find per key: the offered set must equal the model's set. Keys = every live key plus every
    // key of a small universe (so that absent keys are probed too)
    std::vector<size_t> keys;
    for (auto &kv : t.model) keys.push_back(kv.first);
    if (K <= 64) for (size_t i = 0; i < K; i++) if (!t.model.count(key_xf(i))) keys.push_back(key_xf(i));
    if (K > 64) for (size_t i = 0; i < 8; i++) if (!t.model.count(key_xf(K - 1 - i * 7))) keys.push_back(key_xf(K - 1 - i * 7));
    if (keys.size() > 3000) keys.resize(3000);
    for (size_t k : keys) {
        FindCtx fc{&t, k, {}, 0, false, false, false};
        void *r;
        g_log.clear();
        LIB(r = cstl_hash_find(&t.h, k, find_visit, &fc));
        c19_keyed(t, k, false, false);
        CHECK(!fc.bad_live, "C03.find.offered_live", "%s find(%zu) offered an object that is not a live element", t.tag, k);
        CHECK(!fc.bad_key, "C03.find.offered_key", "%s find(%zu) offered an element with another key", t.tag, k);
        CHECK(!fc.dup, "C03.find.offered_once", "%s find(%zu) offered the same element twice", t.tag, k);
        size_t want = t.model.count(k) ? t.model[k].size() : 0;
        CHECK(fc.offered.size() == want, "C03.find.offered_all", "%s find(%zu) with a rejecting visitor offered %zu elements, %zu are live", t.tag, k,
              fc.offered.size(), want);
        CHECK(r == nullptr, "C03.find.reject", "%s find(%zu) returned an element although the visitor rejected all", t.tag, k);
    }
}

void after_op(Table &t)
{
    size_t sz;
    LIB(sz = cstl_hash_size(&t.h));
    CHECK(sz == t.n, PF("C03.size", "C16.hash.size"), "%s size %zu, reference %zu", t.tag, sz, t.n);
}

// returns false when the op was a no-op
bool apply(int op, uint8_t a, uint8_t b, uint8_t c, int ntab, size_t K, size_t maxlive)
{
    Table &t = T[a % ntab];
    g_cur_op = OPN[op];
    g_log.clear();
    if (g_replay_mode == 1) TRACE("> %s %s %u %u", t.tag, OPN[op], b, c);
    bool keyed = op == INS || op == FIND || op == FIND_V || op == ERASE || op == ERASE_ABSENT || op == AUDIT_ALL;
    if (keyed && !t.has_buckets) { CNT("noop.no_buckets"); TRACE("%s %s noop (table never resized)", t.tag, OPN[op]); return false; }
    bool was_pending_peek = peek_pending(t);
    uint64_t f0 = alloc_failures();
    switch (op) {
    case RESIZE: {
        size_t n = g_big ? BIGSIZES[b % 16] : SIZES[b % 16];
        if (cx.c19 || cx.c17) { if (n == 0) n = 9; }
        int f = c % (F_NULL + 1);
        // C19 needs every call logged. C17 delivers its out-of-range value through the logging wrappers, but the table's
        // CURRENT function may well be a real built-in (or the default) while the misbehaving one is being moved to:
        // half of the requests keep the raw functions
        bool keep_raw = cx.c17 && (b & 0x40);
        if ((cx.c19 || cx.c17) && !keep_raw && (f == F_RAWDIV || f == F_RAWMUL)) f -= 2;      // logged variants only
        if ((cx.c19 || cx.c17) && !keep_raw && f == F_NULL && !t.has_buckets) f = F_MUL;      // the default would be unlogged
        bool grows_cap = n > t.cap;
        if (was_pending_peek && t.has_buckets) { cx.resize_pending = true; CNT("class.resize.while_pending"); }
        LIB(cstl_hash_resize(&t.h, n, fn_ptr(f)));
        bool failed = alloc_failures() != f0;
        TRACE("%s resize n=%zu f=%s%s", t.tag, n, FN[f], failed ? " [allocation failed]" : "");
        if (n == 0) { CNT("class.resize.zero"); break; }
        bool took_effect_anyway = false;
        // (whether this request needs memory is judged by what happened -- a request was refused during the call -- not by the
        // model's idea of the capacity: a table may keep less, or more, than the largest count it was ever asked for)
        if (failed && !grows_cap) {
            CNT("class.resize.refused_without_model_growth");
            if (t.has_buckets && n == t.tgt_n) throw Abandon{"C16.(a request was refused during a resize that keeps the bucket count: outcome not observable)"};
            grows_cap = true;
        }
        if (grows_cap && failed && t.has_buckets && t.n > 0 && n != t.tgt_n && n <= g_alloc_limit / 16) {
            // a request was refused, yet the table may have found another way: the load tells (it is computed
            // against the requested bucket count as soon as a resize is accepted)
            float ld, took = (float)t.n / (float)n;
            LIB(ld = cstl_hash_load(&t.h));
            took_effect_anyway = std::fabs(ld - took) <= 1e-6f * std::fabs(took);
        }
        if (grows_cap && failed && t.has_buckets && t.n == 0 && n != t.tgt_n && n <= g_alloc_limit / 16) {
            // same question on an EMPTY table, where the load is 0 either way: whether the refused request was followed by one
            // that succeeded cannot be observed through the interface, and the model must not guess (a wrong guess turns into a
            // false alarm at the next load check). The public struct is peeked to pick the branch; if it shows neither the old
            // nor the requested bucket count the case ends here as inconclusive.
            size_t pk = peek_pending(t) ? t.h.bucket.rh.count : t.h.bucket.count;
            if (pk == n) took_effect_anyway = true;
            else if (pk != t.tgt_n) throw Abandon{"C16.(outcome of a resize with a refused request on an empty table is not observable)"};
            CNT("class.resize.refused_on_empty");
        }
        if (grows_cap && failed && !took_effect_anyway) {
            // cannot be satisfied: quietly nothing
            CNT("class.resize.alloc_failed");
            if (t.has_buckets) {
                float ld;
                LIB(ld = cstl_hash_load(&t.h));
                float want = (float)t.n / (float)t.tgt_n;
                CHECK(std::fabs(ld - want) <= 1e-6f * std::fabs(want), "C16.hash.resize.unchanged",
                      "%s load %g after a resize to %zu buckets that could not be satisfied, expected the unchanged %g (%zu elements, %zu buckets)",
                      t.tag, ld, n, want, t.n, t.tgt_n);
            }
            break;
        }
        if (grows_cap && n > t.cap) t.cap = n;
        int eff_f = f != F_NULL ? f : t.tgt_f;
        if (!t.has_buckets) {
            // first resize (or first after clear): takes effect at once
            if (eff_f == F_NULL) eff_f = F_RAWMUL;
            t.has_buckets = true;
            t.cur_n = t.tgt_n = n;
            t.cur_f = t.tgt_f = eff_f;
            t.pending = false;
            CNT("class.resize.first");
        } else if (n != t.tgt_n || (f != F_NULL && f != t.tgt_f)) {
            // accepted: the previous rehash (if any) was forced to completion first
            c19_forced(t);
            if (cx.c19) {
                std::set<size_t> nonempty;
                for (auto &kv : t.phys) nonempty.insert(kv.second);
                if (nonempty.size() >= 4) cx.four_buckets = true;
                if (t.pending) cx.resize_while_pending = true;
            }
            if (n > t.tgt_n) { CNT("class.resize.grow"); cx.grow = true; }
            else if (n < t.tgt_n) { CNT("class.resize.shrink"); cx.shrink = true; }
            else CNT("class.resize.function_only");
            t.cur_n = t.tgt_n;
            t.cur_f = t.tgt_f;
            t.B = t.cur_n;
            t.tgt_n = n;
            t.tgt_f = eff_f;
            t.pending = true;
            t.keyed_since = 0;
        } else CNT("class.resize.same");
        {
            float ld;
            LIB(ld = cstl_hash_load(&t.h));
            float want = (float)t.n / (float)t.tgt_n;
            CHECK(std::fabs(ld - want) <= 1e-6f * std::fabs(want), "C19.load", "%s load %g after resize to %zu buckets with %zu elements, expected %g",
                  t.tag, ld, t.tgt_n, t.n, want);
        }
        break;
    }
    case REHASH:
        LIB(cstl_hash_rehash(&t.h));
        TRACE("%s rehash", t.tag);
        if (t.has_buckets) { c19_forced(t); t.pending = false; t.cur_n = t.tgt_n; t.cur_f = t.tgt_f; }
        break;
    case SHRINK: {
        bool will = t.cap > t.tgt_n && t.has_buckets;
        LIB(cstl_hash_shrink_to_fit(&t.h));
        bool failed = alloc_failures() != f0;
        TRACE("%s shrink_to_fit%s", t.tag, failed ? " [allocation failed]" : "");
        // (whether releasing the excess also completes a pending rehash is not documented: any hash calls must be
        // relocations into the requested geometry, and a completion shows up at the next keyed operation. How much the
        // table had allocated is its own business too -- one that over-allocates has something to release, and a rehash to
        // finish first, where the model's idea of the capacity says there is nothing to do: the log is read in every case)
        c19_forced(t);
        if (will) {
            if (!failed) t.cap = t.tgt_n;
            else CNT("class.shrink.alloc_failed");
        }
        break;
    }
    case INS: {
        size_t k = key_xf(((size_t)(b | (c << 8)) + (g_big ? (size_t)a * 65536 : 0)) % K);
        if (t.n >= maxlive) { CNT("noop.maxlive"); TRACE("%s insert noop", t.tag); return false; }
        if (cx.c19 && t.model.count(k)) { CNT("noop.c19_dup_key"); TRACE("%s insert noop (C19 uses unique keys)", t.tag); return false; }
        Elem *e = P.mk(k);
        LIB(cstl_hash_insert(&t.h, k, e));
        t.model[k].push_back(e);
        t.where[e] = k;
        t.n++;
        if (was_pending_peek) { cx.ins_pending = true; CNT("class.insert.while_pending"); }
        TRACE("%s insert e%d(k%zu) n=%zu", t.tag, e->id, k, t.n);
        c19_keyed(t, k, true, true);
        break;
    }
    case FIND: {
        size_t k = key_xf(((size_t)(b | (c << 8)) + (g_big ? (size_t)a * 65536 : 0)) % K);
        void *r;
        LIB(r = cstl_hash_find(&t.h, k, nullptr, nullptr));
        bool have = t.model.count(k) != 0;
        TRACE("%s find k%zu -> %s", t.tag, k, r ? "elem" : "NULL");
        CHECK((r != nullptr) == have, "C03.find.iff", "%s find(%zu) %s but %s live element has that key", t.tag, k, r ? "returned an element" : "returned NULL",
              have ? "a" : "no");
        if (r) {
            size_t rk;
            CHECK(live_in(t, r, &rk) && rk == k, "C03.find.member", "%s find(%zu) returned a pointer that is not a live element with that key", t.tag, k);
        }
        c19_keyed(t, k, false, false);
        break;
    }
    case FIND_V: {
        size_t k = key_xf((size_t)(b) % K);
        size_t cnt = t.model.count(k) ? t.model[k].size() : 0;
        size_t acc = (c & 1) ? 0 : (cnt ? 1 + (c >> 1) % cnt : 1);
        FindCtx fc{&t, k, {}, acc, false, false, false};
        static const int ACCEPT[] = {1, -5, 1 << 30, 2, -2147483647 - 1, 256, -1, 65536};
        fc.accept_val = ACCEPT[(c >> 4) % 8];
        void *r;
        LIB(r = cstl_hash_find(&t.h, k, find_visit, &fc));
        TRACE("%s find k%zu visitor=%s -> offered %zu, %s", t.tag, k, acc ? "accept-nth" : "reject-all", fc.offered.size(), r ? "elem" : "NULL");
        if (cnt >= 2) { cx.dup_find = true; CNT("class.find.shared_key"); }
        CHECK(!fc.bad_live, "C03.find.offered_live", "%s find(%zu) offered an object that is not a live element", t.tag, k);
        CHECK(!fc.bad_key, "C03.find.offered_key", "%s find(%zu) offered an element with another key", t.tag, k);
        CHECK(!fc.dup, "C03.find.offered_once", "%s find(%zu) offered the same element twice", t.tag, k);
        if (acc == 0 || cnt == 0) {
            CHECK(r == nullptr, "C03.find.reject", "%s find(%zu) returned an element although the visitor accepted none", t.tag, k);
            CHECK(fc.offered.size() == cnt, "C03.find.offered_all", "%s find(%zu) with a rejecting visitor offered %zu elements, %zu are live", t.tag, k,
                  fc.offered.size(), cnt);
        } else {
            CHECK(fc.offered.size() == acc && r == fc.offered.back(), "C03.find.accept", "%s find(%zu) did not return the element the visitor accepted", t.tag, k);
        }
        c19_keyed(t, k, false, false);
        break;
    }
    case ERASE: {
        if (t.n == 0) { CNT("noop.erase_empty"); TRACE("%s erase noop", t.tag); return false; }
        size_t idx = (size_t)(b | (c << 8)) % t.n;
        Elem *e = nullptr;
        for (auto &kv : t.model) { if (idx < kv.second.size()) { e = kv.second[idx]; break; } idx -= kv.second.size(); }
        size_t k = e->key;
        LIB(cstl_hash_erase(&t.h, e));
        auto &v = t.model[k];
        v.erase(std::find(v.begin(), v.end(), e));
        if (v.empty()) t.model.erase(k);
        t.where.erase(e);
        t.n--;
        if (was_pending_peek) { cx.erase_pending = true; CNT("class.erase.while_pending"); }
        TRACE("%s erase e%d(k%zu) n=%zu", t.tag, e->id, k, t.n);
        c19_keyed(t, k, false, false);
        t.phys.erase(k);
        // the erased object must not be found any more (checked by later finds/audits); keep it for ERASE_ABSENT
        P.bury(e);
        break;
    }
    case ERASE_ABSENT: {
        Elem *e = nullptr;
        if (ntab == 2 && (c & 1) && T[(a + 1) % ntab].n > 0 && T[(a + 1) % ntab].off == t.off) {
            // an object that is live, but in the other table (only its key field is read to pick the bucket to search)
            Table &o = T[(a + 1) % ntab];
            size_t idx = (size_t)b % o.n;
            for (auto &kv : o.model) { if (idx < kv.second.size()) { e = kv.second[idx]; break; } idx -= kv.second.size(); }
            CNT("class.erase_absent.other_table");
        }
        if (!e && P.graveyard.empty()) { CNT("noop.erase_absent"); TRACE("%s erase_absent noop", t.tag); return false; }
        if (!e) e = P.graveyard[b % P.graveyard.size()];
        // its node still carries the key it had (the library reads it to pick the bucket)
        size_t k = ((struct cstl_hash_node *)((char *)e + t.off))->key;     // (the member this table links)
        LIB(cstl_hash_erase(&t.h, e));
        TRACE("%s erase of an object that is not in the table (e%d, key field %zu)", t.tag, e->id, k);
        c19_keyed(t, k, false, false);
        break;
    }
    case SWAP: {
        if (ntab < 2) { CNT("noop.swap"); TRACE("swap noop"); return false; }
        Table &o = T[(a + 1) % ntab];
        if (peek_pending(t) || peek_pending(o)) CNT("class.swap.pending");
        LIB(cstl_hash_swap(&t.h, &o.h));
        std::swap(t.model, o.model);
        std::swap(t.off, o.off);            // the table objects exchange everything, the member they link included
        if (t.off != o.off) CNT("class.swap.mixed_offsets");
        std::swap(t.n, o.n);
        std::swap(t.has_buckets, o.has_buckets);
        std::swap(t.cap, o.cap);
        std::swap(t.cur_n, o.cur_n);
        std::swap(t.tgt_n, o.tgt_n);
        std::swap(t.cur_f, o.cur_f);
        std::swap(t.tgt_f, o.tgt_f);
        std::swap(t.pending, o.pending);
        std::swap(t.B, o.B);
        std::swap(t.keyed_since, o.keyed_since);
        std::swap(t.phys, o.phys);
        std::swap(t.where, o.where);
        TRACE("%s swap %s", t.tag, o.tag);
        after_op(o);
        break;
    }
    case FOREACH:
    case FOREACH_CONST: {
        size_t stop = (c & 1) ? (t.n ? 1 + (c >> 1) % t.n : 0) : 0;
        int v = (c & 2) ? -3 : 41 + b;
        EachCtx ec{&t, {}, stop, v, t.n + 1, false, false, 0};
        ec.lookups = !cx.c19 && !cx.c17 && (b & 0x20) && t.n <= 300 && (op == FOREACH || !peek_pending(t));
        if (ec.lookups) CNT("class.enum.visitor_looks_up");
        int rv;
        bool grow_reloc = peek_relocated_beyond(t), pend = peek_pending(t);
        bool shrinkp = pend && t.h.bucket.rh.count < t.h.bucket.count;
        if (op == FOREACH) LIB(rv = cstl_hash_foreach(&t.h, each_visit, &ec));
        else LIB(rv = cstl_hash_foreach_const(&t.h, each_visit_const, &ec));
        TRACE("%s %s stop@%zu -> %d, %zu visits%s", t.tag, OPN[op], stop, rv, ec.seen.size(), pend ? " (rehash pending)" : "");
        if (op == FOREACH_CONST) { if (grow_reloc) { cx.enum_grow_relocated = true; CNT("class.enum.grow_relocated"); } if (shrinkp) { cx.enum_shrink = true; CNT("class.enum.shrink_pending"); } }
        CHECK(!ec.foreign, "C04.visit.live", "%s %s visited an object that is not a live element", t.tag, OPN[op]);
        CHECK(!ec.lookup_failed, "C03.find.iff", "%s a lookup of a live key from inside a %s visitor found nothing", t.tag, OPN[op]);
        CHECK(!ec.overflow, "C04.visit.once", "%s %s made more than %zu visits", t.tag, OPN[op], t.n);
        {
            std::vector<Elem *> s2 = ec.seen;
            std::sort(s2.begin(), s2.end());
            CHECK(std::adjacent_find(s2.begin(), s2.end()) == s2.end(), "C04.visit.once", "%s %s visited an element twice", t.tag, OPN[op]);
        }
        if (stop == 0) {
            CHECK(rv == 0, "C04.visit.ret", "%s %s returned %d although no visit asked to stop", t.tag, OPN[op], rv);
            CHECK(ec.seen.size() == t.n, "C04.visit.all", "%s %s visited %zu of %zu live elements", t.tag, OPN[op], ec.seen.size(), t.n);
        } else {
            CHECK(rv == v, "C04.visit.ret", "%s %s returned %d, the visit function stopped it with %d", t.tag, OPN[op], rv, v);
            CHECK(ec.seen.size() == stop, "C04.visit.stop", "%s %s made %zu visits, stop was requested at %zu", t.tag, OPN[op], ec.seen.size(), stop);
        }
        if (op == FOREACH && t.has_buckets) { c19_forced(t); t.pending = false; t.cur_n = t.tgt_n; t.cur_f = t.tgt_f; }
        break;
    }
    case FOREACH_ERASE: {
        int mask = b | 1 << (c % 8);
        size_t n0 = t.n;
        std::vector<Elem *> before;
        for (auto &kv : t.model) for (Elem *e : kv.second) before.push_back(e);
        size_t expect_erased = 0;
        std::vector<Elem *> keep;     // (ids are read now: erased elements are freed inside the callback)
        for (Elem *e : before) { if ((mask >> (e->id % 8)) & 1) expect_erased++; else keep.push_back(e); }
        EachCtx ec{&t, {}, 0, 0, n0 + 1, false, false, mask};
        int rv;
        LIB(rv = cstl_hash_foreach(&t.h, each_erase_visit, &ec));
        TRACE("%s foreach erasing visited elements with mask %02x -> %d, %zu visits, %zu left", t.tag, mask, rv, ec.seen.size(), t.n);
        CHECK(!ec.foreign, "C04.visit.live", "%s foreach(erase) visited an object that is not a live element", t.tag);
        CHECK(!ec.overflow && ec.seen.size() == n0, "C04.visit.all", "%s foreach(erase) made %zu visits for %zu live elements", t.tag, ec.seen.size(), n0);
        {
            std::vector<Elem *> s2;
            for (Elem *e : ec.seen) if (e) s2.push_back(e);
            std::sort(s2.begin(), s2.end());
            CHECK(std::adjacent_find(s2.begin(), s2.end()) == s2.end(), "C04.visit.once", "%s foreach(erase) visited an element it kept twice", t.tag);
            for (Elem *e : keep) CHECK(std::binary_search(s2.begin(), s2.end(), e), "C04.visit.all", "%s foreach(erase) never visited a live element", t.tag);
            CHECK(keep.size() == s2.size(), "C04.visit.all", "%s foreach(erase) visited %zu kept elements, %zu were live", t.tag, s2.size(), keep.size());
        }
        CHECK(rv == 0, "C04.visit.ret", "%s foreach(erase) returned %d", t.tag, rv);
        CHECK(t.n == n0 - expect_erased, "C04.visit.erase", "%s foreach(erase) left %zu elements, expected %zu", t.tag, t.n, n0 - expect_erased);
        if (t.has_buckets) { t.pending = false; t.cur_n = t.tgt_n; t.cur_f = t.tgt_f; }
        CNT("class.foreach_erase");
        break;
    }
    case CLEAR: {
        ClearCtx cc{&t, {}, 0, false};
        for (auto &kv : t.model) for (Elem *e : kv.second) cc.expect.insert(e);
        size_t n0 = t.n;
        bool with_cb = (c & 3) != 3;               // NULL callback: the caller keeps the elements (freed below by the harness)
        bool grow_reloc = peek_relocated_beyond(t), pend = peek_pending(t);
        bool shrinkp = pend && t.h.bucket.rh.count < t.h.bucket.count;
        g_clear = &cc;
        LIB(cstl_hash_clear(&t.h, with_cb ? clear_cb : nullptr));
        g_clear = nullptr;
        TRACE("%s clear(%s) n=%zu callbacks=%zu%s", t.tag, with_cb ? "cb" : "NULL", n0, cc.calls, pend ? " (rehash pending)" : "");
        if (grow_reloc) { cx.enum_grow_relocated = true; CNT("class.clear.grow_relocated"); }
        if (shrinkp) { cx.enum_shrink = true; CNT("class.clear.shrink_pending"); }
        CHECK(!cc.bad, "C04.clear.once", "%s clear handed an object to the callback twice or one that is not a live element", t.tag);
        if (with_cb) CHECK(cc.calls == n0 && cc.expect.empty(), "C04.clear.all", "%s clear made %zu callbacks for %zu live elements", t.tag, cc.calls, n0);
        else {
            CNT("class.clear.null_callback_nonempty");
            for (const Elem *e : cc.expect) P.kill((Elem *)e);
            cc.expect.clear();
        }
        {
            // every element has been removed: the table is empty (also when no callback was given)
            size_t sz;
            LIB(sz = cstl_hash_size(&t.h));
            CHECK(sz == 0, cx.c04 ? "C04.clear.size" : PF("C03.size", "C16.hash.size"), "%s size %zu after clear of %zu elements", t.tag, sz, n0);
        }
        t.model.clear();
        t.phys.clear();
        fresh_clear(t.where);
        t.n = 0;
        t.has_buckets = t.pending = false;
        t.cap = t.cur_n = t.tgt_n = 0;
        t.cur_f = t.tgt_f = F_NULL;
        break;
    }
    case AUDIT_ALL:
        TRACE("%s audit_all n=%zu", t.tag, t.n);
        audit_all(t, K);
        break;
    }
    after_op(t);
    return true;
}

bool g_applied;     // the last op was not a counted no-op
void run_op(int op, uint8_t a, uint8_t b, uint8_t c, int ntab, size_t K, size_t maxlive)
{
    g_applied = true;
    if (!cx.c17) { g_applied = apply(op, a, b, c, ntab, K, maxlive); return; }
    // C17(b): every library call may be the one that receives the out-of-range value
    bool ab = false;
    g_bad_delivered = false;
    Table &t = T[a % ntab];
    bool pend = peek_pending(t);
    try {
        ab = may_abort([&] { in_lib = in_lib - 1; apply(op, a, b, c, ntab, K, maxlive); in_lib = in_lib + 1; });
    } catch (...) { g_abort_armed = 0; throw; }
    if (g_bad_delivered) {
        if (pend) CNT("class.c17.bad_while_pending"); else CNT("class.c17.bad_plain");
        cnt_dyn(std::string("class.c17.bad_in.") + OPN[op]);
        CHECK(ab, "C17.bad_hash.abort", "hash function returned an out-of-range bucket during %s and the operation returned normally", OPN[op]);
        cx.aborted = true;
    } else {
        CHECK(!ab, "C17.abort.spurious", "%s aborted although every hash result was in range", OPN[op]);
    }
}
} // namespace

void vf_run(const uint8_t *data, size_t len)
{
    P.destroy();
    Cursor cur(data, len);
    memset(&cx, 0, sizeof cx);
    cx.c03 = g_prop == "C03" || g_prop.empty();
    cx.c04 = g_prop == "C04";
    cx.c19 = g_prop == "C19";
    cx.c17 = g_prop == "C17";
    cx.c16 = g_prop == "C16";
    uint8_t hb0 = cur.u8();
    int ntab = 1 + (hb0 & 0x7f) % 2;
    bool mixed = (hb0 & 0x80) && ntab == 2;
    uint8_t kb = cur.u8();
    size_t K = KEYS[kb % 8];
    g_key_xf = (kb / 8) % 8;
    uint8_t mlb = cur.u8();
    size_t maxlive = MAXLIVE[mlb % 8];
    int prof = cur.u8() % NPROFILES;
    g_hreenter = false;
    g_base_live = 0;
    bool want_reenter = (mlb & 0xC0) == 0xC0 && !cx.c17 && !cx.c19 && len < 4000;
    g_big = prof == PROFILE_BIG || prof == PROFILE_BIG_C04;
    if (g_big) { K = 200000; maxlive = 1000000; }
    uint16_t badat = cur.u16();
    g_bad_kind = cur.u8() % 8;
    g_calls = 0;
    g_bad_at = cx.c17 ? 1 + badat % 400 : 0;
    g_bad_delivered = false;
    if (cx.c19 || cx.c17) ntab = 1;
    if (want_reenter && !g_big) { aux_h_setup(); g_hreenter = true; }
    T[0].init("T0");
    T[1].init("T1", mixed ? offsetof(Elem, hn2) : offsetof(Elem, hn));
    std::vector<uint8_t> tab;
    for (int o = 0; o < NOPS; o++) {
        int w = PROFILES[prof][o];
        for (int k = 0; k < w; k++) tab.push_back((uint8_t)o);
    }
    if (tab.empty()) tab.push_back(INS);
    TRACE("header tables=%d keys=%zu maxlive=%zu profile=%d%s", ntab, K, maxlive, prof, cx.c17 ? " (bad hash value armed)" : "");
    if (cx.c17) TRACE("the %llu-th hash call returns %s", (unsigned long long)g_bad_at, g_bad_kind == 0 ? "m" : g_bad_kind == 1 ? "m+1" : g_bad_kind == 2 ? "SIZE_MAX" : "a value >= 2^32 whose low word may be a valid index");
    size_t nops = 0;
    bool marked = false;
    auto snapshot = [&]() {
        g_state.clear();
        for (int i = 0; i < ntab; i++) {
            g_state += peek_state(T[i]);
            if (cx.c19) {
                // the oracle's own memory is part of the state: how many keyed ops the pending rehash has had
                char b[64];
                size_t ks = T[i].keyed_since > T[i].B ? T[i].B + 1 : T[i].keyed_since;
                snprintf(b, sizeof b, "~%d,%zu,%zu,%zu/%d", (int)T[i].pending, T[i].pending ? ks : 0, T[i].pending ? T[i].B : 0, T[i].tgt_n, T[i].tgt_f);
                g_state += b;
            }
        }
    };
    while (cur.remaining() >= 4 && !cx.aborted) {
        uint8_t o = cur.u8(), a = cur.u8(), b = cur.u8(), c = cur.u8();
        if (o == 0xFE) { if (g_want_state) { snapshot(); marked = true; } continue; }
        int op = tab[o % tab.size()];
        // a check only uses the operations whose behaviour its own property governs (attribution):
        // enumeration / clear while a rehash may be pending belong to C04
        bool c04op = op == FOREACH_CONST || op == CLEAR || op == FOREACH_ERASE;
        if ((c04op && !cx.c04 && !g_prop.empty()) || (cx.c19 && (op == SWAP || op == AUDIT_ALL))) {
            CNT("noop.foreign_op");
            continue;
        }
        nops++;
        uint64_t fh = g_faults_hit;
        if (cx.c16) g_ours_after_fault = {"C03", "C04"};     // also for the op that receives the first failure
        run_op(op, a, b, c, ntab, K, maxlive);
        if (cx.fault_seen && g_applied) cx.ops_after_fault++;
        if (g_faults_hit != fh) cx.fault_seen = true;
    }
    if (g_want_state && !marked) snapshot();
    g_cur_op = "teardown";
    if (cx.aborted) {
        // the table that received the bad value is abandoned: nothing is promised about it
        lib_release_all();
        g_nontrivial = true;
        CNTN("ops", nops);
        return;
    }
    g_bad_at = 0;
    for (int i = 0; i < ntab; i++) {
        Table &t = T[i];
        // final audit through keyed lookups, then completion + clear (clear mid-rehash is C04's subject)
        if (t.has_buckets && !cx.c19) audit_all(t, K);
        if (!cx.c04 && !g_prop.empty()) {
            // not C04's check: finish the rehash, erase the elements one by one (keyed ops), free the
            // bucket array with a NULL callback; clear with a callback / mid-rehash is C04's subject
            g_log.clear();
            LIB(cstl_hash_rehash(&t.h));
            std::vector<Elem *> all;
            for (auto &kv : t.model) for (Elem *e : kv.second) all.push_back(e);
            for (Elem *e : all) { LIB(cstl_hash_erase(&t.h, e)); P.kill(e); }
            t.model.clear();
            fresh_clear(t.where);
            t.n = 0;
            after_op(t);
            LIB(cstl_hash_clear(&t.h, nullptr));
            continue;
        }
        ClearCtx cc{&t, {}, 0, false};
        for (auto &kv : t.model) for (Elem *e : kv.second) cc.expect.insert(e);
        size_t n0 = t.n;
        g_clear = &cc;
        LIB(cstl_hash_clear(&t.h, clear_cb));
        g_clear = nullptr;
        CHECK(!cc.bad && cc.calls == n0, "C04.clear.all", "%s final clear made %zu callbacks for %zu live elements", t.tag, cc.calls, n0);
        t.model.clear();
        fresh_clear(t.where);
        t.n = 0;
    }
    CHECK(lib_live_count() == g_base_live, PF("C04.clear.released", "C16.hash.leak"), "clear left %zu library allocations (bucket arrays)", lib_live_count() - g_base_live);
    if (g_hreenter) {
        g_hreenter = false;
        LIB(cstl_hash_clear(&g_auxh, nullptr));
        CHECK(lib_live_count() == 0, "C04.clear.released", "clear of the auxiliary table left %zu library allocations", lib_live_count());
        g_base_live = 0;
    }
    if (cx.c04) g_nontrivial = cx.enum_grow_relocated && cx.enum_shrink;
    else if (cx.c19) g_nontrivial = cx.resize_while_pending && cx.four_buckets && cx.grow && cx.shrink;
    else if (cx.c16) g_nontrivial = g_faults_hit >= 1 && cx.ops_after_fault >= 3;
    else if (cx.c17) g_nontrivial = false;     // the bad value was never delivered
    else g_nontrivial = cx.ins_pending && cx.erase_pending && cx.resize_pending && cx.dup_find;
    CNTN("ops", nops);
}

void vf_gen(Rng &r, std::vector<uint8_t> &out)
{
    bool c04 = g_prop == "C04", c19 = g_prop == "C19", c17 = g_prop == "C17", c16 = g_prop == "C16";
    out.push_back((uint8_t)((r.byte() & 0x7f) | (r.chance(1, 4) ? 0x80 : 0)));     // tables; 1 in 4: the two tables link different node members
    static const uint8_t kw3[] = {0, 1, 2, 3, 4, 4, 5, 5, 6, 7};
    static const uint8_t kw19[] = {4, 5, 5, 6, 6, 7};
    uint8_t kidx = c19 || c17 ? kw19[r.below(sizeof kw19)] : kw3[r.below(sizeof kw3)];
    out.push_back((uint8_t)(kidx + 8 * r.below(8)));       // key universe + key transform (small, >= 2^32, spread over 64 bits, near SIZE_MAX ...)
    out.push_back(r.chance(5, 6) ? 0 : r.byte());
    // rarely: tables with thousands of buckets and elements
    bool big = !c16 && !c17 && r.chance(1, c04 ? 8000 : 20000);
    out.push_back(big ? (uint8_t)(c04 ? PROFILE_BIG_C04 : PROFILE_BIG) : c04 ? 4 : c19 ? 5 : c16 ? 6 : c17 ? (uint8_t)(r.chance(1, 2) ? 5 : 1 + r.below(4)) : (uint8_t)(1 + r.below(3)));
    uint16_t bad = (uint16_t)(r.chance(1, 2) ? r.below(12) : r.below(120));
    out.push_back((uint8_t)bad);
    out.push_back((uint8_t)(bad >> 8));
    out.push_back(r.byte());
    size_t n = big ? (c04 ? 2000 + r.below(5000) : 4000 + r.below(20000)) : c16 ? 6 + r.below(12) : r.chance(1, 2) ? 2 + r.below(30) : r.chance(7, 8) ? 2 + r.below(250) : 2 + r.below(1500);
    // start with a resize so that the table is usable
    out.push_back(RESIZE); out.push_back(0); out.push_back(r.byte()); out.push_back(r.byte());
    for (size_t i = 0; i < n; i++) { out.push_back(r.byte() % 251); out.push_back(r.byte()); out.push_back(r.byte()); out.push_back(r.byte()); }
}

bool vf_scope(const std::string &name, Scope &s)
{
    // "<keys idx>:<maxlive idx>:<sizes csv idx into SIZES>:<funcs csv>[:trailer]"  e.g. "1:2:0,1,2:0,3:fc"
    int ki = 1, mi = 2;
    char sizes[64] = "0,1,2", funcs[64] = "0,3", tr[16] = "";
    sscanf(name.c_str(), "%d:%d:%63[^:]:%63[^:]:%15s", &ki, &mi, sizes, funcs, tr);
    s.header = {0, (uint8_t)ki, (uint8_t)mi, 0, 0, 0, 0};
    auto csv = [](const char *p) { std::vector<int> v; while (*p) { v.push_back(atoi(p)); while (*p && *p != ',') p++; if (*p) p++; } return v; };
    size_t K = KEYS[ki % 8];
    for (int sz : csv(sizes)) for (int f : csv(funcs)) s.alphabet.push_back({RESIZE, 0, (uint8_t)sz, (uint8_t)f});
    for (size_t k = 0; k < K; k++) s.alphabet.push_back({INS, 0, (uint8_t)k, 0});
    for (size_t k = 0; k < K; k++) s.alphabet.push_back({FIND, 0, (uint8_t)k, 0});
    if (g_prop == "C19") for (size_t k = 0; k < K && k < 2; k++) { s.alphabet.push_back({FIND_V, 0, (uint8_t)k, 0}); s.alphabet.push_back({FIND_V, 0, (uint8_t)k, 1}); }   // a find with a visitor is a keyed operation too
    for (size_t i = 0; i < MAXLIVE[mi % 8] && i < 6; i++) s.alphabet.push_back({ERASE, 0, (uint8_t)i, 0});
    s.alphabet.push_back({REHASH, 0, 0, 0});
    s.alphabet.push_back({SHRINK, 0, 0, 0});
    s.alphabet.push_back({ERASE_ABSENT, 0, 0, 0});
    // every reachable state additionally gets (results discarded for the state):
    std::string t = tr;
    if (t == "fc") s.trailer = {0xFE, 0, 0, 0, FOREACH_CONST, 0, 0, 0, FOREACH_CONST, 0, 0, 3};
    else if (t == "fe") s.trailer = {0xFE, 0, 0, 0, FOREACH, 0, 0, 3, FOREACH, 0, 0, 0};
    else if (t == "fx") s.trailer = {0xFE, 0, 0, 0, FOREACH_ERASE, 0, 0x54, 1, AUDIT_ALL, 0, 0, 0};
    else if (t == "cl") s.trailer = {0xFE, 0, 0, 0, CLEAR, 0, 0, 0, RESIZE, 0, 1, 0, INS, 0, 1, 0, INS, 0, 0, 0, FIND, 0, 1, 0, AUDIT_ALL, 0, 0, 0};
    else s.trailer = {0xFE, 0, 0, 0, AUDIT_ALL, 0, 0, 0};
    return true;
}

// ---------------------------------------------------------------- C17(a): the built-in hash functions stay in range
namespace {
struct C17Stats { uint64_t evals = 0, nontrivial = 0; std::vector<std::string> samples; };
void c17_eval(size_t k, size_t m, C17Stats &st)
{
    size_t r = cstl_hash_mul(k, m);
    if (r >= m) {
        g_cur_op = "cstl_hash_mul";
        verif_fail("C17.mul.range", "cstl_hash_mul(%zu, %zu) = %zu is not below the table size", k, m, r);
    }
    size_t d = cstl_hash_div(k, m);
    if (d >= m || d != k % m) {
        g_cur_op = "cstl_hash_div";
        verif_fail("C17.div.range", "cstl_hash_div(%zu, %zu) = %zu, expected %zu", k, m, d, k % m);
    }
    st.evals++;
    if (m >= 2) st.nontrivial++;
}
// the smallest table size that converts to the float F (round-to-nearest-even as the compiler does it)
size_t smallest_m_rounding_to(float F)
{
    long double Fl = F;
    unsigned __int128 hi = Fl >= 18446744073709551616.0L ? (unsigned __int128)SIZE_MAX : (unsigned __int128)Fl;
    float P = nextafterf(F, 0.0f);
    unsigned __int128 lo = (unsigned __int128)(long double)P + 1;      // first integer above the previous float
    while (lo < hi) {
        unsigned __int128 mid = (lo + hi) / 2;
        if ((float)(size_t)mid == F) hi = mid; else lo = mid + 1;
    }
    return (size_t)lo;
}
int engine_c17a(const std::string &mode, const std::string &outdir, const std::string &tag, unsigned part, unsigned nparts, uint64_t seed)
{
    double t0 = now_s();
    C17Stats st;
    g_cur.open(outdir + "/cur-c17a-" + tag + ".case");
    // keys that the function under test itself sends closest to the top of the range (whatever constant and
    // precision it uses): the candidates for a result that rounds up to the table size
    std::vector<size_t> hik;
    {
        std::vector<std::pair<size_t, size_t>> best;
        const size_t M = (size_t)1 << 24;
        for (size_t k = 1; k < (1u << 22); k++) {
            size_t r = cstl_hash_mul(k, M);
            if (r >= M) { g_cur_op = "cstl_hash_mul"; verif_fail("C17.mul.range", "cstl_hash_mul(%zu, %zu) = %zu is not below the table size", k, M, r); }
            if (r >= M - (M >> 9)) best.push_back({r, k});
        }
        std::sort(best.begin(), best.end());
        for (size_t i = 0; i < best.size() && i < 6; i++) hik.push_back(best[best.size() - 1 - i].second);
        while (hik.size() < 6) hik.push_back(hik.empty() ? 377 : hik.back() + 233);
    }
    char sample[256];
    uint64_t table_nt = 0;
    if (mode == "small") {
        // exhaustive: k in [0, 2^20) x m in 1..64 ; k in [2^20, 2^25] x a few m
        for (size_t k = part; k < (1u << 20); k += nparts) for (size_t m = 1; m <= 64; m++) c17_eval(k, m, st);
        static const size_t MS[] = {1, 2, 3, 7, 64, 1000, 4096, 65537, 16777216, 16777217, 16777219};
        for (size_t k = (1u << 20) + part; k <= (1u << 25); k += nparts) for (size_t m : MS) c17_eval(k, m, st);
        // every key below 2^31 (thorough: 2^33) against the table sizes for which ANY fraction rounding up to 1.0 shows: m = 1
        // (result must be 0) and m = 2^24 (largest size that is its own float and whose product still has integer resolution)
        uint64_t kmax = (mode == "small") ? ((uint64_t)1 << 31) : 0;
        for (uint64_t k = (1u << 25) + 1 + part; k < kmax; k += nparts) {
            size_t r = cstl_hash_mul((size_t)k, 1);
            if (r >= 1) { g_cur_op = "cstl_hash_mul"; verif_fail("C17.mul.range", "cstl_hash_mul(%llu, 1) = %zu is not below the table size", (unsigned long long)k, r); }
            st.evals++;
        }
        for (uint64_t k = (1u << 25) + 1 + part; k < ((uint64_t)1 << 29); k += nparts) c17_eval((size_t)k, 16777216, st);
        snprintf(sample, sizeof sample, "exhaustive k in [0,2^20) x m in 1..64, k in [2^20,2^25] x 11 sizes, k < 2^31 x m=1, k < 2^29 x m=2^24 (partition %u/%u)", part, nparts);
    } else if (mode == "grid" || mode == "gridq") {
        // every float value the scale factor (float)m can take, with the smallest m that rounds to it, against the
        // keys with the largest fractional parts and boundary keys. gridq: every 61st value + all values near binade ends
        uint32_t stride = mode == "gridq" ? 61 : 1;
        uint64_t idx = 0;
        static const size_t BK[] = {0, 1, 2, 3, 5, 16777215, 16777216, 16777217, 4294967295ull, 4294967296ull, 9007199254740993ull,
                                    9223372036854775808ull, SIZE_MAX - 1, SIZE_MAX};
        for (float F = 16777216.0f; ; F = nextafterf(F, INFINITY)) {
            bool last = F >= 18446744073709551616.0f;
            uint32_t bits;
            memcpy(&bits, &F, 4);
            bool near_end = (bits & 0x7fffff) < 64 || (bits & 0x7fffff) > 0x7fffff - 64;
            if ((idx % nparts) == part && (stride == 1 || near_end || (idx % stride) == 0)) {
                size_t m = smallest_m_rounding_to(F);
                for (size_t k : hik) c17_eval(k, m, st);
                c17_eval(BK[idx % 14], m, st);
                if (m < SIZE_MAX) c17_eval(hik[0], m + 1, st);
            }
            idx++;
            if (last) break;
        }
        // below 2^24 every table size is its own float: all of them with the high-fraction keys
        for (size_t m = 1 + part; m < (1u << 24); m += nparts * (mode == "gridq" ? 7 : 1)) { c17_eval(hik[0], m, st); c17_eval(hik[1], m, st); }
        snprintf(sample, sizeof sample, "float grid of (float)m from 2^24 to 2^64 (stride %u) with the smallest m rounding to each value, keys %zu %zu %zu ...", stride, hik[0], hik[1], hik[2]);
    } else if (mode == "boundary") {
        std::vector<size_t> ks, ms;
        for (int e = 0; e < 64; e++) for (long long d = -2; d <= 2; d++) { ks.push_back(((size_t)1 << e) + (size_t)d); ms.push_back(((size_t)1 << e) + (size_t)d); }
        for (size_t k : hik) ks.push_back(k);
        ks.push_back(SIZE_MAX); ms.push_back(SIZE_MAX);
        // Fibonacci-hash worst cases: multiples of the golden-ratio denominators
        size_t fa = 1, fb = 2;
        for (int i = 0; i < 88; i++) { ks.push_back(fb); size_t t = fa + fb; fa = fb; fb = t; }
        std::sort(ks.begin(), ks.end()); ks.erase(std::unique(ks.begin(), ks.end()), ks.end());
        std::sort(ms.begin(), ms.end()); ms.erase(std::unique(ms.begin(), ms.end()), ms.end());
        for (size_t k : ks) for (size_t m : ms) if (m >= 1) c17_eval(k, m, st);
        table_nt = st.nontrivial;
        Rng r(mix_seed(seed, part, 17));
        for (uint64_t i = 0; i < 20000000ull / nparts; i++) {
            size_t k = r.next(), m = r.next() >> r.below(64);
            if (m == 0) m = 1;
            c17_eval(k, m, st);
        }
        snprintf(sample, sizeof sample, "boundary keys x boundary sizes (2^e-2..2^e+2, SIZE_MAX, Fibonacci numbers) + random 64-bit pairs");
    } else return 2;
    FILE *f = fopen((outdir + "/stats-c17a-" + tag + ".json").c_str(), "w");
    if (f) {
        fprintf(f, "{\"engine\":\"c17a-%s\",\"harness\":\"hash\",\"prop\":\"C17\",\"evaluations\":%llu,\"nontrivial\":%llu,"
                   "\"distinct_nontrivial\":0,\"distinct_extra\":%llu,\"wall_s\":%.3f,\"exhaustive\":%s,\"counters\":{},"
                   "\"samples\":[{\"ops\":[\"%s\"],\"nontrivial\":true}]}\n",
                mode.c_str(), (unsigned long long)st.evals, (unsigned long long)st.nontrivial,
                (unsigned long long)(mode == "boundary" ? table_nt : st.nontrivial),   // random pairs are not counted as distinct
                now_s() - t0, mode == "boundary" || mode == "gridq" ? "false" : "true", sample);
        fclose(f);
    }
    return 0;
}
} // namespace

int vf_custom(int argc, char **argv)
{
    // c17a <small|grid|gridq|boundary> <outdir> <tag> <part> <nparts> <seed>
    if (argc >= 7 && !strcmp(argv[0], "c17a"))
        return engine_c17a(argv[1], argv[2], argv[3], (unsigned)atoi(argv[4]), (unsigned)atoi(argv[5]), strtoull(argv[6], 0, 0));
    fprintf(stderr, "unknown engine\n");
    return 2;
}
