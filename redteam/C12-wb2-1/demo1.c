/*
 * C12 demo 1: "which entries have a duplicate?"  For every element of the list
 * (outer foreach) the visitor looks through the same list (cstl_dlist_find /
 * an inner cstl_dlist_foreach).  Nothing is modified, so the outer
 * front-to-back traversal must yield exactly the sequence, the back-to-front
 * one its mirror image, and find must return the first match.
 */
#include <stdio.h>
#include <stddef.h>
#include "cstl/dlist.h"

struct item {
    int key;
    int twins;                      /* how many elements carry the same key */
    struct cstl_dlist_node node;
};

static int cmp_item(const void * a, const void * b, void * p)
{
    (void)p;
    return ((const struct item *)a)->key - ((const struct item *)b)->key;
}

struct outer { struct cstl_dlist * l; const struct item * seen[16]; int n; int bad_find; };
struct inner { int key; int count; };

static int count_same(void * e, void * p)
{
    struct inner * const in = p;
    if (((struct item *)e)->key == in->key) {
        in->count++;
    }
    return 0;
}

static int visit_count(void * e, void * p)
{
    struct outer * const o = p;
    struct item * const it = e;
    struct inner in;

    if (o->n < 16) {
        o->seen[o->n] = it;
    }
    o->n++;

    in.key = it->key;
    in.count = 0;
    cstl_dlist_foreach(o->l, count_same, &in, CSTL_DLIST_FOREACH_DIR_FWD);
    it->twins = in.count;
    return 0;
}

static int visit_find(void * e, void * p)
{
    struct outer * const o = p;
    struct item * const it = e;
    struct item * first;

    if (o->n < 16) {
        o->seen[o->n] = it;
    }
    o->n++;
    if (o->n > 20) {
        return 99;                  /* more visits than elements: give up instead of looping for ever */
    }

    /* the last element with this key, searched from the back */
    first = cstl_dlist_find(o->l, it, cmp_item, NULL, CSTL_DLIST_FOREACH_DIR_REV);
    if (first == NULL || first->key != it->key) {
        o->bad_find++;
    }
    return 0;
}

static int fails;
#define EXPECT(c, ...) do { if (!(c)) { fails++; printf("  violated: " __VA_ARGS__); printf("\n"); } } while (0)

int main(void)
{
    static struct item it[5] = { { 3, 0, { 0, 0 } }, { 1, 0, { 0, 0 } }, { 3, 0, { 0, 0 } },
                                 { 2, 0, { 0, 0 } }, { 1, 0, { 0, 0 } } };
    static const int twins[5] = { 2, 2, 2, 1, 2 };
    struct cstl_dlist l;
    struct outer o;
    int i, rv;

    setvbuf(stdout, NULL, _IONBF, 0);
    cstl_dlist_init(&l, offsetof(struct item, node));
    for (i = 0; i < 5; i++) {
        cstl_dlist_push_back(&l, &it[i]);
    }

    /* 1: forward traversal whose visitor runs a complete inner traversal */
    o.l = &l; o.n = 0; o.bad_find = 0;
    rv = cstl_dlist_foreach(&l, visit_count, &o, CSTL_DLIST_FOREACH_DIR_FWD);
    EXPECT(rv == 0, "forward foreach returned %d", rv);
    EXPECT(o.n == 5, "forward traversal made %d visits over 5 elements", o.n);
    for (i = 0; i < 5 && i < o.n; i++) {
        EXPECT(o.seen[i] == &it[i], "forward traversal: visit %d is not element %d", i, i);
    }
    for (i = 0; i < 5; i++) {
        EXPECT(it[i].twins == twins[i], "element %d: %d elements with its key counted, expected %d",
               i, it[i].twins, twins[i]);
    }

    /* 2: backward traversal whose visitor calls cstl_dlist_find on the same list */
    o.n = 0; o.bad_find = 0;
    rv = cstl_dlist_foreach(&l, visit_find, &o, CSTL_DLIST_FOREACH_DIR_REV);
    EXPECT(rv == 0, "backward foreach returned %d", rv);
    EXPECT(o.n == 5, "backward traversal made %d visits over 5 elements", o.n);
    for (i = 0; i < 5 && i < o.n && i < 16; i++) {
        EXPECT(o.seen[i] == &it[4 - i], "backward traversal: visit %d is not element %d", i, 4 - i);
    }
    EXPECT(o.bad_find == 0, "%d finds from inside the visitor returned a wrong element", o.bad_find);

    EXPECT(cstl_dlist_size(&l) == 5, "size %zu", cstl_dlist_size(&l));

    if (fails) {
        printf("FAIL: a traversal whose visitor reads the same list does not yield the sequence "
               "(%d violated expectations)\n", fails);
        return 1;
    }
    printf("PASS\n");
    return 0;
}
