/*
 * C02 demo 1: build a red-black tree with the library exactly as `make b`
 * ships it (build/libcstl.a), insert keys in ascending order, erase a few,
 * and after every insert/erase walk the public node fields and check the
 * rules of rbtree.h: root black, no red node with a red child, equal black
 * count on every root-to-NULL path, child->parent back links, and
 * cstl_rbtree_height max <= 2*log2(n+1).
 */
#include <stdio.h>
#include <stdlib.h>
#include <stddef.h>
#include <math.h>
#include "cstl/rbtree.h"

struct item { int key; struct cstl_rbtree_node rn; };

static int cmp(const void *a, const void *b, void *p)
{
    (void)p;
    return ((const struct item *)a)->key - ((const struct item *)b)->key;
}

static const char *why;
#define NODE_COLOR(bn) \
    (((struct cstl_rbtree_node *)((char *)(bn) - offsetof(struct cstl_rbtree_node, n)))->c)

/* returns black height or -1 */
static int walk(const struct cstl_bintree_node *b, const struct cstl_bintree_node *parent, int parent_red)
{
    int lh, rh, red;
    if (b == NULL) return 1;
    if (b->p != parent) { why = "a child's parent link does not point back at its parent"; return -1; }
    red = NODE_COLOR(b) == CSTL_RBTREE_COLOR_R;
    if (red && parent_red) { why = "a red node has a red child"; return -1; }
    lh = walk(b->l, b, red);
    if (lh < 0) return -1;
    rh = walk(b->r, b, red);
    if (rh < 0) return -1;
    if (lh != rh) { why = "paths below a node cross different numbers of black nodes"; return -1; }
    return lh + (red ? 0 : 1);
}

static int check(struct cstl_rbtree *t, const char *after, int key)
{
    size_t mn, mx, n = cstl_rbtree_size(t);
    why = NULL;
    if (t->t.root != NULL) {
        if (NODE_COLOR(t->t.root) != CSTL_RBTREE_COLOR_B) why = "the root is not black";
        else (void)walk(t->t.root, NULL, 0);
        if (why == NULL) {
            cstl_rbtree_height(t, &mn, &mx);
            if ((double)mx > 2 * log2((double)n + 1) + 1e-9) {
                printf("FAIL: after %s %d: cstl_rbtree_height reports %zu for %zu elements (bound %.2f)\n",
                       after, key, mx, n, 2 * log2((double)n + 1));
                return 1;
            }
        }
    }
    if (why != NULL) {
        printf("FAIL: after %s %d (%zu elements): %s\n", after, key, n, why);
        return 1;
    }
    return 0;
}

int main(void)
{
    enum { N = 1000 };
    static struct item it[N];
    struct cstl_rbtree t;
    int i;

    cstl_rbtree_init(&t, cmp, NULL, offsetof(struct item, rn));
    for (i = 0; i < N; i++) {
        it[i].key = i;
        cstl_rbtree_insert(&t, &it[i], NULL);
        if (check(&t, "insert", i)) return 1;
    }
    for (i = 0; i < N; i += 3) {
        struct item probe;
        probe.key = i;
        if (cstl_rbtree_erase(&t, &probe) != &it[i]) { printf("FAIL: erase %d returned the wrong element\n", i); return 1; }
        if (check(&t, "erase", i)) return 1;
    }
    printf("PASS: red-black rules and height bound held after every one of %d inserts and %d erases\n", N, (N + 2) / 3);
    return 0;
}
