/* C20 / wave 5, change 1: every public function that TRANSFERS a unique pointer
 * must abort when it is handed a bitwise copy.
 *
 * The demo makes a stray copy of an owning unique pointer (struct assignment and
 * memcpy to a heap block) and passes it, as the giving-up side, to every transfer
 * function memory.h offers: cstl_unique_ptr_release, cstl_unique_ptr_swap (both
 * positions) and, when the header has it (run_demo1.sh passes
 * -DHAVE_UNIQUE_PTR_MOVE after looking at include/cstl/memory.h),
 * cstl_unique_ptr_move.  Each call runs in a forked child and must end in SIGABRT.
 */
#include <stdio.h>
#include <stdlib.h>
#include <string.h>
#include <signal.h>
#include <unistd.h>
#include <sys/types.h>
#include <sys/wait.h>
#include "cstl/memory.h"

static int clears;
static void on_clear(void * p, void * priv) { (void)p; (void)priv; clears++; }

static cstl_unique_ptr_t a, b, c;
static cstl_unique_ptr_t * heap;

enum { BY_ASSIGN, BY_MEMCPY };

static cstl_unique_ptr_t * make_stray(int how)
{
    cstl_unique_ptr_init(&a);
    cstl_unique_ptr_init(&b);
    cstl_unique_ptr_init(&c);
    cstl_unique_ptr_alloc(&a, 64, on_clear, NULL);
    if (how == BY_ASSIGN) {
        b = a;                               /* the mistake the guard exists for */
        return &b;
    }
    heap = malloc(sizeof(*heap));
    memcpy(heap, &a, sizeof(a));             /* e.g. an element of a realloc'ed table */
    return heap;
}

static void t_release(cstl_unique_ptr_t * s) { cstl_xtor_func_t * f; void * p; (void)cstl_unique_ptr_release(s, &f, &p); }
static void t_swap0(cstl_unique_ptr_t * s) { cstl_unique_ptr_swap(s, &c); }
static void t_swap1(cstl_unique_ptr_t * s) { cstl_unique_ptr_swap(&c, s); }
#ifdef HAVE_UNIQUE_PTR_MOVE
static void t_move(cstl_unique_ptr_t * s)
{
    cstl_unique_ptr_move(&c, s);
    /* not reached when the guard works */
    printf("  cstl_unique_ptr_move(&c, &copy) returned: the original manages %p and c manages %p\n",
           cstl_unique_ptr_get(&a), cstl_unique_ptr_get(&c));
    cstl_unique_ptr_reset(&c);               /* clears and frees the block ... */
    printf("  after cstl_unique_ptr_reset(&c) (clear function ran %d time) the original still hands out %p: "
           "use-after-free now, double free at its own reset\n", clears, cstl_unique_ptr_get(&a));
}
#endif

static int must_abort(const char * name, void (*fn)(cstl_unique_ptr_t *), int how)
{
    int st;
    pid_t pid;
    fflush(stdout);
    pid = fork();
    if (pid == 0) {
        fn(make_stray(how));
        fflush(stdout);
        _exit(0);
    }
    waitpid(pid, &st, 0);
    if (WIFSIGNALED(st) && WTERMSIG(st) == SIGABRT) {
        return 0;
    }
    printf("FAIL: %s on a %s copy of an owning unique pointer did not abort\n",
           name, how == BY_ASSIGN ? "struct-assignment" : "memcpy");
    return 1;
}

int main(void)
{
    int bad = 0, how;
    for (how = BY_ASSIGN; how <= BY_MEMCPY; how++) {
        bad += must_abort("cstl_unique_ptr_release(COPY)", t_release, how);
        bad += must_abort("cstl_unique_ptr_swap(COPY, c)", t_swap0, how);
        bad += must_abort("cstl_unique_ptr_swap(c, COPY)", t_swap1, how);
#ifdef HAVE_UNIQUE_PTR_MOVE
        bad += must_abort("cstl_unique_ptr_move(c, COPY)", t_move, how);
#endif
    }
    /* the converse: objects moved with the provided functions keep working */
    {
        cstl_unique_ptr_init(&a);
        cstl_unique_ptr_init(&c);
        cstl_unique_ptr_alloc(&a, 64, on_clear, NULL);
        cstl_unique_ptr_swap(&a, &c);
        if (cstl_unique_ptr_get(&c) == NULL || cstl_unique_ptr_get(&a) != NULL) {
            printf("FAIL: swap lost the pointer\n");
            bad++;
        }
#ifdef HAVE_UNIQUE_PTR_MOVE
        cstl_unique_ptr_move(&a, &c);
        if (cstl_unique_ptr_get(&a) == NULL || cstl_unique_ptr_get(&c) != NULL) {
            printf("FAIL: move lost the pointer\n");
            bad++;
        }
#endif
        cstl_unique_ptr_reset(&a);
        cstl_unique_ptr_reset(&c);
    }
    if (bad) {
        printf("FAIL (%d)\n", bad);
        return 1;
    }
    printf("PASS\n");
    return 0;
}
