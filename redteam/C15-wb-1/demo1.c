/*
 * C15 demo 1: clear a singly-linked list with a callback that frees the
 * elements; afterwards the list must be empty, report size 0 and be usable
 * like a freshly initialised one.
 *
 * Built against the library exactly as `make b` ships it (-O2 -DNDEBUG).
 */
#include <stdio.h>
#include <stdlib.h>
#include <string.h>
#include "cstl/slist.h"

struct item {
    int v;
    struct cstl_slist_node hook;
};

static int handed;
static void item_free(void * const e, void * const priv)
{
    (void)priv;
    handed++;
    memset(e, 0xDD, sizeof(struct item));
    free(e);
}

static struct item * item_new(const int v)
{
    struct item * const i = malloc(sizeof(*i));
    i->v = v;
    return i;
}

int main(void)
{
    DECLARE_CSTL_SLIST(l, struct item, hook);
    struct item * it;
    int k;

    for (k = 0; k < 3; k++) {
        cstl_slist_push_back(&l, item_new(k));
    }

    cstl_slist_clear(&l, item_free);

    if (handed != 3) {
        printf("FAIL: clear handed over %d of 3 elements\n", handed);
        return 1;
    }
    if (cstl_slist_size(&l) != 0) {
        printf("FAIL: list reports size %lu after clear (must be 0)\n",
               (unsigned long)cstl_slist_size(&l));
        return 1;
    }
    if (cstl_slist_front(&l) != NULL || cstl_slist_back(&l) != NULL) {
        printf("FAIL: cleared list still has a front/back element\n");
        return 1;
    }

    /* reuse like a fresh list */
    cstl_slist_push_back(&l, item_new(7));
    if (cstl_slist_size(&l) != 1) {
        printf("FAIL: size %lu after one push into the cleared list\n",
               (unsigned long)cstl_slist_size(&l));
        return 1;
    }
    it = cstl_slist_pop_front(&l);
    if (it == NULL || it->v != 7 || cstl_slist_size(&l) != 0) {
        printf("FAIL: cleared list does not give back what was pushed\n");
        return 1;
    }
    free(it);
    if (cstl_slist_pop_front(&l) != NULL) {
        printf("FAIL: pop from the (again) empty list returned an element\n");
        return 1;
    }

    printf("PASS\n");
    return 0;
}
