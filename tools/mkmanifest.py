#!/usr/bin/env python3
"""Regenerate MANIFEST.json from vplans.MANIFEST_INFO (single source of truth)."""
import json, os, sys
V = os.path.dirname(os.path.dirname(os.path.abspath(__file__)))
sys.path.insert(0, V)
import vplans
props = [json.loads(l) for l in open(os.path.join(V, 'properties.jsonl'))]
checks, na = [], []
for p in props:
    pid = p['id']
    info = vplans.MANIFEST_INFO.get(pid)
    if not info:
        na.append(dict(property_id=pid, reason=vplans.NOT_CLAIMED.get(pid, 'check not built yet in this round; planned (DESIGN.md section 5)')))
        continue
    checks.append(dict(
        property_id=pid,
        quick_cmd='./vcheck run %s --tier quick' % pid,
        thorough_cmd='./vcheck run %s --tier thorough' % pid,
        evidence_file='evidence/%s.json' % pid,
        replay_cmd_template='./vcheck replay %s {path}' % pid,
        engine=info['engine'],
        level_claimed=dict(category=info['level'], text=info['text'], design_ref=info['design_ref']),
        level_note=info['note'],
        technique=info['technique'],
    ))
m = dict(
    version=1,
    setup_cmd='./setup.sh',
    hooks=dict(guard='CSTL_VERIF', enable='none needed: no source hooks; observation is by link-time interposition '
               '(--wrap=malloc/realloc/free), SIGABRT trapping, own __assert_fail/rand, shadow <stdatomic.h> include path',
               baseline_off_cmd='make -C /repo t', source_commits=[], add_only=True),
    engines=vplans.ENGINES,
    checks=checks,
    notes='Property-based testing / fuzzing only. One byte-coded case language per container shared by small-scope '
          'enumeration (G1), seeded swarm generation (G2), libFuzzer (G3) and replay. See DESIGN.md.',
    not_applicable=na,
)
json.dump(m, open(os.path.join(V, 'MANIFEST.json'), 'w'), indent=1)
print('MANIFEST.json: %d checks, %d not claimed' % (len(checks), len(na)))
