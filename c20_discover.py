#!/usr/bin/env python3
"""C20, discovered entry points.

The exhaustive table in harness/h_stray.cpp lists the public functions that take a smart pointer or an array
object as they exist today. The property quantifies over EVERY such function, so a function added later must obey
it too. This engine reads the prototypes the headers declare (gcc -aux-info), and for every function that takes a
pointer to one of the five object types and is NOT in the table it generates one client program per such argument
position: the object is set up through the API (owning state), duplicated with memcpy, and the function is called
with the stray copy in that position (fresh valid objects / neutral values for the other arguments). The program
must die with SIGABRT; a normal return is a violation.

Outside (documented in DESIGN.md): pure (re)initialisers -- a name containing `init`, `INITIALIZER` or `_set` -- do
not read the pointer; and what cannot be called generically (a parameter type the generator does not know) is
counted as skipped, never reported.
"""
import os, re, json, time, shutil, subprocess

TYPES = {
    'struct cstl_guarded_ptr': 'guarded',
    'cstl_unique_ptr_t': 'unique',
    'cstl_shared_ptr_t': 'shared',
    'cstl_weak_ptr_t': 'weak',
    'cstl_array_t': 'array',
}
KNOWN = set('''
cstl_guarded_ptr_get cstl_guarded_ptr_get_const cstl_guarded_ptr_copy cstl_guarded_ptr_swap cstl_guarded_ptr_set cstl_guarded_ptr_init
cstl_unique_ptr_init cstl_unique_ptr_get cstl_unique_ptr_get_const cstl_unique_ptr_release cstl_unique_ptr_reset cstl_unique_ptr_alloc cstl_unique_ptr_swap
cstl_shared_ptr_init cstl_shared_ptr_get cstl_shared_ptr_get_const cstl_shared_ptr_unique cstl_shared_ptr_reset cstl_shared_ptr_alloc
cstl_shared_ptr_share cstl_shared_ptr_swap
cstl_weak_ptr_init cstl_weak_ptr_reset cstl_weak_ptr_from cstl_weak_ptr_lock cstl_weak_ptr_swap
cstl_array_init cstl_array_size cstl_array_data cstl_array_data_const cstl_array_at cstl_array_at_const cstl_array_reset cstl_array_alloc
cstl_array_set cstl_array_release cstl_array_slice cstl_array_unslice
'''.split())
SETUP = {
    'guarded': ('struct cstl_guarded_ptr', 'cstl_guarded_ptr_set(&%s, c20_block);'),
    'unique': ('cstl_unique_ptr_t', 'cstl_unique_ptr_init(&%s); cstl_unique_ptr_alloc(&%s, 16, NULL, NULL);'),
    'shared': ('cstl_shared_ptr_t', 'cstl_shared_ptr_init(&%s); cstl_shared_ptr_alloc(&%s, 16, NULL);'),
    'weak': ('cstl_weak_ptr_t', 'cstl_weak_ptr_init(&%s); cstl_weak_ptr_from(&%s, &c20_owner);'),
    'array': ('cstl_array_t', 'cstl_array_init(&%s); cstl_array_alloc(&%s, 4, 4);'),
}
_AUX = re.compile(r'^/\*\s*(.+?):(\d+):([NO][CF])\s*\*/\s*(extern|static)\s+(.*)$')


def _run(cmd, timeout=120, cwd=None):
    try:
        r = subprocess.run(cmd, capture_output=True, text=True, timeout=timeout, cwd=cwd)
        return r.returncode, r.stdout + r.stderr
    except subprocess.TimeoutExpired:
        return 124, 'timeout'


def prototypes(repo, work):
    src = os.path.join(work, 'aux.c')
    aux = os.path.join(work, 'aux.txt')
    with open(src, 'w') as f:
        f.write('#include "cstl/memory.h"\n#include "cstl/array.h"\n')
    rc, out = _run(['gcc', '-std=c99', '-D_POSIX_C_SOURCE=199309L', '-I' + os.path.join(repo, 'include'), '-aux-info', aux, '-fsyntax-only', src])
    if rc != 0 or not os.path.exists(aux):
        return None, out
    inc = os.path.realpath(os.path.join(repo, 'include', 'cstl')) + os.sep
    res, seen = [], set()
    for line in open(aux, errors='replace'):
        m = _AUX.match(line.strip())
        if not m or not os.path.realpath(m.group(1)).startswith(inc):
            continue
        rest = m.group(5).split('; /*')[0]
        nm = re.search(r'([A-Za-z_]\w*)\s*\(', rest)
        if not nm or nm.group(1) in seen:
            continue
        seen.add(nm.group(1))
        # parameter list: text between the parenthesis after the name and its match
        i = rest.index('(', nm.start())
        depth, j = 0, i
        for j in range(i, len(rest)):
            if rest[j] == '(':
                depth += 1
            elif rest[j] == ')':
                depth -= 1
                if depth == 0:
                    break
        params, cur, depth = [], '', 0
        for ch in rest[i + 1:j]:
            if ch == ',' and depth == 0:
                params.append(cur.strip()); cur = ''
            else:
                depth += ch == '('
                depth -= ch == ')'
                cur += ch
        if cur.strip() and cur.strip() != 'void':
            params.append(cur.strip())
        res.append((nm.group(1), rest[:nm.start()].strip(), params, os.path.basename(m.group(1)), int(m.group(2))))
    return res, out


def kind_of(ptype):
    t = re.sub(r'\bconst\b|\brestrict\b|\bvolatile\b', ' ', ptype)
    t = ' '.join(t.split())
    m = re.match(r'^(struct \w+|\w+) \*\s*\w*$', t) or re.match(r'^(struct \w+|\w+)\*\s*\w*$', t)
    return TYPES.get(m.group(1)) if m else None


def neutral(ptype, n):
    """an argument expression for a parameter that is not the object under test; None if unknown"""
    t = ' '.join(re.sub(r'\bconst\b|\brestrict\b|\bvolatile\b', ' ', ptype).split())
    if '(*' in t:
        return 'NULL'                                   # function pointer
    if t.count('*') >= 1:
        return '(void *)c20_scratch%d' % n              # some out-parameter or buffer: 64 zeroed bytes
    if re.match(r'^(unsigned |signed )?(size_t|ssize_t|int|long|long long|short|char|unsigned|bool|_Bool|uint\w+|int\w+)( int)?\s*\w*$', t):
        return '1'
    return None


def program(name, params, pos):
    k = kind_of(params[pos])
    L = ['/* generated by c20_discover.py: %s with a bitwise copy of a %s object as argument %d */' % (name, k, pos),
         '#include <string.h>', '#include <stdlib.h>', '#include <stdio.h>', '#include "cstl/memory.h"', '#include "cstl/array.h"', '',
         'int main(void)', '{', '    void *c20_block = malloc(16);', '    cstl_shared_ptr_t c20_owner;',
         '    cstl_shared_ptr_init(&c20_owner); cstl_shared_ptr_alloc(&c20_owner, 16, NULL);']
    args = []
    for i, p in enumerate(params):
        kk = kind_of(p)
        if kk:
            ty, setup = SETUP[kk]
            L.append('    %s o%d;' % (ty, i))
            L.append('    ' + setup.replace('%s', 'o%d' % i))
            if i == pos:
                L.append('    %s stray;' % ty)
                L.append('    memcpy(&stray, &o%d, sizeof stray);      /* the stray bitwise copy */' % i)
                args.append('&stray')
            else:
                args.append('&o%d' % i)
        else:
            a = neutral(p, i)
            if a is None:
                return None
            if a.startswith('(void *)c20_scratch'):
                L.append('    static char c20_scratch%d[64];' % i)
            args.append(a)
    L.append('    (void)c20_block;')
    L.append('    fprintf(stderr, "calling %s on the stray copy\\n");' % name)
    L.append('    %s(%s);' % (name, ', '.join(args)))
    L.append('    fprintf(stderr, "RETURNED: the call on the stray copy did not abort\\n");')
    L.append('    return 0;')
    L.append('}')
    return '\n'.join(L) + '\n'


def run(ctx):
    t0 = time.time()
    repo, outdir = ctx['repo'], ctx['outdir']
    work = os.path.join(outdir, 'c20_discover')
    shutil.rmtree(work, ignore_errors=True)
    os.makedirs(work)
    counters = {}
    stats = dict(engine='c20-discover', harness='clients', prop='C20', evaluations=0, nontrivial=0, distinct_extra=0,
                 counters=counters, samples=[], wall_s=0.0)

    def finish(result):
        stats['wall_s'] = round(time.time() - t0, 2)
        with open(os.path.join(outdir, 'stats-c20-discover.json'), 'w') as f:
            json.dump(stats, f, indent=1)
        shutil.rmtree(work, ignore_errors=True)
        return result

    protos, diag = prototypes(repo, work)
    if protos is None:
        counters['aux_info_failed'] = 1
        return finish(None)                      # the headers do not compile on their own: C18's business
    counters['functions_in_memory_h_and_array_h'] = len(protos)
    failures = []
    for name, ret, params, fl, ln in protos:
        pos = [i for i, p in enumerate(params) if kind_of(p)]
        if not pos:
            continue
        counters['functions_taking_an_object'] = counters.get('functions_taking_an_object', 0) + 1
        if name in KNOWN:
            counters['in_the_exhaustive_table'] = counters.get('in_the_exhaustive_table', 0) + 1
            continue
        if re.search(r'init|INITIALIZER|_set$', name):
            counters['initialisers_outside_the_statement'] = counters.get('initialisers_outside_the_statement', 0) + 1
            continue
        counters['discovered_functions'] = counters.get('discovered_functions', 0) + 1
        for i in pos:
            src = program(name, params, i)
            if src is None:
                counters['skipped_unknown_parameter_type'] = counters.get('skipped_unknown_parameter_type', 0) + 1
                continue
            d = os.path.join(work, '%s_%d' % (name, i))
            os.makedirs(d)
            with open(os.path.join(d, 'main.c'), 'w') as f:
                f.write(src)
            libsrc = [os.path.join(repo, 'src', s) for s in ('memory.c', 'array.c', 'common.c')]
            cmd = ['gcc', '-std=c99', '-D_POSIX_C_SOURCE=199309L', '-O1', '-g', '-I' + os.path.join(repo, 'include'), 'main.c'] + libsrc + \
                  ['-o', 'prog', '-lm', '-lpthread']
            rc, out = _run(cmd, cwd=d)
            stats['evaluations'] += 1
            if rc != 0:
                counters['skipped_does_not_compile'] = counters.get('skipped_does_not_compile', 0) + 1
                continue
            stats['nontrivial'] += 1
            stats['distinct_extra'] += 1
            r = subprocess.run(['./prog'], cwd=d, capture_output=True, text=True, timeout=60)
            if len(stats['samples']) < 3:
                stats['samples'].append(dict(ops=['%s(argument %d = stray copy of a %s object) -> %s' % (name, i, kind_of(params[i]),
                                                   'SIGABRT' if r.returncode == -6 else 'exit %d' % r.returncode)], nontrivial=True))
            if r.returncode == 0:
                failures.append((name, i, kind_of(params[i]), fl, ln, src, ' '.join(cmd)))
    if failures:
        name, i, k, fl, ln, src, cmd = failures[0]
        rp = os.path.join(ctx['replays'], 'C20', 'discovered_%s_%d' % (name, i))
        shutil.rmtree(rp, ignore_errors=True)
        os.makedirs(rp)
        with open(os.path.join(rp, 'main.c'), 'w') as f:
            f.write(src)
        with open(os.path.join(rp, 'replay.sh'), 'w') as f:
            f.write('#!/bin/sh\n# C20: %s (declared at %s:%d) returns normally on a bitwise copy of a %s object (argument %d)\n'
                    '# usage: replay.sh [tree]   exit 1 = reproduces\nREPO=${1:-${VERIF_REPO:-/repo}}\ncd "$(dirname "$0")" || exit 2\n'
                    'gcc -std=c99 -D_POSIX_C_SOURCE=199309L -O1 -g -I$REPO/include main.c $REPO/src/memory.c $REPO/src/array.c $REPO/src/common.c '
                    '-o /tmp/c20_discovered_prog -lm -lpthread || exit 2\n/tmp/c20_discovered_prog; rc=$?; rm -f /tmp/c20_discovered_prog\n'
                    '[ $rc -eq 0 ] && { echo "REPRODUCED: no abort"; exit 1; }\necho "aborted (status $rc)"; exit 0\n' % (name, fl, ln, k, i))
        os.chmod(os.path.join(rp, 'replay.sh'), 0o755)
        msg = ('%s (declared at %s:%d, not in the exhaustive table) returns normally when argument %d is a bitwise copy of a %s object '
               '(%d such call(s) in all)' % (name, fl, ln, i, k, len(failures)))
        return finish(('C20.stray.abort', os.path.join(rp, 'replay.sh'), msg))
    return finish(None)
