/* C03 demo 1: a resize issued while an earlier one is still in progress, against the library as `make b` ships it */
#include <stdio.h>
#include <stdlib.h>
#include "cstl/hash.h"

struct item { size_t key; struct cstl_hash_node hn; };

static int fails;
#define EXPECT(c, ...) do { if (!(c)) { fails++; printf("  violated: "); printf(__VA_ARGS__); printf("\n"); } } while (0)

#define N 16
static struct item it[N];

static void check_all(struct cstl_hash * h, const char * when, size_t live)
{
    size_t k, missing = 0;
    for (k = 0; k < live; k++) {
        struct item * e = cstl_hash_find(h, k, NULL, NULL);
        if (e == NULL) missing++;
        else EXPECT(e == &it[k], "%s: find(%zu) returned another object", when, k);
    }
    EXPECT(missing == 0, "%s: %zu of %zu inserted (and never erased) elements are not found by their key", when, missing, live);
    EXPECT(cstl_hash_size(h) == live, "%s: size %zu, %zu elements are live", when, cstl_hash_size(h), live);
}

static void scenario(int explicit_rehash)
{
    DECLARE_CSTL_HASH(h, struct item, hn);
    size_t k;
    const char * name = explicit_rehash ? "resize, rehash(), resize" : "resize during resize";

    cstl_hash_resize(&h, 4, cstl_hash_div);
    for (k = 0; k < N; k++) { it[k].key = k; cstl_hash_insert(&h, k, &it[k]); }
    check_all(&h, "after the inserts", N);

    cstl_hash_resize(&h, 8, cstl_hash_div);             /* incremental rehash 4 -> 8 starts */
    cstl_hash_find(&h, 1, NULL, NULL);                  /* one lookup lands during the sweep */
    if (explicit_rehash) cstl_hash_rehash(&h);          /* forced completion, as documented */
    cstl_hash_resize(&h, 16, cstl_hash_div);            /* new resize (while the earlier one is still in progress) */
    check_all(&h, name, N);

    cstl_hash_rehash(&h);
    check_all(&h, explicit_rehash ? "resize, rehash(), resize, rehash()" : "resize during resize, then rehash()", N);
    cstl_hash_clear(&h, NULL);
}

int main(void)
{
    scenario(0);
    scenario(1);
    if (fails) { printf("FAIL: %d clause(s) of C03 violated (live elements are no longer found by their key)\n", fails); return 1; }
    printf("PASS\n");
    return 0;
}
