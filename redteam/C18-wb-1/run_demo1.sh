#!/bin/sh
# run from the worktree root: sh _seed/run_demo1.sh
make b >/dev/null 2>&1 || { echo "FAIL: make b failed"; exit 1; }
WFLAGS="-std=c99 -pedantic -Wall -Wextra -Werror=vla -Werror=declaration-after-statement"
rc=0
for h in vector.h string.h heap.h; do
    printf '#include "cstl/%s"\nint main(void) { return 0; }\n' "$h" > _seed/demo1_inc.c
    if ! gcc $WFLAGS -O0 -Iinclude -c _seed/demo1_inc.c -o _seed/demo1_inc.o 2>_seed/demo1.err; then
        echo "  a C99 translation unit that only includes cstl/$h does not compile:"
        grep -m1 'error' _seed/demo1.err | sed 's/^/    /'
        rc=1
    fi
done
if ! gcc $WFLAGS -O0 -Iinclude -c _seed/demo1.c -o _seed/demo1.o 2>_seed/demo1.err; then
    echo "  the client program (cstl/vector.h) does not compile:"
    grep -m1 'error' _seed/demo1.err | sed 's/^/    /'
    rc=1
elif ! gcc -o _seed/demo1.bin _seed/demo1.o build/libcstl.a -lm 2>_seed/demo1.err; then
    echo "  the client program does not link:"; sed 's/^/    /' _seed/demo1.err | head -5
    rc=1
elif ! ./_seed/demo1.bin; then
    echo "  the client program fails at run time"
    rc=1
fi
rm -f _seed/demo1_inc.c _seed/demo1_inc.o _seed/demo1.o _seed/demo1.err
if [ $rc -ne 0 ]; then
    echo "FAIL: public headers are not usable from a plain C99 client (gcc $WFLAGS)"
    exit 1
fi
echo PASS
