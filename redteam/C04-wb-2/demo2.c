/*
 * C04 / wave 5, change 2: cstl_hash_foreach() whose callback erases and frees
 * the element being visited (an "expire old sessions" sweep) on a table of
 * 4096 buckets holding 1000 elements. Every element that is live when the sweep starts must be
 * visited exactly once.
 */
#include <stdio.h>
#include <stdlib.h>
#include "cstl/hash.h"

#define N 1000

struct session { int id; int expired; struct cstl_hash_node hn; };

static int visits[N];
static struct cstl_hash h;

static int sweep(void * e, void * p)
{
    struct session * s = e;
    (void)p;
    visits[s->id]++;
    if (s->expired) {
        /* erase and free the element being visited (explicitly allowed) */
        cstl_hash_erase(&h, s);
        free(s);
    }
    return 0;
}

static int count_visit(const void * e, void * p) { (void)e; ++*(int *)p; return 0; }
static void free_cb(void * e, void * p) { (void)p; free(e); }

int main(void)
{
    int i, never = 0, twice = 0, kept = 0, left = 0, rv;

    cstl_hash_init(&h, offsetof(struct session, hn));
    cstl_hash_resize(&h, 4096, cstl_hash_mul);
    for (i = 0; i < N; i++) {
        struct session * s = malloc(sizeof(*s));
        s->id = i;
        s->expired = (i % 8) != 0;          /* 7 of 8 sessions have expired */
        if (!s->expired) kept++;
        cstl_hash_insert(&h, 7919u * i + 13, s);
    }

    rv = cstl_hash_foreach(&h, sweep, NULL);

    for (i = 0; i < N; i++) {
        if (visits[i] == 0) never++;
        if (visits[i] > 1) twice++;
    }
    cstl_hash_foreach_const(&h, count_visit, &left);
    cstl_hash_clear(&h, free_cb);

    if (rv != 0 || never || twice || left != kept) {
        printf("FAIL: foreach(erase) over %d live elements returned %d: %d never visited, %d visited more than once; "
               "%d elements left in the table, %d should have been kept\n", N, rv, never, twice, left, kept);
        return 1;
    }
    printf("PASS\n");
    return 0;
}
