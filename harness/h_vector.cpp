// C09 (a vector never reports size or capacity it has no storage for) and the
// vector part of C16 (allocation failure never corrupts a container).
//
// Case = 6 header bytes + 5-byte op records (op, sel, code, v lo, v hi).
// Size/index arguments come from a symbolic table evaluated against the model
// (DESIGN.md 3.4 G4); boundary codes have ~20 % of the code-byte mass. An op the
// model predicts must abort runs on a sacrificial twin (rebuilt from the model
// contents) unless (sel>>1)%5 == 0, in which case it runs on the main object,
// which is then abandoned and replaced by a freshly initialised vector.
#include "common/verif.hpp"
extern "C" {
#include "cstl/vector.h"
int vf_static_vector(struct cstl_vector *v, size_t es);
}
using namespace vf;
typedef unsigned __int128 u128;

const char *vf_harness_name() { return "vector"; }

namespace {

const size_t HDR = 6, REC = 5;
const size_t ES[9] = {1, 2, 3, 4, 7, 8, 16, 24, 64};

enum Op { RESIZE, RESERVE, SHRINK, CLEAR, SWAP, SORT, REVERSE, AT, WRITE, NOPS };
const char *OPN[] = {"resize", "reserve", "shrink_to_fit", "clear", "swap", "sort", "reverse", "at", "write"};

// weight profiles (swarm): index by header byte 3
const uint8_t PROFILES[][NOPS] = {
    /* 0 mixed       */ {4, 3, 2, 1, 1, 1, 1, 2, 3},
    /* 1 grow        */ {6, 4, 1, 0, 1, 1, 1, 1, 2},
    /* 2 alloc heavy */ {9, 5, 4, 2, 1, 1, 1, 0, 1},   // C16 scripts
    /* 3 content     */ {2, 1, 1, 1, 1, 3, 3, 2, 4},
    /* 4 access      */ {2, 1, 1, 1, 0, 0, 0, 6, 2},
    /* 5 uniform     */ {1, 1, 1, 1, 1, 1, 1, 1, 1},   // op byte % 9 == op (used by G1 and seeds)
};
const int NPROFILES = sizeof PROFILES / sizeof PROFILES[0];

// symbolic argument table
enum Code { K0, K1, K2, SZ_M1, SZ, SZ_P1, CAP_M1, CAP, CAP_P1, RND,
            LIM_M1, LIM, LIM_P1, P32, P63, SMES_M1, SMES, SMES_P1, SMAX_M1, SMAX, NCODES };
const char *CODEN[] = {"0", "1", "2", "size-1", "size", "size+1", "cap-1", "cap", "cap+1", "rnd",
                       "LIMIT/es-1", "LIMIT/es", "LIMIT/es+1", "2^32", "2^63", "SIZE_MAX/es-1", "SIZE_MAX/es",
                       "SIZE_MAX/es+1", "SIZE_MAX-1", "SIZE_MAX"};
// share of the 256 code bytes: ordinary values 204 (80 %), boundary values 52 (20 %).
// LIMIT/es-1 (the largest request that can be satisfied: a 1 MiB block) is kept
// rare because with a constructor it costs up to 10^6 callbacks.
const uint8_t CODEW[NCODES] = {12, 12, 12, 16, 16, 20, 12, 14, 20, 70,
                               1, 5, 5, 5, 6, 6, 6, 6, 6, 6};
// index arguments (at, write): 0, 1, 2, size-1 and "rnd" resolve to an index in
// range (value % size; a counted no-op on an empty vector) and the values at or
// beyond size are the rationed ones: size, size+1, cap, cap+1 and the ten large
// values (46/256 = 18 %) plus cap-1 (3 %) when that is not below size
const uint8_t CODEW_IDX[NCODES] = {20, 16, 14, 30, 10, 6, 8, 6, 4, 122,
                                   2, 2, 2, 2, 2, 2, 2, 2, 2, 2};
uint8_t CODEMAP[2][256];        // [0] size arguments, [1] index arguments
uint8_t CODEBYTE[2][NCODES];
struct InitTables {
    InitTables()
    {
        for (int t = 0; t < 2; t++) {
            const uint8_t *w8 = t ? CODEW_IDX : CODEW;
            int k = 0;
            for (int c = 0; c < NCODES; c++) {
                CODEBYTE[t][c] = (uint8_t)k;
                for (int w = 0; w < w8[c] && k < 256; w++) CODEMAP[t][k++] = (uint8_t)c;
            }
            while (k < 256) CODEMAP[t][k++] = RND;
        }
    }
} g_init_tables;

struct Model {
    int id;
    size_t es;
    bool has_c, has_d;          // constructor / destructor registered
    size_t size;                // reference size
    size_t cap;                 // capacity as last observed (exact value is unspecified)
    const uint8_t *data;        // data pointer as last observed
    std::vector<uint8_t> ref;   // reference bytes of [0,size)
    // constructor/destructor accounting of the op in progress
    std::vector<uint8_t> cc, dc;
    uint64_t ncc, ndc, xbad;
    uint64_t stamp_gen;
};
struct Slot {
    struct cstl_vector v;
    Model *m;
    bool active, dead;
};
Model M[3];
Slot S[3];                      // S[2] is the sacrificial twin
const int TWIN = 2;
int g_nvec;
Slot *g_slot;                    // slot whose library call is in progress
uint64_t g_stamp;
bool g_c16;
bool g_in_twin;               // the slot being operated on is the sacrificial twin

struct CaseCtx {
    bool saw_unrep, saw_moved;
    uint64_t real_ops;          // ops that were not counted no-ops
    int64_t ops_at_first_fault; // real_ops when the first injected fault was seen (-1: none)
} cx;

// fault related clauses belong to C16 when that is the property being checked
// and an injected fault has been delivered in this case; everything else is C09
const char *clause(const char *what)
{
    static char buf[4][96];
    static unsigned k;
    char *b = buf[k++ & 3];
    snprintf(b, sizeof buf[0], "%s%s", (g_c16 && g_faults_hit > 0) ? "C16.vector." : "C09.", what);
    return b;
}
#define VCHECK(cond, what, ...) do { if (!(cond)) { const char *_cl = clause(what); CHECK(false, _cl, __VA_ARGS__); } } while (0)
#define VCHECK_NOTHROW(cond, what, ...) do { if (!(cond)) { const char *_cl = clause(what); CHECK_NOTHROW(false, _cl, __VA_ARGS__); } } while (0)

void pattern(uint8_t *dst, size_t es, uint64_t seed, size_t idx)
{
    uint64_t h = (seed + 1) * 0x9E3779B97F4A7C15ull ^ ((uint64_t)idx * 0xD6E8FEB86659FD93ull);
    h ^= h >> 29; h *= 0xBF58476D1CE4E5B9ull; h ^= h >> 32;
    dst[0] = (uint8_t)(h % 5);                       // sort key, many duplicates
    if (es > 1) dst[1] = (uint8_t)((h >> 8) % 3);    // second key byte
    for (size_t j = 2; j < es; j++) dst[j] = (uint8_t)((h >> (8 * (j & 7))) + j * 37 + 1);
}

// ---------------------------------------------------------------- callbacks
// the live block found by the previous callback of the same library call (no
// allocation request and no free can lie between two callbacks of one resize:
// the cache is dropped at the start of every op and whenever the request
// counter moved)
const uint8_t *g_xt_base;
size_t g_xt_R;
uint64_t g_xt_ord;
void xtor_common(void *e, void *priv, bool ctor)
{
    HarnessScope hs;
    Slot *s = g_slot;
    if (!s) {
        VCHECK_NOTHROW(false, "xtor.unexpected", "%s called while no vector operation is in progress", ctor ? "constructor" : "destructor");
        return;
    }
    Model *m = s->m;
    if (ctor) m->ncc++; else m->ndc++;
    if (priv != (void *)m) {
        m->xbad++;
        VCHECK_NOTHROW(false, "xtor.priv", "%s received priv %p, registered %p", ctor ? "constructor" : "destructor", priv, (void *)m);
        return;
    }
    // the element must lie inside the vector's live block at the time of the call
    const uint8_t *base = (const uint8_t *)cstl_vector_data(&s->v);
    size_t R = 0;
    bool live;
    if (base && base == g_xt_base && g_xt_ord == g_alloc_ordinal) { live = true; R = g_xt_R; }   // same block as in the previous call
    else {
        live = base && lib_is_live(base, &R);
        g_xt_base = live ? base : nullptr;
        g_xt_R = R;
        g_xt_ord = g_alloc_ordinal;
    }
    uintptr_t off = (uintptr_t)e - (uintptr_t)base;
    bool inside = live && (uintptr_t)e >= (uintptr_t)base && off % m->es == 0 && off <= R && m->es <= R - off;
    if (!inside) {
        m->xbad++;
        VCHECK_NOTHROW(false, "xtor.addr", "%s received %p which is not an element slot inside the live block %p+%zu",
                       ctor ? "constructor" : "destructor", e, (const void *)base, R);
        return;
    }
    size_t idx = off / m->es;
    std::vector<uint8_t> &cnt = ctor ? m->cc : m->dc;
    if (idx < cnt.size()) { if (cnt[idx] < 255) cnt[idx]++; }
    else m->xbad++;
    if (ctor) pattern((uint8_t *)e, m->es, m->stamp_gen, idx);
    else memset(e, 0xD7, m->es);
}
void ctor_cb(void *e, void *priv) { xtor_common(e, priv, true); }
void dtor_cb(void *e, void *priv) { xtor_common(e, priv, false); }

void *g_cmp_priv;
size_t g_cmp_es;
bool g_cmp_desc;
int cmp_key(const void *a, const void *b, void *p)
{
    if (p != g_cmp_priv) VCHECK_NOTHROW(false, "sort.priv", "compare priv pointer changed");
    const uint8_t *x = (const uint8_t *)a, *y = (const uint8_t *)b;
    int d = (int)x[0] - (int)y[0];
    if (!d && g_cmp_es > 1) d = (int)x[1] - (int)y[1];
    return g_cmp_desc ? -d : d;
}
int key_cmp(const uint8_t *x, const uint8_t *y, size_t es, bool desc)
{
    int d = (int)x[0] - (int)y[0];
    if (!d && es > 1) d = (int)x[1] - (int)y[1];
    return desc ? -d : d;
}

// ---------------------------------------------------------------- bookkeeping
void model_reset(Model *m)
{
    m->size = m->cap = 0;
    m->data = nullptr;
    m->ref.clear();
    m->cc.clear();
    m->dc.clear();
    m->ncc = m->ndc = m->xbad = 0;
}
void slot_init(Slot &s, Model *m)
{
    s.m = m;
    model_reset(m);
    memset(&s.v, 0xA5, sizeof s.v);      // init must set every field itself
    if (m->has_c || m->has_d)
        cstl_vector_init_complex(&s.v, m->es, m->has_c ? ctor_cb : nullptr, m->has_d ? dtor_cb : nullptr, m);
    else if (((g_case_hash >> 21) & 1) && vf_static_vector(&s.v, m->es))
        CNT("class.setup.static_initializer");       // CSTL_VECTOR_INITIALIZER(TYPE) instead of cstl_vector_init()
    else
        cstl_vector_init(&s.v, m->es);
    s.active = true;
    s.dead = false;
}
size_t expected_live()
{
    size_t n = 0;
    for (int i = 0; i < 3; i++) if (S[i].active && !S[i].dead && S[i].m->data) n++;
    return n;
}
// after an object was abandoned: free (with the interposer's knowledge) every
// library block that does not belong to an object still in use
void release_orphans()
{
    std::vector<void *> drop;
    for (auto &kv : *g_live) {
        bool keep = false;
        for (int i = 0; i < 3; i++)
            if (S[i].active && !S[i].dead && (const void *)S[i].m->data == kv.first) keep = true;
        if (!keep) drop.push_back(kv.first);
    }
    for (void *p : drop) { g_live->erase(p); __real_free(p); }
}
void xt_begin(Model *m, size_t slots)
{
    m->cc.assign(slots, 0);
    m->dc.assign(slots, 0);
    m->ncc = m->ndc = m->xbad = 0;
    m->stamp_gen = ++g_stamp;
    g_xt_base = nullptr;
}
// constructor exactly once on [c_lo,c_hi), destructor exactly once on [d_lo,d_hi), nothing else
void xt_check(Slot &s, size_t c_lo, size_t c_hi, size_t d_lo, size_t d_hi, const char *opn)
{
    Model *m = s.m;
    uint64_t ec = m->has_c ? c_hi - c_lo : 0, ed = m->has_d ? d_hi - d_lo : 0;
    VCHECK(m->xbad == 0, "xtor.slot", "%s: %llu constructor/destructor calls on slots outside the range the operation may touch",
           opn, (unsigned long long)m->xbad);
    VCHECK(m->ncc == ec, "ctor.count", "%s: %llu constructor calls, %llu elements entered [0,size)", opn,
           (unsigned long long)m->ncc, (unsigned long long)ec);
    VCHECK(m->ndc == ed, "dtor.count", "%s: %llu destructor calls, %llu elements left [0,size)", opn,
           (unsigned long long)m->ndc, (unsigned long long)ed);
    if (ec) for (size_t i = c_lo; i < c_hi; i++)
        VCHECK(m->cc[i] == 1, "ctor.once", "%s: slot %zu constructed %u times", opn, i, (unsigned)m->cc[i]);
    if (ed) for (size_t i = d_lo; i < d_hi; i++)
        VCHECK(m->dc[i] == 1, "dtor.once", "%s: slot %zu destroyed %u times", opn, i, (unsigned)m->dc[i]);
}

// structural part of the oracle; refreshes the observed capacity / data pointer
void observe(Slot &s, const char *opn)
{
    Model *m = s.m;
    size_t sz, cp;
    const uint8_t *d;
    LIB(sz = cstl_vector_size(&s.v));
    LIB(cp = cstl_vector_capacity(&s.v));
    LIB(d = (const uint8_t *)cstl_vector_data(&s.v));
    m->cap = cp;
    m->data = d;
    VCHECK(cp >= sz, "cap_ge_size", "after %s: capacity %zu < size %zu", opn, cp, sz);
    if (cp > 0 || d) {
        size_t R = 0;
        VCHECK(d && lib_is_live(d, &R), "block_live", "after %s: capacity %zu but data %p is not a live allocation of the library",
               opn, cp, (const void *)d);
        VCHECK((u128)R >= ((u128)cp + 1) * m->es, "block_ge_cap",
               "after %s: capacity %zu (element size %zu) reported over a block of %zu bytes", opn, cp, m->es, R);
    }
    VCHECK(sz == m->size, "size", "after %s: size %zu, reference %zu", opn, sz, m->size);
    size_t want = expected_live();
    VCHECK(lib_live_count() == want, "one_block", "after %s: the library holds %zu live blocks, %zu vectors have storage",
           opn, lib_live_count(), want);
}
void check_content(Slot &s, const char *opn)
{
    Model *m = s.m;
    // sampled at(i) for i < size
    size_t n = m->size;
    size_t idx[4] = {0, 1, n / 2, n ? n - 1 : 0};
    for (int k = g_in_twin ? 3 : 0; k < 4; k++) {   // the twin: last element only
        size_t i = idx[k];
        if (i >= n) continue;
        if (k > 0 && !g_in_twin && i == idx[k - 1]) continue;
        void *p = nullptr;
        const void *pc = nullptr;
        bool ab = may_abort([&] { p = cstl_vector_at(&s.v, i); pc = cstl_vector_at_const(&s.v, i); });
        VCHECK(!ab, "at.spurious_abort", "after %s: at(%zu) aborted with size %zu", opn, i, n);
        VCHECK(p == (void *)(m->data + i * m->es) && pc == p, "at.addr", "after %s: at(%zu) is not data + %zu*%zu", opn, i, i, m->es);
    }
    if (n) {
        if (memcmp(m->data, m->ref.data(), n * m->es) != 0) {
            size_t b = 0;
            while (m->data[b] == m->ref[b]) b++;
            VCHECK(false, "content", "after %s: element %zu byte %zu is 0x%02x, reference 0x%02x", opn, b / m->es, b % m->es,
                   m->data[b], m->ref[b]);
        }
    }
}
void audit(Slot &s, const char *opn)
{
    observe(s, opn);
    check_content(s, opn);
}

struct ArgClass { bool unrep, over; };
ArgClass classify(size_t n, size_t es)
{
    u128 bytes = ((u128)n + 1) * es;
    ArgClass a;
    a.unrep = bytes > (u128)SIZE_MAX;
    a.over = !a.unrep && bytes > (u128)g_alloc_limit;
    return a;
}

// ---------------------------------------------------------------- checked operations
void op_reserve(Slot &s, size_t n)
{
    Model *m = s.m;
    size_t c0 = m->cap;
    const uint8_t *d0 = m->data;
    size_t R0 = 0;
    if (d0) lib_is_live(d0, &R0);
    ArgClass ac = classify(n, m->es);
    uint64_t f0 = alloc_failures();
    xt_begin(m, 0);
    g_slot = &s;
    g_cur_op = "reserve";
    bool ab = may_abort([&] { cstl_vector_reserve(&s.v, n); });
    g_slot = nullptr;
    VCHECK(!ab, "reserve.abort", "reserve(%zu) aborted (size %zu capacity %zu)", n, m->size, c0);
    bool failed = alloc_failures() > f0;
    observe(s, "reserve");
    xt_check(s, 0, 0, 0, 0, "reserve");
    VCHECK(m->cap >= c0, "reserve.shrunk", "reserve(%zu) reduced the capacity %zu -> %zu", n, c0, m->cap);
    // a request that no allocation strategy can satisfy must leave the vector as it was; one during which some
    // allocation request was refused may still have been satisfied another way (say, the exact size after a
    // refused over-allocation): the outcome decides, and it must be one of the two documented ones in full
    if (n <= c0 || ac.unrep || ac.over || (failed && m->cap < n)) {
        size_t R1 = 0;
        if (m->data) lib_is_live(m->data, &R1);
        VCHECK(m->cap == c0 && m->data == d0 && R1 == R0, "reserve.unchanged",
               "reserve(%zu) that %s changed the vector: capacity %zu -> %zu, block %zu -> %zu bytes%s", n,
               n <= c0 ? "does not exceed the capacity" : "could not be satisfied", c0, m->cap, R0, R1,
               m->data == d0 ? "" : ", data pointer changed");
        if (n > c0 && failed && !g_in_twin) CNT("class.reserve_failed");
    } else {
        VCHECK(m->cap >= n, "reserve.grew", "reserve(%zu) with no failed allocation left the capacity at %zu", n, m->cap);
        if (g_in_twin) { /* class counters describe the main objects */ }
        else {
            if (m->data != d0 && m->size > 0) { CNT("class.realloc_moved"); cx.saw_moved = true; }
            CNT("class.reserve_grew");
        }
    }
    check_content(s, "reserve");
}

// returns true if the call aborted (allowed only when the growth could not be satisfied);
// the slot is then dead
bool op_resize(Slot &s, size_t n)
{
    Model *m = s.m;
    size_t s0 = m->size, c0 = m->cap;
    const uint8_t *d0 = m->data;
    ArgClass ac = classify(n, m->es);
    bool grow = n > c0;
    bool cannot_pre = grow && (ac.unrep || ac.over);
    uint64_t f0 = alloc_failures(), o0 = g_alloc_ordinal;
    xt_begin(m, std::max(s0, cannot_pre ? s0 : n) + 2);
    g_slot = &s;
    g_cur_op = "resize";
    bool ab = may_abort([&] { cstl_vector_resize(&s.v, n); });
    g_slot = nullptr;
    bool failed = alloc_failures() > f0;
    if (!grow) {
        VCHECK(!ab, "resize.abort_within_cap", "resize(%zu) aborted although the capacity is %zu", n, c0);
        VCHECK(g_alloc_ordinal == o0, "resize.alloc_within_cap", "resize(%zu) within the capacity %zu made an allocation request", n, c0);
    } else if (cannot_pre || (failed && ab)) {
        if (!ab) {
            size_t sz = cstl_vector_size(&s.v), cp = cstl_vector_capacity(&s.v);
            VCHECK(false, "resize.must_abort",
                   "resize(%zu) returned (size %zu capacity %zu) although the growth could not be satisfied (%s)", n, sz, cp,
                   ac.unrep ? "byte count not representable" : failed ? "allocation failed" : "above the allocation limit");
        }
        s.dead = true;
        return true;
    } else {
        // (returned normally although a request was refused: it found another way, and is judged as a success)
        VCHECK(!ab, "resize.spurious_abort", "resize(%zu) aborted although no allocation failed (capacity %zu)", n, c0);
    }
    // success: constructor for [s0,n) or destructor for [n,s0)
    if (n >= s0) xt_check(s, s0, n, 0, 0, "resize");
    else xt_check(s, 0, 0, n, s0, "resize");
    m->size = n;
    m->ref.resize(n * m->es);
    observe(s, "resize");
    if (n > s0) {
        if (m->has_c) {
            for (size_t i = s0; i < n; i++) pattern(&m->ref[i * m->es], m->es, m->stamp_gen, i);
        } else {
            // no constructor: the new elements are uninitialised, the harness fills them
            for (size_t i = s0; i < n; i++) {
                uint8_t *p;
                if (i - s0 < 16) LIB(p = (uint8_t *)cstl_vector_at(&s.v, i));
                else p = (uint8_t *)m->data + i * m->es;
                pattern(p, m->es, m->stamp_gen, i);
                pattern(&m->ref[i * m->es], m->es, m->stamp_gen, i);
            }
        }
    }
    if (g_in_twin) { /* class counters describe the main objects */ }
    else if (grow) {
        CNT("class.resize_grew");
        if (m->data != d0 && s0 > 0) { CNT("class.realloc_moved"); cx.saw_moved = true; }
    } else if (n < s0) CNT("class.resize_shrunk");
    else CNT("class.resize_within_cap");
    check_content(s, "resize");
    return false;
}

void op_shrink(Slot &s)
{
    Model *m = s.m;
    size_t c0 = m->cap;
    const uint8_t *d0 = m->data;
    uint64_t f0 = alloc_failures();
    xt_begin(m, 0);
    g_slot = &s;
    g_cur_op = "shrink_to_fit";
    bool ab = may_abort([&] { cstl_vector_shrink_to_fit(&s.v); });
    g_slot = nullptr;
    VCHECK(!ab, "shrink.abort", "shrink_to_fit aborted (size %zu capacity %zu)", m->size, c0);
    bool failed = alloc_failures() > f0;
    observe(s, "shrink_to_fit");
    xt_check(s, 0, 0, 0, 0, "shrink_to_fit");
    if (failed && m->cap >= c0) {      // (a smaller capacity after a refused request: it found another way; observe/check_content judge it)
        VCHECK(m->cap == c0 && m->data == d0, "shrink.unchanged", "shrink_to_fit whose allocation failed changed the vector: capacity %zu -> %zu%s",
               c0, m->cap, m->data == d0 ? "" : ", data pointer changed");
        CNT("class.shrink_failed");
    } else if (m->data != d0 && m->size > 0) { CNT("class.realloc_moved"); cx.saw_moved = true; }
    if (m->cap < c0) CNT("class.shrink_reduced");
    check_content(s, "shrink_to_fit");
}

void op_clear(Slot &s)
{
    Model *m = s.m;
    size_t s0 = m->size;
    xt_begin(m, s0 + 2);
    g_slot = &s;
    g_cur_op = "clear";
    bool ab = may_abort([&] { cstl_vector_clear(&s.v); });
    g_slot = nullptr;
    VCHECK(!ab, "clear.abort", "clear aborted (size %zu)", s0);
    xt_check(s, 0, 0, 0, s0, "clear");
    m->size = 0;
    m->ref.clear();
    observe(s, "clear");
    VCHECK(m->cap == 0 && m->data == nullptr, "clear.reset", "after clear: capacity %zu data %p (expected 0 / NULL)", m->cap,
           (const void *)m->data);
}

// ---------------------------------------------------------------- sacrificial twin
bool build_twin(Slot &src)
{
    Slot &T = S[TWIN];
    Model *tm = &M[TWIN];
    tm->id = TWIN;
    tm->es = src.m->es;
    tm->has_c = src.m->has_c;
    tm->has_d = src.m->has_d;
    slot_init(T, tm);
    g_in_twin = true;
    if (src.m->cap) op_reserve(T, src.m->cap);
    if (tm->cap < src.m->size) {
        // the twin's storage could not be allocated (limit or injected fault)
        CNT("noop.twin_build_failed");
        op_clear(T);
        T.active = false;
        g_in_twin = false;
        return false;
    }
    op_resize(T, src.m->size);
    if (tm->size) {
        memcpy((void *)tm->data, src.m->ref.data(), tm->size * tm->es);
        tm->ref = src.m->ref;
    }
    return true;
}
void drop_twin(bool aborted)
{
    Slot &T = S[TWIN];
    if (aborted) T.dead = true;
    else op_clear(T);
    T.active = false;
    release_orphans();
    g_in_twin = false;
}
// the main object took an abort: abandon it, continue with a freshly initialised vector
void abandon_main(Slot &s)
{
    s.dead = true;
    release_orphans();
    slot_init(s, s.m);
    CNT("class.reborn");
}

// at(i) with i >= size must abort; x is dead afterwards
void probe_abort(Slot &x, size_t i, bool use_const)
{
    Model *m = x.m;
    const void *p = nullptr;
    g_slot = &x;
    g_cur_op = "at";
    bool ab = may_abort([&] { p = use_const ? cstl_vector_at_const(&x.v, i) : cstl_vector_at(&x.v, i); });
    g_slot = nullptr;
    VCHECK(ab, "at.must_abort", "%s(%zu) returned %p for a vector of size %zu (capacity %zu)", use_const ? "at_const" : "at", i, p,
           m->size, m->cap);
    x.dead = true;
}
// after every op: at(i) aborts for i in {size, size+1, cap, SIZE_MAX}, each on its own twin.
// Building a twin costs as much as the op itself, so each op is followed by one
// of the four (rotating with the op counter) and the final audit by all four.
void probe_all(Slot &s, bool all = false)
{
    if (g_c16) return;          // C16 scripts: keep the allocation ordinals for the ops under test
    Model *m = s.m;
    if (m->size > 1024) { CNT("skip.probe_big"); return; }
    size_t ix[4] = {m->size, m->size + 1, m->cap, SIZE_MAX};
    bool every = all;
    for (int k = 0; k < 4; k++) {
        if (!every && k != (int)(cx.real_ops & 3)) continue;
        if (ix[k] < m->size) continue;
        if (every && k == 2 && (ix[2] == ix[0] || ix[2] == ix[1])) continue;
        if (!build_twin(s)) continue;
        probe_abort(S[TWIN], ix[k], k & 1);
        drop_twin(true);
        CNT("probe.at_abort");
    }
}

size_t eval_code(int code, const Model &m, uint16_t v)
{
    size_t es = m.es, L = g_alloc_limit / es, X = SIZE_MAX / es;
    switch (code) {
    case K0: return 0;
    case K1: return 1;
    case K2: return 2;
    case SZ_M1: return m.size ? m.size - 1 : 0;
    case SZ: return m.size;
    case SZ_P1: return m.size + 1;
    case CAP_M1: return m.cap ? m.cap - 1 : 0;
    case CAP: return m.cap;
    case CAP_P1: return m.cap + 1;
    case RND: return v >= 62000 ? 301 + (size_t)(v - 62000) % 4000 : v % 301;     // mostly <= 300, some up to ~4300 elements
    case LIM_M1: return L ? L - 1 : 0;
    case LIM: return L;
    case LIM_P1: return L + 1;
    case P32: return (size_t)1 << 32;
    case P63: return (size_t)1 << 63;
    case SMES_M1: return X - 1;
    case SMES: return X;
    case SMES_P1: return X == SIZE_MAX ? SIZE_MAX : X + 1;
    case SMAX_M1: return SIZE_MAX - 1;
    default: return SIZE_MAX;
    }
}

std::string peek_state()
{
    std::string st;
    for (int i = 0; i < g_nvec; i++) {
        char b[96];
        snprintf(b, sizeof b, "V%d:es%zu,n%zu,c%zu,x%d%d;", i, (size_t)S[i].v.elem.size, (size_t)S[i].v.count, (size_t)S[i].v.cap,
                 S[i].v.elem.xtor.cons != nullptr, S[i].v.elem.xtor.dest != nullptr);
        st += b;
    }
    return st;
}

void step(int op, uint8_t sel, uint8_t codeb, uint16_t v)
{
    int vi = (sel & 1) % g_nvec;
    Slot &s = S[vi];
    Model *m = s.m;
    bool on_main = (((sel >> 1) & 0x3f) % 5) == 0;   // 1 of 5: a predicted abort hits the main object
    if (m->size > 4096 && !on_main) { on_main = true; CNT("class.big_no_twin"); }   // a twin of a huge vector costs too much
    bool use_const = sel & 0x80;                      // at_const instead of at
    bool idx_arg = op == AT || op == WRITE;
    int code = CODEMAP[idx_arg][codeb];
    size_t n = eval_code(code, *m, v);
    if (idx_arg && (code == K0 || code == K1 || code == K2 || code == SZ_M1 || code == RND)) {
        // the ordinary index codes mean an element that exists (resolved by construction);
        // indexes at or beyond size come from the rationed codes only
        if (m->size == 0) {
            CNT("noop.index_empty");
            TRACE("V%d.%s(%s) noop (empty vector)", vi, OPN[op], CODEN[code]);
            return;
        }
        n = (code == RND ? (size_t)v : n) % m->size;
    }
    size_t s0 = m->size, c0 = m->cap;
    g_cur_op = OPN[op];
    if (g_replay_mode == 1) TRACE("> V%d.%s arg %s=%zu (size %zu cap %zu)", vi, OPN[op], CODEN[code], n, s0, c0);
    cx.real_ops++;
    switch (op) {
    case RESIZE: {
        ArgClass ac = classify(n, m->es);
        if (ac.unrep) { CNT("class.unrepresentable"); cx.saw_unrep = true; }
        else if (ac.over) CNT("class.over_limit");
        if (n > c0 && (ac.unrep || ac.over)) {
            // the model predicts an abort
            if (!on_main) {
                if (build_twin(s)) {
                    bool ab = op_resize(S[TWIN], n);
                    drop_twin(ab);
                    CNT("class.sacrificial_abort");
                    TRACE("V%d.resize(%s=%zu) on twin (size %zu cap %zu): aborted as required", vi, CODEN[code], n, s0, c0);
                } else TRACE("V%d.resize(%s=%zu) noop (twin could not be built)", vi, CODEN[code], n);
                audit(s, "resize on twin");
            } else {
                op_resize(s, n);
                abandon_main(s);
                CNT("class.main_abort");
                TRACE("V%d.resize(%s=%zu) on the main object (size %zu cap %zu): aborted as required; object abandoned, fresh vector",
                      vi, CODEN[code], n, s0, c0);
            }
            break;
        }
        bool ab = op_resize(s, n);
        if (ab) {
            // an allocation failed during the op (injected fault): documented abort
            abandon_main(s);
            CNT("class.fault_abort");
            TRACE("V%d.resize(%s=%zu) size %zu cap %zu: allocation failed, aborted as documented; object abandoned, fresh vector",
                  vi, CODEN[code], n, s0, c0);
        } else
            TRACE("V%d.resize(%s=%zu) size %zu->%zu cap %zu->%zu%s", vi, CODEN[code], n, s0, m->size, c0, m->cap,
                  n > c0 ? " (reallocated)" : "");
        break;
    }
    case RESERVE: {
        ArgClass ac = classify(n, m->es);
        if (ac.unrep) { CNT("class.unrepresentable"); cx.saw_unrep = true; }
        else if (ac.over) CNT("class.over_limit");
        uint64_t f0 = alloc_failures();
        op_reserve(s, n);
        TRACE("V%d.reserve(%s=%zu) size %zu cap %zu->%zu%s", vi, CODEN[code], n, s0, c0, m->cap,
              n <= c0 ? " (ignored)" : ac.unrep ? " (unrepresentable: quiet no-op)" : alloc_failures() > f0 ? " (allocation failed: quiet no-op)" : "");
        break;
    }
    case SHRINK: {
        uint64_t f0 = alloc_failures();
        op_shrink(s);
        TRACE("V%d.shrink_to_fit size %zu cap %zu->%zu%s", vi, s0, c0, m->cap, alloc_failures() > f0 ? " (allocation failed: unchanged)" : "");
        break;
    }
    case CLEAR:
        op_clear(s);
        TRACE("V%d.clear size %zu->0 cap %zu->0", vi, s0, c0);
        break;
    case SWAP: {
        if (g_nvec < 2) { CNT("noop.swap"); cx.real_ops--; TRACE("swap noop (one vector)"); return; }
        Slot &o = S[1 - vi];
        xt_begin(s.m, 0);
        xt_begin(o.m, 0);
        LIB(cstl_vector_swap(&s.v, &o.v));
        std::swap(s.m, o.m);
        TRACE("V%d.swap(V%d) (es %zu size %zu cap %zu) <-> (es %zu size %zu cap %zu)", vi, 1 - vi, o.m->es, o.m->size, o.m->cap,
              s.m->es, s.m->size, s.m->cap);
        audit(s, "swap");
        audit(o, "swap");
        xt_check(s, 0, 0, 0, 0, "swap");
        xt_check(o, 0, 0, 0, 0, "swap");
        probe_all(o);
        break;
    }
    case SORT: {
        if (s0 > 4096) { CNT("noop.sort_big"); cx.real_ops--; TRACE("sort noop (size %zu)", s0); return; }
        bool desc = v & 1;
        g_cmp_priv = &cx;
        g_cmp_es = m->es;
        g_cmp_desc = desc;
        xt_begin(m, 0);
        g_slot = &s;
        LIB(cstl_vector_sort(&s.v, cmp_key, &cx));
        g_slot = nullptr;
        observe(s, "sort");
        xt_check(s, 0, 0, 0, 0, "sort");
        size_t es = m->es;
        std::vector<uint8_t> now(m->data, m->data + s0 * es);
        // whole elements are a permutation of the reference, ordered by the key
        std::vector<size_t> a(s0), b(s0);
        for (size_t i = 0; i < s0; i++) a[i] = b[i] = i;
        auto lessin = [es](const std::vector<uint8_t> &buf) {
            return [&buf, es](size_t x, size_t y) { return memcmp(&buf[x * es], &buf[y * es], es) < 0; };
        };
        std::sort(a.begin(), a.end(), lessin(now));
        std::sort(b.begin(), b.end(), lessin(m->ref));
        for (size_t i = 0; i < s0; i++)
            VCHECK(memcmp(&now[a[i] * es], &m->ref[b[i] * es], es) == 0, "sort.perm", "sort changed the multiset of elements (size %zu)", s0);
        for (size_t i = 1; i < s0; i++)
            VCHECK(key_cmp(&now[(i - 1) * es], &now[i * es], es, desc) <= 0, "sort.order", "sort result out of order at %zu (size %zu)", i, s0);
        m->ref.swap(now);
        check_content(s, "sort");
        TRACE("V%d.sort %s size %zu cap %zu", vi, desc ? "desc" : "asc", s0, c0);
        break;
    }
    case REVERSE: {
        xt_begin(m, 0);
        g_slot = &s;
        LIB(cstl_vector_reverse(&s.v));
        g_slot = nullptr;
        size_t es = m->es;
        std::vector<uint8_t> r(s0 * es);
        for (size_t i = 0; i < s0; i++) memcpy(&r[i * es], &m->ref[(s0 - 1 - i) * es], es);
        m->ref.swap(r);
        audit(s, "reverse");
        xt_check(s, 0, 0, 0, 0, "reverse");
        TRACE("V%d.reverse size %zu cap %zu", vi, s0, c0);
        break;
    }
    case AT:
    case WRITE: {
        size_t i = n;
        if (i < s0) {
            void *p = nullptr;
            bool rd_const = (op == AT) && use_const;
            g_slot = &s;
            bool ab = may_abort([&] { p = rd_const ? (void *)cstl_vector_at_const(&s.v, i) : cstl_vector_at(&s.v, i); });
            g_slot = nullptr;
            VCHECK(!ab, "at.spurious_abort", "at(%zu) aborted with size %zu", i, s0);
            VCHECK(p == (void *)(m->data + i * m->es), "at.addr", "at(%zu) is not data + %zu*%zu", i, i, m->es);
            if (op == WRITE) {
                pattern((uint8_t *)p, m->es, 0x100000 + v, i);
                pattern(&m->ref[i * m->es], m->es, 0x100000 + v, i);
                CNT("class.write");
            } else CNT("class.at_in_range");
            TRACE("V%d.%s(%s=%zu) size %zu", vi, OPN[op], CODEN[code], i, s0);
            audit(s, OPN[op]);
        } else {
            // the model predicts an abort
            if (!on_main) {
                if (build_twin(s)) {
                    probe_abort(S[TWIN], i, use_const);
                    drop_twin(true);
                    CNT("class.sacrificial_abort");
                    TRACE("V%d.at(%s=%zu) on twin (size %zu cap %zu): aborted as required", vi, CODEN[code], i, s0, c0);
                } else TRACE("V%d.at(%s=%zu) noop (twin could not be built)", vi, CODEN[code], i);
                audit(s, "at on twin");
            } else {
                probe_abort(s, i, use_const);
                abandon_main(s);
                CNT("class.main_abort");
                TRACE("V%d.at(%s=%zu) on the main object (size %zu cap %zu): aborted as required; object abandoned, fresh vector", vi,
                      CODEN[code], i, s0, c0);
            }
            if (i == s0) CNT("class.at_eq_size"); else if (i <= c0) CNT("class.at_size_to_cap"); else CNT("class.at_beyond_cap");
        }
        break;
    }
    }
    probe_all(S[vi]);
}

std::vector<uint8_t> g_tab;
} // namespace

void vf_run(const uint8_t *data, size_t len)
{
    // nothing survives a case: the interposer released what the previous case
    // left (case_reset), the models are rebuilt here
    for (int i = 0; i < 3; i++) { S[i].active = false; S[i].dead = false; S[i].m = &M[i]; M[i].id = i; model_reset(&M[i]); }
    g_slot = nullptr;
    g_stamp = 0;
    g_in_twin = false;
    g_c16 = g_prop == "C16";
    cx = CaseCtx{};
    cx.ops_at_first_fault = -1;

    Cursor cur(data, len);
    g_nvec = 1 + cur.u8() % 2;
    // element size: codes 0-8 the classic table (existing seeds), 9-199 every size from 1 to 191, above that a few large ones
    auto es_of = [](uint8_t c) -> size_t {
        static const size_t BIG[8] = {100, 256, 257, 1000, 333, 512, 4096, 48};
        return c < 9 ? ES[c] : c < 200 ? (size_t)(c - 8) : BIG[c % 8];
    };
    size_t esA = es_of(cur.u8());
    uint8_t flags = cur.u8();
    int prof = cur.u8() % NPROFILES;
    int base = cur.u8() % 3;
    uint8_t b5 = cur.u8();
    size_t esB = (flags & 16) ? es_of(b5) : esA;
    int modeA = flags & 3, modeB = (flags >> 2) & 3;   // 0 none, 1 ctor+dtor, 2 ctor only, 3 dtor only
    M[0].es = esA; M[0].has_c = modeA == 1 || modeA == 2; M[0].has_d = modeA == 1 || modeA == 3;
    M[1].es = esB; M[1].has_c = modeB == 1 || modeB == 2; M[1].has_d = modeB == 1 || modeB == 3;
    bool xt_both = modeA == 1 || (g_nvec == 2 && modeB == 1);
    for (int i = 0; i < g_nvec; i++) slot_init(S[i], &M[i]);
    g_tab.clear();
    for (int o = 0; o < NOPS; o++) for (int k = 0; k < PROFILES[prof][o]; k++) g_tab.push_back((uint8_t)o);
    TRACE("header vectors=%d es=%zu/%zu xtor=%d/%d profile=%d base=%d", g_nvec, esA, esB, modeA, modeB, prof, base);
    // base state, built through the checked operations
    for (int i = 0; i < g_nvec && base; i++) {
        g_cur_op = "base";
        bool ab = false;
        if (base == 1) ab = op_resize(S[i], 3);
        else { op_reserve(S[i], 5); if (S[i].m->cap >= 2) ab = op_resize(S[i], 2); }
        if (ab) abandon_main(S[i]);   // injected fault while building the base state
        else TRACE("V%d base state size %zu cap %zu", i, S[i].m->size, S[i].m->cap);
    }
    if (g_faults_hit > 0) cx.ops_at_first_fault = 0;
    bool state_marked = false;
    while (cur.remaining() >= REC) {
        uint8_t o = cur.u8(), sel = cur.u8(), codeb = cur.u8();
        uint16_t v = cur.u16();
        if (o == 0xFE) {                 // MARK: state snapshot for G1
            if (g_want_state) { g_state = peek_state(); state_marked = true; }
            continue;
        }
        step(g_tab[o % g_tab.size()], sel, codeb, v);
        if (cx.ops_at_first_fault < 0 && g_faults_hit > 0) cx.ops_at_first_fault = (int64_t)cx.real_ops;
    }
    // final audit and teardown through the library
    g_cur_op = "final audit";
    for (int i = 0; i < g_nvec; i++) { audit(S[i], "final audit"); probe_all(S[i], true); }
    if (g_want_state && !state_marked) g_state = peek_state();
    for (int i = 0; i < g_nvec; i++) { op_clear(S[i]); S[i].active = false; }
    VCHECK(lib_live_count() == 0, "leak", "%zu library allocations are still live after every vector was cleared", lib_live_count());
    if (g_c16)
        g_nontrivial = g_faults_hit >= 1 && cx.ops_at_first_fault >= 0 && cx.real_ops - (uint64_t)cx.ops_at_first_fault >= 3;
    else
        g_nontrivial = cx.saw_unrep && cx.saw_moved && xt_both;
    CNTN("ops", cx.real_ops);
    CNT("cases");
}

static uint8_t gen_mode(Rng &r)
{
    uint32_t x = r.below(100);
    return x < 65 ? 1 : x < 85 ? 0 : x < 92 ? 2 : 3;
}

void vf_gen(Rng &r, std::vector<uint8_t> &out)
{
    bool c16 = g_prop == "C16";
    if (c16) {
        // short allocation-heavy scripts with small in-range sizes: faults, not the limit, decide
        out.push_back(r.chance(1, 4) ? 1 : 0);
        out.push_back(r.byte());
        out.push_back((uint8_t)(gen_mode(r) | (gen_mode(r) << 2) | (r.chance(1, 3) ? 16 : 0)));
        out.push_back(2);
        out.push_back(r.chance(1, 2) ? r.byte() : 0);
        out.push_back(r.byte());
        std::vector<uint8_t> tab;
        for (int o = 0; o < NOPS; o++) for (int k = 0; k < PROFILES[2][o]; k++) tab.push_back((uint8_t)o);
        size_t n = 6 + r.below(9);
        static const uint8_t SMALL[] = {K0, K1, K2, SZ_M1, SZ, SZ_P1, CAP_M1, CAP, CAP_P1, CAP_P1, CAP_P1, SZ_P1};
        for (size_t i = 0; i < n; i++) {
            uint32_t o = r.below((uint32_t)tab.size());
            bool idx_arg = tab[o] == AT || tab[o] == WRITE;
            out.push_back((uint8_t)o);
            out.push_back(r.byte());
            bool rnd = idx_arg ? r.chance(9, 10) : r.chance(6, 10);
            out.push_back(CODEBYTE[idx_arg][rnd ? RND : SMALL[r.below(12)]]);
            // sizes: mostly tiny (many scripts, short fault sets), some in the hundreds / thousands (growth policies
            // that only engage above a threshold)
            uint32_t sz = r.chance(3, 4) ? r.below(24) : r.chance(1, 2) ? 200 + r.below(101) : 62000 + r.below(3500);
            out.push_back((uint8_t)sz);
            out.push_back((uint8_t)(sz >> 8));
        }
        return;
    }
    out.push_back(r.byte());                                   // vectors
    out.push_back(r.byte());                                   // element size
    out.push_back((uint8_t)(gen_mode(r) | (gen_mode(r) << 2) | (r.chance(1, 3) ? 16 : 0)));
    out.push_back(r.byte());                                   // profile
    out.push_back(r.chance(2, 5) ? 0 : r.byte());              // base state: empty in 3 of 5 cases
    out.push_back(r.byte());                                   // element size of the second vector
    size_t n = r.chance(2, 3) ? 1 + r.below(12) : 1 + r.below(60);
    for (size_t i = 0; i < n; i++) {
        out.push_back(r.byte() % 251);
        out.push_back(r.byte());
        uint8_t cb = r.byte();
        // LIMIT/es-1 as a size is the one request for a 1 MiB block that succeeds (up to 10^6
        // constructor calls, again on the way down): G2 keeps 1 in 8 of them; G1 has them all
        if (CODEMAP[0][cb] == LIM_M1 && !r.chance(1, 8)) cb = r.byte();
        out.push_back(cb);
        if (r.chance(1, 2)) { out.push_back((uint8_t)r.below(20)); out.push_back(0); }   // rnd: half of them small
        else { out.push_back(r.byte()); out.push_back(r.byte()); }
    }
}

bool vf_scope(const std::string &name, Scope &s)
{
    // "argtable:<es index 0-8>:<base 0-2>:<xtor mode 0-3>:<depth>:<vectors>"
    // every single op x the full symbolic table (predicted aborts both on the
    // twin and on the main object), all sequences up to <depth> (default 1)
    int ei = 3, base = 0, mode = 1, depth = 1, nv = 1;
    if (strncmp(name.c_str(), "argtable", 8) != 0) return false;
    if (name.size() > 8) sscanf(name.c_str() + 8, ":%d:%d:%d:%d:%d", &ei, &base, &mode, &depth, &nv);
    s.header = {(uint8_t)(nv == 2 ? 1 : 0), (uint8_t)(ei % 9), (uint8_t)((mode & 3) | ((mode & 3) << 2)), 5, (uint8_t)(base % 3), 0};
    static const uint16_t RNDV[] = {3, 7, 300};
    for (int op = 0; op < NOPS; op++) {
        for (int vi = 0; vi < (nv == 2 ? 2 : 1); vi++) {
            if (op == SWAP && nv < 2) continue;
            bool has_arg = op == RESIZE || op == RESERVE || op == AT || op == WRITE;
            if (!has_arg) {
                for (int d = 0; d < (op == SORT ? 2 : 1); d++) {
                    s.alphabet.push_back({(uint8_t)op, (uint8_t)(2 | vi), CODEBYTE[0][K0], (uint8_t)d, 0});
                    s.names.push_back(OPN[op]);
                }
                continue;
            }
            for (int code = 0; code < NCODES; code++) {
                for (int k = 0; k < (code == RND ? 3 : 1); k++) {
                    uint16_t v = code == RND ? RNDV[k] : 0;
                    for (int mainobj = 0; mainobj < (op == RESERVE ? 1 : 2); mainobj++) {
                        // sel: bit0 vector; ((sel>>1)&63)%5==0 -> predicted aborts hit the main object; bit7 at_const
                        uint8_t sel = (uint8_t)((mainobj ? 0 : 2) | vi);
                        s.alphabet.push_back({(uint8_t)op, sel, CODEBYTE[op == AT || op == WRITE][code], (uint8_t)v, (uint8_t)(v >> 8)});
                        s.names.push_back(std::string(OPN[op]) + "(" + CODEN[code] + ")");
                        if (op == AT) {   // at_const variant
                            s.alphabet.push_back({(uint8_t)op, (uint8_t)(sel | 0x80), CODEBYTE[op == AT || op == WRITE][code], (uint8_t)v, (uint8_t)(v >> 8)});
                            s.names.push_back(std::string("at_const(") + CODEN[code] + ")");
                        }
                    }
                }
            }
        }
    }
    s.prune = false;
    s.max_depth = depth < 1 ? 1 : depth;
    return true;
}

// extra engine: `huge <seed> <outdir> <tag>`: vectors of 2^31 .. 2^33 elements. The interposer satisfies the
// multi-gigabyte requests with untouched MAP_NORESERVE mappings, the model is arithmetic only (no reference bytes):
// size, capacity, at() addresses and abort behaviour, block size vs capacity, destructor calls when shrinking across
// the 2^31 / 2^32 boundaries. Every count the library keeps in a type narrower than size_t shows here.
namespace {
struct HugeCtx { uint64_t dcalls; uintptr_t lo, hi; size_t es; bool bad; };
HugeCtx *g_huge;
void huge_dtor(void *e, void *priv)
{
    HugeCtx *h = g_huge;
    if (priv != (void *)h) h->bad = true;
    h->dcalls++;
    if ((uintptr_t)e < h->lo || (uintptr_t)e + h->es > h->hi) h->bad = true;
}
int engine_huge(uint64_t seed, const char *outdir, const char *tag)
{
    double t0 = now_s();
    g_cur.open(std::string(outdir) + "/cur-huge-" + tag + ".case");
    Rng r(mix_seed(seed, 4242, 1));
    uint64_t evals = 0;
    std::vector<std::string> sample;
    static const size_t ESZ[3] = {1, 2, 3};
    const size_t P31 = (size_t)1 << 31, P32 = (size_t)1 << 32, P33 = (size_t)1 << 33;
    for (int sc = 0; sc < 12; sc++) {
        case_reset();
        g_big_alloc_max = (size_t)1 << 36;
        size_t es = ESZ[sc % 3];
        bool with_dtor = sc % 2 == 0;
        size_t pivot = sc < 4 ? P32 : sc < 8 ? P31 : (sc < 10 ? P33 : P32 + P31);
        size_t up = pivot + 3 + r.below(40), down = pivot - 1 - r.below(40), mid = pivot + r.below(3);
        HugeCtx hc{0, 0, 0, es, false};
        g_huge = &hc;
        struct cstl_vector v;
        cstl_vector_init_complex(&v, es, nullptr, with_dtor ? huge_dtor : nullptr, &hc);
        g_cur_op = "huge scenario";
        char line[256];
        snprintf(line, sizeof line, "es=%zu dtor=%d: resize(%zu) resize(%zu) resize(%zu) reserve/shrink; at() at the ends", es, (int)with_dtor, up, mid, down);
        if (sample.size() < 3) sample.push_back(line);
        auto check = [&](size_t want, const char *after) {
            size_t sz, cap;
            void *d;
            LIB(sz = cstl_vector_size(&v));
            LIB(cap = cstl_vector_capacity(&v));
            LIB(d = cstl_vector_data(&v));
            CHECK(sz == want, "C09.huge.size", "after %s: size %zu, expected %zu (es %zu)", after, sz, want, es);
            CHECK(cap >= sz, "C09.cap_ge_size", "after %s: capacity %zu below size %zu", after, cap, sz);
            size_t R = 0;
            CHECK(d && lib_is_live(d, &R), "C09.block_live", "after %s: data %p is not a live library block", after, d);
            CHECK((unsigned __int128)R >= ((unsigned __int128)cap + 1) * es, "C09.block_ge_cap", "after %s: block of %zu bytes for capacity %zu (es %zu)", after, R, cap, es);
            hc.lo = (uintptr_t)d;
            hc.hi = (uintptr_t)d + R;
            for (size_t i : {(size_t)0, want / 2, want - 1}) {
                void *p;
                LIB(p = cstl_vector_at(&v, i));
                CHECK((uintptr_t)p == (uintptr_t)d + i * es, "C09.at.addr", "after %s: at(%zu) = %p, expected %p", after, i, p, (void *)((uintptr_t)d + i * es));
            }
            for (size_t i : {want, want + 1, SIZE_MAX}) {
                bool ab = may_abort([&] { (void)cstl_vector_at(&v, i); });
                CHECK(ab, "C09.at.abort", "after %s: at(%zu) on a vector of %zu elements did not abort", after, i, want);
            }
            evals++;
        };
        bool ab = may_abort([&] { cstl_vector_resize(&v, up); });
        if (ab || alloc_failures()) { lib_release_all(); CNT("noop.huge_alloc_refused"); continue; }   // no address space: inconclusive, not a failure
        check(up, "growing resize");
        uint64_t d0 = hc.dcalls;
        LIB(cstl_vector_resize(&v, mid));
        if (with_dtor) CHECK(hc.dcalls - d0 == up - mid, "C09.xtor.count", "shrinking from %zu to %zu ran the destructor %llu times", up, mid, (unsigned long long)(hc.dcalls - d0));
        check(mid, "shrink to the boundary");
        d0 = hc.dcalls;
        LIB(cstl_vector_resize(&v, down));
        if (with_dtor) CHECK(hc.dcalls - d0 == mid - down, "C09.xtor.count", "shrinking from %zu to %zu ran the destructor %llu times", mid, down, (unsigned long long)(hc.dcalls - d0));
        CHECK(!hc.bad, "C09.xtor.addr", "destructor received a wrong priv or an element outside the block");
        check(down, "shrink across the boundary");
        LIB(cstl_vector_shrink_to_fit(&v));
        check(down, "shrink_to_fit");
        LIB(cstl_vector_reserve(&v, up + 7));
        check(down, "reserve");
        if (!with_dtor) {
            LIB(cstl_vector_clear(&v));
            size_t sz, cap;
            LIB(sz = cstl_vector_size(&v));
            LIB(cap = cstl_vector_capacity(&v));
            CHECK(sz == 0 && cap == 0 && lib_live_count() == 0, "C09.clear", "clear of a huge vector leaves size %zu capacity %zu, %zu blocks", sz, cap, lib_live_count());
        } else lib_release_all();     // clearing would run the destructor ~2^32 times: the object is abandoned instead
    }
    FILE *f = fopen((std::string(outdir) + "/stats-huge-" + tag + ".json").c_str(), "w");
    if (f) {
        fprintf(f, "{\"engine\":\"vector-huge\",\"harness\":\"vector\",\"prop\":\"C09\",\"evaluations\":%llu,\"nontrivial\":%llu,"
                   "\"distinct_nontrivial\":0,\"distinct_extra\":%llu,\"wall_s\":%.3f,\"counters\":{},\"samples\":[",
                (unsigned long long)evals, (unsigned long long)evals, (unsigned long long)evals, now_s() - t0);
        for (size_t i = 0; i < sample.size(); i++) fprintf(f, "%s{\"ops\":[\"%s\"],\"nontrivial\":true}", i ? "," : "", sample[i].c_str());
        fprintf(f, "],\"note\":\"vectors of 2^31..2^33 elements on untouched MAP_NORESERVE mappings; arithmetic model only\"}\n");
        fclose(f);
    }
    return 0;
}
} // namespace

// extra engine: `argtable-all <depth> <outdir>` = the argtable scope for all
// 9 element sizes x 3 base states x {no xtor, ctor+dtor} in one process
int vf_custom(int argc, char **argv)
{
    if (argc >= 3 && !strcmp(argv[0], "argtable-all")) {
        int depth = atoi(argv[1]);
        for (int ei = 0; ei < 9; ei++) for (int base = 0; base < 3; base++) for (int mode = 0; mode < 2; mode++) {
            char sc[64], tag[64];
            snprintf(sc, sizeof sc, "argtable:%d:%d:%d:%d:1", ei, base, mode, depth);
            snprintf(tag, sizeof tag, "vector-argtable-%d-%d-%d", ei, base, mode);
            int rc = engine_g1(sc, 3000000, argv[2], tag);
            if (rc) return rc;
        }
        return 0;
    }
    if (argc >= 4 && !strcmp(argv[0], "huge")) return engine_huge(strtoull(argv[1], 0, 0), argv[2], argv[3]);
    fprintf(stderr, "unknown engine\n");
    return 2;
}
