// C05 (shared memory destroyed exactly once, exactly when its last owner lets
// go; unique pointers likewise) and the smart-pointer part of C16.
#include "common/verif.hpp"
extern "C" {
#include "cstl/memory.h"
}
using namespace vf;

const char *vf_harness_name() { return "mem"; }

namespace {
enum Op { S_ALLOC, S_SHARE, S_SWAP, S_RESET, S_GET, S_UNIQUE, W_FROM, W_LOCK, W_SWAP, W_RESET,
          U_ALLOC, U_GET, U_RELEASE, U_SWAP, U_RESET, S_BULK_SHARE, S_BULK_RESET, NOPS };
const char *OPN[] = {"shared_alloc", "shared_share", "shared_swap", "shared_reset", "shared_get", "shared_unique", "weak_from",
                     "weak_lock", "weak_swap", "weak_reset", "unique_alloc", "unique_get", "unique_release", "unique_swap", "unique_reset", "bulk_share", "bulk_reset"};
const uint8_t PROFILES[][NOPS] = {
    {1, 1, 1, 1, 1, 1, 1, 1, 1, 1, 1, 1, 1, 1, 1, 1, 1},
    {4, 5, 2, 3, 1, 2, 4, 5, 2, 3, 1, 0, 1, 1, 1, 1, 1},
    {3, 3, 3, 5, 0, 1, 3, 6, 1, 4, 0, 0, 0, 0, 0, 1, 1},
    {2, 1, 0, 1, 1, 0, 1, 1, 0, 1, 5, 2, 4, 4, 4, 0, 0},
    /* C16 */ {6, 2, 1, 2, 1, 1, 2, 2, 0, 1, 5, 1, 1, 1, 2, 0, 0},
};
const int NPROFILES = 5;
const int NS_MAX = 4, NW_MAX = 3, NU_MAX = 3;

struct Alloc {
    int serial;
    void *ptr, *book;
    size_t size;
    bool has_clr;
    int clr_calls;
    bool destroyed, book_freed;
    std::set<int> owners, weaks;
};
std::vector<Alloc> A;          // shared allocations of this case
struct UAlloc { int serial; void *ptr; bool has_clr; void *priv; int clr_calls; bool freed; };
std::vector<UAlloc> UA;

cstl_shared_ptr_t SP[NS_MAX];
cstl_weak_ptr_t WP[NW_MAX];
cstl_unique_ptr_t UP[NU_MAX];
int sh[NS_MAX], wk[NW_MAX], un[NU_MAX];   // model: index into A / UA or -1
// many co-owners of one allocation (reference counts far beyond what a handful of objects reach)
const size_t BULK_MAX = 70000;
cstl_shared_ptr_t BULK[BULK_MAX];
size_t bulk_n;
int bulk_ai;
bool g_allow_huge_bulk;
int g_serial;

// event log of the current op: interposer events + clear callbacks, in order
struct Ev { char kind; void *p; size_t sz; };   // 'm','f','x' from the interposer; 'c' clear callback
std::vector<Ev> g_pred;
size_t g_ev_mark;
std::vector<Ev> g_obs_extra;   // callbacks, with the position in g_events at which they happened
std::vector<size_t> g_obs_pos;
int g_priv_tokens[8];

void clr_cb(void *ptr, void *priv)
{
    HarnessScope hs;
    g_obs_extra.push_back({'c', ptr, (size_t)(uintptr_t)priv});
    g_obs_pos.push_back(g_events->size());
}

// shared pointers take no priv: what their clear callback receives there is not documented, so it is not compared
void clr_cb_sh(void *ptr, void *) { clr_cb(ptr, nullptr); }

// a clear function may itself use the library on the dying allocation: the classic case is a child object holding a weak
// back-reference to its parent, reset from the parent's clear function. g_inner_weak: managed block -> the pool's weak
// pointer that this block's clear function resets (if that weak pointer still refers to it).
std::unordered_map<void *, int> g_inner_weak, g_cb_reset;      // (g_cb_reset: decided by the model when it predicts the destruction)
void clr_cb_sh_reenter(void *ptr, void *)
{
    clr_cb(ptr, nullptr);
    auto it = g_cb_reset.find(ptr);
    if (it != g_cb_reset.end()) {
        int k = it->second;
        g_cb_reset.erase(it);
        cstl_weak_ptr_reset(&WP[k]);       // library call from within the clear function
    }
}

void begin_op()
{
    g_pred.clear();
    events_clear();
    g_obs_extra.clear();
    g_obs_pos.clear();
}
std::vector<Ev> observed()
{
    std::vector<Ev> o;
    size_t ci = 0;
    for (size_t i = 0; i <= g_events->size(); i++) {
        while (ci < g_obs_pos.size() && g_obs_pos[ci] == i) o.push_back(g_obs_extra[ci++]);
        if (i < g_events->size()) {
            const AllocEv &e = (*g_events)[i];
            o.push_back({e.kind == 'r' ? 'm' : e.kind, e.p, e.sz});
        }
    }
    return o;
}
std::string evstr(const std::vector<Ev> &v)
{
    std::string s;
    for (auto &e : v) {
        char b[64];
        if (e.kind == 'm' || e.kind == 'x') snprintf(b, sizeof b, "%c(%zu) ", e.kind, e.sz);
        else snprintf(b, sizeof b, "%c(%p) ", e.kind, e.p);
        s += b;
    }
    return s.empty() ? "(none)" : s;
}
const char *PFX() { return g_prop == "C16" ? "C16.mem" : "C05"; }
#define CL(name) (std::string(PFX()) + "." name).c_str()

bool inner_weak_applies(int ai, int *k)
{
    auto it = g_inner_weak.find(A[ai].ptr);
    if (it == g_inner_weak.end()) return false;
    int w = it->second;
    if (wk[w] != ai) return false;      // (by allocation, not by address: a freed address may be in use again)
    *k = w;
    return true;
}
// predicted events of dropping one owning reference / one weak reference
void pred_drop_owner(int ai, int who)
{
    Alloc &a = A[ai];
    a.owners.erase(who);
    if (a.owners.empty() && !a.destroyed) {
        if (a.has_clr) g_pred.push_back({'c', a.ptr, 0});
        g_pred.push_back({'f', a.ptr, 0});
        a.destroyed = true;
        CNT("class.destroy.last_owner");
        int k;
        if (a.has_clr && inner_weak_applies(ai, &k)) {
            // its clear function resets that weak pointer while the destruction is in progress
            a.weaks.erase(k);
            wk[k] = -1;
            g_cb_reset[a.ptr] = k;
            CNT("class.destroy.clear_function_resets_a_weak_pointer");
        }
        g_inner_weak.erase(a.ptr);      // (the address may be handed out again)
    }
    if (a.owners.empty() && a.weaks.empty() && !a.book_freed) {
        g_pred.push_back({'f', a.book, 0});
        a.book_freed = true;
    }
}
void pred_drop_weak(int ai, int who)
{
    Alloc &a = A[ai];
    a.weaks.erase(who);
    if (a.owners.empty() && a.weaks.empty() && !a.book_freed) {
        g_pred.push_back({'f', a.book, 0});
        a.book_freed = true;
        CNT("class.book.freed_by_weak");
    }
}

struct CaseCtx { bool lock_expired, retarget_destroys, swap_diff; bool fault_seen; size_t ops_after_fault; };
CaseCtx cx;

void compare_events(const char *what)
{
    // the property fixes WHAT happens during an operation (which blocks are cleared / freed / allocated) and
    // that a block's clear callback precedes its free; it does not fix the order of independent events
    std::vector<Ev> o = observed();
    auto norm = [](const Ev &e) {
        Ev n = e;
        if (n.kind == 'm' || n.kind == 'x') { n.p = nullptr; if (n.sz < 1000) n.sz = 1; }   // bookkeeping: any size below 1000
        else if (n.kind != 'c') n.sz = 0;        // a clear callback event carries the priv argument it received
        return n;
    };
    auto key = [](const Ev &a, const Ev &b) { return a.kind != b.kind ? a.kind < b.kind : a.p != b.p ? a.p < b.p : a.sz < b.sz; };
    std::vector<Ev> a, b;
    for (auto &e : o) a.push_back(norm(e));
    for (auto &e : g_pred) b.push_back(norm(e));
    std::sort(a.begin(), a.end(), key);
    std::sort(b.begin(), b.end(), key);
    bool ok = a.size() == b.size();
    for (size_t i = 0; ok && i < a.size(); i++) ok = a[i].kind == b[i].kind && a[i].p == b[i].p && a[i].sz == b[i].sz;
    CHECK(ok, CL("events"), "%s: observed events [%s] differ from the predicted [%s]", what, evstr(o).c_str(), evstr(g_pred).c_str());
    for (size_t i = 0; i < o.size(); i++)
        if (o[i].kind == 'f')
            for (size_t j = i + 1; j < o.size(); j++)
                CHECK(!(o[j].kind == 'c' && o[j].p == o[i].p), CL("clear_before_free"), "%s: memory %p was freed before its clear callback ran", what, o[i].p);
}

// alloc of ZERO bytes: whatever the object held goes first, exactly as for any other size; what the allocation itself
// does is not pinned down (empty object, or a block of no bytes), so its own blocks are only required to be consistent:
// every block obtained during the call is either still live and accounted for by the object, or was given back.
// Returns the blocks born in the call that are still live.
std::vector<void *> zero_alloc_events(const char *what)
{
    std::vector<Ev> o = observed(), rest;
    std::vector<Ev> want = g_pred;
    for (auto &e : o) {
        bool matched = false;
        for (size_t k = 0; k < want.size(); k++)
            if (want[k].kind == e.kind && want[k].p == e.p && (e.kind != 'c' || want[k].sz == e.sz)) { want.erase(want.begin() + k); matched = true; break; }
        if (!matched) rest.push_back(e);
    }
    CHECK(want.empty(), CL("events"), "%s of zero bytes: the previous content was not let go as for any other size: observed [%s], expected at least [%s]",
          what, evstr(o).c_str(), evstr(g_pred).c_str());
    std::vector<void *> live;
    for (auto &e : rest) {
        if (e.kind == 'm') live.push_back(e.p);
        else if (e.kind == 'f') {
            auto it = std::find(live.begin(), live.end(), e.p);
            CHECK(it != live.end(), CL("events"), "%s of zero bytes freed %p, which is neither the previous content nor a block of this call", what, e.p);
            live.erase(it);
        } else CHECK(e.kind == 'x', CL("events"), "%s of zero bytes: unexpected event [%s]", what, evstr(rest).c_str());
    }
    for (size_t i = 0; i < o.size(); i++)
        if (o[i].kind == 'f')
            for (size_t j = i + 1; j < o.size(); j++)
                CHECK(!(o[j].kind == 'c' && o[j].p == o[i].p), CL("clear_before_free"), "%s: memory %p was freed before its clear callback ran", what, o[i].p);
    return live;
}

void audit(int ns, int nw, int nu)
{
    for (int i = 0; i < ns; i++) {
        void *g;
        bool u;
        LIB(g = cstl_shared_ptr_get(&SP[i]));
        LIB(u = cstl_shared_ptr_unique(&SP[i]));
        if (sh[i] < 0) {
            CHECK(g == nullptr, CL("get"), "empty shared pointer S%d returns %p", i, g);
            CHECK(u, CL("unique"), "unique() is false for the empty shared pointer S%d", i);
        } else {
            Alloc &a = A[sh[i]];
            CHECK(g == a.ptr, CL("get"), "S%d get() returns %p, its allocation lives at %p", i, g, a.ptr);
            bool want = a.owners.size() + a.weaks.size() == 1;
            CHECK(u == want, CL("unique"), "S%d unique() is %d with %zu owners and %zu weak references", i, (int)u, a.owners.size(), a.weaks.size());
            CHECK(lib_is_live(a.ptr), CL("alive"), "memory owned by S%d is no longer allocated", i);
        }
    }
    for (int i = 0; i < nu; i++) {
        void *g;
        LIB(g = cstl_unique_ptr_get(&UP[i]));
        CHECK(g == (un[i] < 0 ? nullptr : UA[un[i]].ptr), CL("unique_get"), "U%d get() returns %p, expected %p", i, g, un[i] < 0 ? nullptr : UA[un[i]].ptr);
    }
    (void)nw;
}

void apply(int op, uint8_t a, uint8_t b, int ns, int nw, int nu)
{
    g_cur_op = OPN[op];
    begin_op();
    int i = a % ns, j = b % ns;
    int w = a % nw, w2 = b % nw;
    int u = a % nu, u2 = b % nu;
    if (g_replay_mode == 1) TRACE("> %s %u %u", OPN[op], a, b);
    switch (op) {
    case S_ALLOC: {
        bool clr = b & 1;
        size_t sz = 1000 + (size_t)g_serial;
        const uint64_t S_f0 = alloc_failures();
        bool occupied = sh[i] >= 0;
        size_t destroyed_before = 0;
        for (auto &al : A) destroyed_before += al.destroyed;
        if (occupied) pred_drop_owner(sh[i], i);
        sh[i] = -1;
        if ((b >> 4) >= 0xE) {
            // zero bytes, or a SMALL object (1..256 bytes: the ordinary path tells the managed block from the bookkeeping
            // block by size, here get() identifies it)
            const size_t zs = (b >> 4) == 0xF ? 0 : 1 + ((size_t)g_serial * 37 + b) % 256;
            if (zs) CNT("class.alloc.small_object"); else CNT("class.alloc.zero_bytes");
            LIB(cstl_shared_ptr_alloc(&SP[i], zs, clr ? clr_cb_sh : nullptr));
            std::vector<void *> live = zero_alloc_events("shared_alloc");
            void *g;
            LIB(g = cstl_shared_ptr_get(&SP[i]));
            if (g && zs) memset(g, 0xA5, zs);
            if (zs && alloc_failures() == S_f0) CHECK(g != nullptr, CL("get"), "shared_alloc of %zu bytes with no refused request left the object empty", zs);
            TRACE("S%d alloc(%zu%s)%s -> %s", i, zs, clr ? ", clr" : "", occupied ? " [occupied]" : "", g ? "a block" : "empty");
            if (!g) CHECK(live.empty(), CL("leak"), "shared_alloc of zero bytes left the object empty but kept %zu block(s)", live.size());
            else {
                auto it = std::find(live.begin(), live.end(), g);
                CHECK(it != live.end() && live.size() == 2, CL("events"), "shared_alloc of %zu bytes: get() returns %p, the call left %zu live block(s) (the managed memory and the bookkeeping are two blocks: the memory goes when the last owner goes, the bookkeeping when the last weak reference goes)", zs, g, live.size());
                live.erase(it);
                Alloc al;
                al.serial = g_serial++;
                al.book = live[0];
                al.ptr = g;
                al.size = zs;
                al.has_clr = clr;
                al.clr_calls = 0;
                al.destroyed = al.book_freed = false;
                al.owners.insert(i);
                A.push_back(al);
                sh[i] = (int)A.size() - 1;
            }
            begin_op();
            break;
        }
        size_t pre = g_pred.size();
        const bool reenter = clr && (b & 8);
        LIB(cstl_shared_ptr_alloc(&SP[i], sz, clr ? (reenter ? clr_cb_sh_reenter : clr_cb_sh) : nullptr));
        // what the allocator did decides the outcome (faults / limit): read it from the log
        std::vector<Ev> o = observed();
        // the bookkeeping block is the request below 1000 bytes, the managed block the one of sz bytes (any order)
        Ev book{0, nullptr, 0}, man{0, nullptr, 0};
        for (auto &e : o) if (e.kind == 'm' || e.kind == 'x') { if (e.sz >= 1000) man = e; else book = e; }
        bool ok1 = book.kind == 'm', ok2 = man.kind == 'm';
        if (book.kind) g_pred.push_back({book.kind, nullptr, 1});
        if (man.kind) g_pred.push_back({man.kind, nullptr, sz});
        if (!(ok1 && ok2)) {
            // whichever block was obtained must be given back; at least one request must have been refused
            if (ok1) g_pred.push_back({'f', book.p, 0});
            if (ok2) g_pred.push_back({'f', man.p, 0});
            if (!book.kind && !man.kind) g_pred.push_back({'x', nullptr, 1});
        }
        std::vector<Ev> allocs = {book, man};
        (void)pre;
        TRACE("S%d alloc(%zu%s)%s -> %s", i, sz, clr ? ", clr" : "", occupied ? " [occupied]" : "", ok1 && ok2 ? "ok" : "allocation failed: empty");
        if (ok1 && ok2) {
            Alloc al;
            al.serial = g_serial++;
            al.book = allocs[0].p;
            al.ptr = allocs[1].p;
            al.size = sz;
            al.has_clr = clr;
            al.clr_calls = 0;
            al.destroyed = al.book_freed = false;
            al.owners.insert(i);
            A.push_back(al);
            sh[i] = (int)A.size() - 1;
        } else CNT("class.alloc_failed.shared");
        size_t destroyed_after = 0;
        for (auto &al : A) destroyed_after += al.destroyed;
        if (occupied && destroyed_after > destroyed_before) cx.retarget_destroys = true;
        compare_events("shared_alloc");
        if (sh[i] >= 0) { void *g; LIB(g = cstl_shared_ptr_get(&SP[i])); if (g) memset(g, 0xA5, sz); }
        if (sh[i] >= 0 && reenter) {
            int k = (b >> 5) % nw;
            if (wk[k] < 0) {
                begin_op();
                LIB(cstl_weak_ptr_from(&WP[k], &SP[i]));
                wk[k] = sh[i];
                A[sh[i]].weaks.insert(k);
                g_inner_weak[A[sh[i]].ptr] = k;
                TRACE("W%d from S%d: the back-reference this allocation's clear function resets", k, i);
                compare_events("weak_from");
            }
        }
        break;
    }
    case S_SHARE: {
        if (i == j) {
            // share(a, a): what it does to a is not documented (on the pinned tree it acts as a reset; leaving a as it
            // is would be as defensible). Both are accepted -- the outcome is read off get() -- but whichever it is,
            // the counting clauses hold: if a came out empty it stopped being an owner *now* (clear / free events of
            // this very call when it was the last one), if it kept the address it still is one. Found necessary by
            // seeded C05-w7b-1 (references taken before the destination is reset: a self-share leaks an owner).
            int k;
            if (sh[i] >= 0 && A[sh[i]].has_clr && inner_weak_applies(sh[i], &k)) { CNT("noop.self"); TRACE("share noop (same object)"); return; }
            LIB(cstl_shared_ptr_share(&SP[i], &SP[i]));
            const void *g;
            LIB(g = cstl_shared_ptr_get_const(&SP[i]));
            if (sh[i] >= 0 && g == nullptr) { pred_drop_owner(sh[i], i); sh[i] = -1; CNT("class.self_share.emptied_the_object"); }
            else CNT(sh[i] >= 0 ? "class.self_share.kept_the_object" : "class.self_share.empty_object");
            TRACE("S%d share -> itself: %s", i, g ? "still refers to its memory" : "empty afterwards");
            compare_events("shared_share_self");
            break;
        }
        bool occupied = sh[j] >= 0;
        size_t d0 = 0, d1 = 0;
        for (auto &al : A) d0 += al.destroyed;
        if (occupied) pred_drop_owner(sh[j], j);
        sh[j] = sh[i];
        if (sh[i] >= 0) A[sh[i]].owners.insert(j);
        LIB(cstl_shared_ptr_share(&SP[i], &SP[j]));
        for (auto &al : A) d1 += al.destroyed;
        if (occupied && d1 > d0) cx.retarget_destroys = true;
        TRACE("S%d share -> S%d%s%s", i, j, occupied ? " [dst occupied]" : "", sh[i] < 0 ? " [src empty]" : "");
        compare_events("shared_share");
        break;
    }
    case S_SWAP: {
        if (i == j) {
            // swap(a, a): as for the self-share above the outcome is read off get() and both readings are accepted (an
            // exchange through XOR or through a cleared temporary empties the object); the counting clauses apply
            int k;
            if (sh[i] >= 0 && A[sh[i]].has_clr && inner_weak_applies(sh[i], &k)) { CNT("noop.self"); TRACE("swap noop"); return; }
            LIB(cstl_shared_ptr_swap(&SP[i], &SP[i]));
            const void *g;
            LIB(g = cstl_shared_ptr_get_const(&SP[i]));
            if (sh[i] >= 0 && g == nullptr) { pred_drop_owner(sh[i], i); sh[i] = -1; CNT("class.self_swap.emptied_the_object"); }
            else CNT(sh[i] >= 0 ? "class.self_swap.kept_the_object" : "class.self_swap.empty_object");
            TRACE("S%d swap with itself: %s", i, g ? "still refers to its memory" : "empty afterwards");
            compare_events("shared_swap_self");
            break;
        }
        LIB(cstl_shared_ptr_swap(&SP[i], &SP[j]));
        if (sh[i] >= 0 && sh[j] >= 0 && sh[i] != sh[j]) { cx.swap_diff = true; CNT("class.swap.different_allocations"); }
        if (sh[i] >= 0) { A[sh[i]].owners.erase(i); }
        if (sh[j] >= 0) { A[sh[j]].owners.erase(j); }
        std::swap(sh[i], sh[j]);
        if (sh[i] >= 0) A[sh[i]].owners.insert(i);
        if (sh[j] >= 0) A[sh[j]].owners.insert(j);
        TRACE("S%d swap S%d", i, j);
        compare_events("shared_swap");
        break;
    }
    case S_RESET:
        if (sh[i] >= 0) pred_drop_owner(sh[i], i);
        sh[i] = -1;
        LIB(cstl_shared_ptr_reset(&SP[i]));
        TRACE("S%d reset", i);
        compare_events("shared_reset");
        break;
    case S_GET:
    case S_UNIQUE:
        TRACE("S%d %s", i, OPN[op]);
        break;      // audited after every op
    case W_FROM: {
        int s = b % ns;
        if (wk[w] >= 0) pred_drop_weak(wk[w], w);
        wk[w] = sh[s];
        if (sh[s] >= 0) A[sh[s]].weaks.insert(w);
        LIB(cstl_weak_ptr_from(&WP[w], &SP[s]));
        TRACE("W%d from S%d%s", w, s, sh[s] < 0 ? " [src empty]" : "");
        compare_events("weak_from");
        break;
    }
    case W_LOCK: {
        int s = b % ns;
        bool occupied = sh[s] >= 0;
        size_t d0 = 0, d1 = 0;
        for (auto &al : A) d0 += al.destroyed;
        if (occupied && sh[s] == wk[w] && A[sh[s]].owners.size() == 1) {
            // the destination is the only owner of the very allocation the weak pointer refers to. Whether the
            // destination lets go before or after the lock attempt is not documented (weak_from and alloc say
            // "reset prior", lock does not): either the memory is destroyed and the owner ends up empty, or
            // nothing at all changes. The outcome decides which of the two predictions applies.
            CNT("class.lock.into_sole_owner");
            g_inner_weak.erase(A[sh[s]].ptr);       // (the outcome is only known after the call: no callback re-entry in this corner)
            LIB(cstl_weak_ptr_lock(&WP[w], &SP[s]));
            void *g;
            LIB(g = cstl_shared_ptr_get(&SP[s]));
            TRACE("W%d lock -> S%d [dst is the sole owner of the same memory]: %s", w, s, g ? "still owner" : "destroyed, empty");
            if (!g) { pred_drop_owner(sh[s], s); sh[s] = -1; cx.lock_expired = true; }
            compare_events("weak_lock");
            break;
        }
        if (occupied) pred_drop_owner(sh[s], s);
        sh[s] = -1;
        bool live = wk[w] >= 0 && !A[wk[w]].owners.empty();
        if (wk[w] >= 0 && !live) { cx.lock_expired = true; CNT("class.lock.expired"); }
        if (live) { sh[s] = wk[w]; A[wk[w]].owners.insert(s); CNT("class.lock.live"); }
        LIB(cstl_weak_ptr_lock(&WP[w], &SP[s]));
        for (auto &al : A) d1 += al.destroyed;
        if (occupied && d1 > d0) cx.retarget_destroys = true;
        TRACE("W%d lock -> S%d%s: %s", w, s, occupied ? " [dst occupied]" : "", wk[w] < 0 ? "weak empty" : live ? "owner" : "expired");
        compare_events("weak_lock");
        break;
    }
    case W_SWAP:
        if (w == w2) { CNT("noop.self"); TRACE("weak swap noop"); return; }
        LIB(cstl_weak_ptr_swap(&WP[w], &WP[w2]));
        if (wk[w] >= 0) A[wk[w]].weaks.erase(w);
        if (wk[w2] >= 0) A[wk[w2]].weaks.erase(w2);
        std::swap(wk[w], wk[w2]);
        if (wk[w] >= 0) A[wk[w]].weaks.insert(w);
        if (wk[w2] >= 0) A[wk[w2]].weaks.insert(w2);
        TRACE("W%d swap W%d", w, w2);
        compare_events("weak_swap");
        break;
    case W_RESET:
        if (wk[w] >= 0) pred_drop_weak(wk[w], w);
        wk[w] = -1;
        LIB(cstl_weak_ptr_reset(&WP[w]));
        TRACE("W%d reset", w);
        compare_events("weak_reset");
        break;
    case U_ALLOC: {
        bool clr = b & 1;
        size_t sz = 1000 + (size_t)g_serial;
        if (un[u] >= 0) {
            UAlloc &x = UA[un[u]];
            if (x.has_clr) g_pred.push_back({'c', x.ptr, (size_t)(uintptr_t)x.priv});
            g_pred.push_back({'f', x.ptr, 0});
            x.freed = true;
            un[u] = -1;
        }
        void *priv = &g_priv_tokens[u];
        if ((b >> 4) == 0xF) {
            CNT("class.alloc.zero_bytes");
            LIB(cstl_unique_ptr_alloc(&UP[u], 0, clr ? clr_cb : nullptr, priv));
            std::vector<void *> live = zero_alloc_events("unique_alloc");
            void *g;
            LIB(g = cstl_unique_ptr_get(&UP[u]));
            TRACE("U%d alloc(0%s) -> %s", u, clr ? ", clr" : "", g ? "a block of no bytes" : "empty");
            if (!g) CHECK(live.empty(), CL("leak"), "unique_alloc of zero bytes left the object empty but kept %zu block(s)", live.size());
            else {
                CHECK(live.size() == 1 && live[0] == g, CL("events"), "unique_alloc of zero bytes: get() returns %p, the call left %zu live block(s)", g, live.size());
                UA.push_back({g_serial++, g, clr, priv, 0, false});
                un[u] = (int)UA.size() - 1;
            }
            begin_op();
            break;
        }
        LIB(cstl_unique_ptr_alloc(&UP[u], sz, clr ? clr_cb : nullptr, priv));
        std::vector<Ev> o = observed();
        bool ok = false;
        void *p = nullptr;
        for (auto &e : o) if (e.kind == 'm') { ok = true; p = e.p; }
        g_pred.push_back({ok ? 'm' : 'x', nullptr, sz});
        TRACE("U%d alloc(%zu%s) -> %s", u, sz, clr ? ", clr" : "", ok ? "ok" : "allocation failed: empty");
        if (ok) { UA.push_back({g_serial++, p, clr, priv, 0, false}); un[u] = (int)UA.size() - 1; }
        else CNT("class.alloc_failed.unique");
        compare_events("unique_alloc");
        break;
    }
    case U_GET:
        TRACE("U%d get", u);
        break;
    case U_RELEASE: {
        // both out-parameters may be NULL (header): the caller then already knows the clear function
        bool want_f = !(b & 2), want_pv = !(b & 4);
        cstl_xtor_func_t *f = (cstl_xtor_func_t *)0x1;
        void *pv = (void *)0x1, *p;
        LIB(p = cstl_unique_ptr_release(&UP[u], want_f ? &f : nullptr, want_pv ? &pv : nullptr));
        TRACE("U%d release(%s, %s) -> %s", u, want_f ? "&clr" : "NULL", want_pv ? "&priv" : "NULL", p ? "pointer" : "NULL");
        if (!want_f || !want_pv) CNT("class.release.null_out_param");
        if (un[u] < 0) {
            CHECK(p == nullptr, CL("release"), "release of the empty U%d returned %p", u, p);
            compare_events("unique_release");
        } else {
            UAlloc &x = UA[un[u]];
            CHECK(p == x.ptr, CL("release"), "release returned %p, U%d managed %p", p, u, x.ptr);
            if (want_f) CHECK(f == (x.has_clr ? clr_cb : nullptr), CL("release"), "release did not hand back the clear function");
            if (want_pv && x.has_clr) CHECK(pv == x.priv, CL("release"), "release did not hand back the clear function's priv");
            compare_events("unique_release");       // releasing clears and frees nothing
            // as documented the caller now runs the clear function and frees the memory
            begin_op();
            if (x.has_clr) clr_cb(p, x.priv);
            LIB(free(p));           // the interposer sees the release of a block the library allocated
            x.freed = true;
            un[u] = -1;
            begin_op();
        }
        break;
    }
    case U_SWAP:
        if (u == u2) { CNT("noop.self"); TRACE("unique swap noop"); return; }
        LIB(cstl_unique_ptr_swap(&UP[u], &UP[u2]));
        std::swap(un[u], un[u2]);
        TRACE("U%d swap U%d", u, u2);
        compare_events("unique_swap");
        break;
    case S_BULK_SHARE: {
        if (bulk_n || sh[i] < 0) { CNT("noop.bulk"); TRACE("bulk_share noop"); return; }
        static const size_t NS[8] = {3, 17, 300, 255, 256, 257, 1000, 66000};
        size_t n = NS[b % 8];
        if (n > 1000 && !g_allow_huge_bulk) n = 40;
        for (size_t k = 0; k < n; k++) {
            cstl_shared_ptr_init(&BULK[k]);
            LIB(cstl_shared_ptr_share(&SP[i], &BULK[k]));
            A[sh[i]].owners.insert(1000 + (int)k);
        }
        bulk_n = n;
        bulk_ai = sh[i];
        TRACE("S%d shared into %zu further owners", i, n);
        if (n > 60000) CNT("class.bulk.huge"); else CNT("class.bulk.small");
        compare_events("bulk_share");
        break;
    }
    case S_BULK_RESET: {
        if (!bulk_n) { CNT("noop.bulk"); TRACE("bulk_reset noop"); return; }
        for (size_t k = 0; k < bulk_n; k++) {
            pred_drop_owner(bulk_ai, 1000 + (int)k);
            LIB(cstl_shared_ptr_reset(&BULK[k]));
        }
        TRACE("%zu further owners reset", bulk_n);
        bulk_n = 0;
        compare_events("bulk_reset");
        break;
    }
    case U_RESET:
        if (un[u] >= 0) {
            UAlloc &x = UA[un[u]];
            if (x.has_clr) g_pred.push_back({'c', x.ptr, (size_t)(uintptr_t)x.priv});
            g_pred.push_back({'f', x.ptr, 0});
            x.freed = true;
            un[u] = -1;
        }
        LIB(cstl_unique_ptr_reset(&UP[u]));
        TRACE("U%d reset", u);
        compare_events("unique_reset");
        break;
    }
    audit(ns, nw, nu);
}

std::string model_state(int ns, int nw, int nu)
{
    // canonical *model* state (the reference counters are private to memory.c): allocations
    // renumbered in order of first appearance
    std::map<int, int> ren;
    std::string s;
    auto id = [&](int ai) { if (ai < 0) return -1; if (!ren.count(ai)) { int n = (int)ren.size(); ren[ai] = n; } return ren[ai]; };
    for (int i = 0; i < ns; i++) s += "S" + std::to_string(id(sh[i]));
    for (int i = 0; i < nw; i++) s += "W" + std::to_string(id(wk[i])) + (wk[i] >= 0 && A[wk[i]].owners.empty() ? "x" : "");
    for (int i = 0; i < nu; i++) s += un[i] < 0 ? "U-" : (UA[un[i]].has_clr ? "Uc" : "Un");
    for (auto &kv : ren) s += A[kv.first].has_clr ? "c" : "n";
    return s;
}
} // namespace

void vf_run(const uint8_t *data, size_t len)
{
    Cursor cur(data, len);
    int ns = 1 + cur.u8() % NS_MAX, nw = 1 + cur.u8() % NW_MAX, nu = 1 + cur.u8() % NU_MAX;
    int prof = cur.u8() % NPROFILES;
    bool c16 = g_prop == "C16";
    memset(&cx, 0, sizeof cx);
    A.clear();
    UA.clear();
    g_inner_weak.clear();
    g_cb_reset.clear();
    bulk_n = 0;
    bulk_ai = -1;
    g_allow_huge_bulk = !g_want_state && (len > 4 && data[3] >= 128);   // header bit: scale run
    g_serial = 0;
    g_record_events = true;
    memset(SP, 0xA5, sizeof SP); memset(WP, 0xA5, sizeof WP); memset(UP, 0xA5, sizeof UP);      // init must set every field itself
    for (int i = 0; i < NS_MAX; i++) { cstl_shared_ptr_init(&SP[i]); sh[i] = -1; }
    for (int i = 0; i < NW_MAX; i++) { cstl_weak_ptr_init(&WP[i]); wk[i] = -1; }
    for (int i = 0; i < NU_MAX; i++) { cstl_unique_ptr_init(&UP[i]); un[i] = -1; }
    std::vector<uint8_t> tab;
    for (int o = 0; o < NOPS; o++) for (int k = 0; k < PROFILES[prof][o]; k++) tab.push_back((uint8_t)o);
    TRACE("header shared=%d weak=%d unique=%d profile=%d", ns, nw, nu, prof);
    size_t nops = 0;
    bool marked = false;
    while (cur.remaining() >= 3) {
        uint8_t o = cur.u8(), a = cur.u8(), b = cur.u8();
        if (o == 0xFE) { if (g_want_state) { g_state = model_state(ns, nw, nu); marked = true; } continue; }
        int op = tab[o % tab.size()];
        nops++;
        uint64_t fh = g_faults_hit;
        apply(op, a, b, ns, nw, nu);
        if (cx.fault_seen) cx.ops_after_fault++;
        if (g_faults_hit != fh) cx.fault_seen = true;
    }
    if (g_want_state && !marked) g_state = model_state(ns, nw, nu);
    // end of case: reset everything; nothing may stay allocated
    g_cur_op = "final reset";
    if (bulk_n) apply(S_BULK_RESET, 0, 0, ns, nw, nu);
    for (int i = 0; i < ns; i++) apply(S_RESET, (uint8_t)i, 0, ns, nw, nu);
    for (int i = 0; i < nw; i++) apply(W_RESET, (uint8_t)i, 0, ns, nw, nu);
    for (int i = 0; i < nu; i++) apply(U_RESET, (uint8_t)i, 0, ns, nw, nu);
    CHECK(lib_live_count() == 0, CL("leak"), "%zu library allocations are still live after every pointer was reset", lib_live_count());
    g_record_events = false;
    if (c16) g_nontrivial = g_faults_hit >= 1 && cx.ops_after_fault >= 3;
    else g_nontrivial = cx.lock_expired && cx.retarget_destroys && cx.swap_diff;
    CNTN("ops", nops);
}

void vf_gen(Rng &r, std::vector<uint8_t> &out)
{
    bool c16 = g_prop == "C16";
    out.push_back(r.byte());
    out.push_back(r.byte());
    out.push_back(r.byte());
    bool scale = !c16 && r.chance(1, 3000);
    // scale runs use profile 0 (130 % 5 == 0: op byte == op) so that the forced prefix below decodes as written
    out.push_back(scale ? (uint8_t)130 : (uint8_t)(c16 ? 4 : (r.chance(1, 5) ? (r.chance(1, 2) ? 0 : 3) : 1 + r.below(2))));
    size_t n = c16 ? 6 + r.below(10) : r.chance(1, 3) ? 2 + r.below(12) : r.chance(2, 3) ? 8 + r.below(40) : 8 + r.below(200);
    for (size_t i = 0; i < n; i++) { out.push_back(r.byte() % 255); out.push_back(r.byte()); out.push_back(r.byte()); }
    if (scale && out.size() >= 4 + 9) {
        // alloc into S0, then 66000 further owners, then whatever the rest of the history does
        out[4] = S_ALLOC; out[5] = 0; out[6] = 1;
        out[7] = S_BULK_SHARE; out[8] = 0; out[9] = 7;
    }
}

bool vf_scope(const std::string &name, Scope &s)
{
    // "<shared>:<weak>:<unique>:seqN|closure"
    int ns = 2, nw = 2, nu = 1;
    char mode[32] = "seq4";
    sscanf(name.c_str(), "%d:%d:%d:%31s", &ns, &nw, &nu, mode);
    s.header = {(uint8_t)(ns - 1), (uint8_t)(nw - 1), (uint8_t)(nu - 1), 0};
    for (int i = 0; i < ns; i++) {
        s.alphabet.push_back({S_ALLOC, (uint8_t)i, 1});
        s.alphabet.push_back({S_RESET, (uint8_t)i, 0});
        for (int j = 0; j < ns; j++) if (i != j) s.alphabet.push_back({S_SHARE, (uint8_t)i, (uint8_t)j});
        for (int j = i + 1; j < ns; j++) s.alphabet.push_back({S_SWAP, (uint8_t)i, (uint8_t)j});
    }
    for (int w = 0; w < nw; w++) {
        for (int i = 0; i < ns; i++) { s.alphabet.push_back({W_FROM, (uint8_t)w, (uint8_t)i}); s.alphabet.push_back({W_LOCK, (uint8_t)w, (uint8_t)i}); }
        s.alphabet.push_back({W_RESET, (uint8_t)w, 0});
        for (int j = w + 1; j < nw; j++) s.alphabet.push_back({W_SWAP, (uint8_t)w, (uint8_t)j});
    }
    for (int u = 0; u < nu; u++) {
        s.alphabet.push_back({U_ALLOC, (uint8_t)u, 1});
        s.alphabet.push_back({U_RELEASE, (uint8_t)u, 0});
        s.alphabet.push_back({U_RELEASE, (uint8_t)u, 6});   // both out-parameters NULL
        s.alphabet.push_back({U_RESET, (uint8_t)u, 0});
    }
    if (!strncmp(mode, "seq", 3)) { s.prune = false; s.max_depth = atoi(mode + 3); }
    return true;
}

int vf_custom(int, char **) { fprintf(stderr, "unknown engine\n"); return 2; }
