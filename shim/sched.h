/* Shadow <sched.h> for the C06 check: sched_yield() returns control to the
 * harness's scheduler (see stdatomic.h next to this file). */
#ifndef VERIF_SHIM_SCHED_H
#define VERIF_SHIM_SCHED_H
#ifdef __cplusplus
extern "C" {
#endif
int vfs_sched_yield(void);
#ifdef __cplusplus
}
#endif
#define sched_yield() vfs_sched_yield()
#endif
