#!/usr/bin/env python3
"""G8 engine for property C18: public headers are usable by client programs
that link the built library.

    run(ctx) -> None | (clause, replay_path, message)

ctx keys: repo, outdir, seed, tier ('quick'|'thorough'), budget, verif, njobs.

What it does (see DESIGN.md "### C18"):
  1. copies Makefile, src/, include/ of ctx['repo'] to <outdir>/c18_tree and
     runs the project's own `make b` there (libcstl.a + libcstl.so);
  2. public headers = include/cstl/*.h minus _string.h; per header the functions
     it declares/defines are extracted with `gcc -aux-info`;
  3. generates client programs (header list x {1,2} TUs x {static,shared} x
     {include-only, address-of-every-function}), compiles them with the
     project's own CFLAGS (read from the Makefile) + -O0, links and runs them;
     only a non-zero exit status of compiler/linker/program is a failure;
  4. checks that every non-static function a public header declares is exported
     by libcstl.so (nm -D) and defined in libcstl.a (nm -g);
  5. writes <outdir>/stats-g8-clients.json; on a failure saves a self-contained
     replay directory <verif>/replays/C18/<sha>/ (sources, commands, output,
     replay.sh) and returns (clause, .../replay.sh, message).

Clauses: C18.build, C18.compile, C18.link, C18.run, C18.symbol_missing.

Stand-alone: python3 c18_clients.py --repo /repo --tier quick --seed 1 --out /tmp/c18_out
"""
import concurrent.futures
import glob
import hashlib
import json
import os
import random
import re
import shlex
import shutil
import subprocess
import sys
import time

TREE = '@TREE@'            # placeholder for the scratch copy of the tree under test
DEFAULT_CFLAGS = ['-Wall', '-Wextra', '-Werror=vla', '-Werror=declaration-after-statement',
                  '-std=c99', '-pedantic', '-D_POSIX_C_SOURCE=199309L']
EXCLUDED_HEADERS = ('_string.h',)   # the guard-less template that string.h instantiates
CMD_TIMEOUT = 180

# ---------------------------------------------------------------- small helpers
def _run(cmd, cwd=None, env=None, timeout=CMD_TIMEOUT):
    """Run a command; returns (rc, combined output). rc -999 = timeout, -998 = cannot exec."""
    try:
        r = subprocess.run(cmd, cwd=cwd, env=env, stdout=subprocess.PIPE, stderr=subprocess.STDOUT,
                           timeout=timeout)
        return r.returncode, r.stdout.decode(errors='replace')
    except subprocess.TimeoutExpired as e:
        return -999, 'timeout after %ss\n%s' % (timeout, (e.stdout or b'').decode(errors='replace'))
    except OSError as e:
        return -998, 'cannot execute %s: %s' % (cmd[0], e)


def _subst(cmd, tree):
    return [a.replace(TREE, tree) for a in cmd]


def _sh(cmd):
    """Render a command (with @TREE@ placeholders) as a /bin/sh line using "$T"."""
    out = []
    for a in cmd:
        if TREE in a:
            parts = a.split(TREE)
            q = '"$T"'.join(shlex.quote(p) if p else '' for p in parts)
            out.append(q)
        else:
            out.append(shlex.quote(a))
    return ' '.join(out)


def copy_tree(repo, dst):
    """Copy Makefile, src/, include/ (not .git, not build/) and create an empty build/."""
    shutil.rmtree(dst, ignore_errors=True)
    os.makedirs(dst)
    shutil.copy2(os.path.join(repo, 'Makefile'), os.path.join(dst, 'Makefile'))
    for d in ('src', 'include'):
        shutil.copytree(os.path.join(repo, d), os.path.join(dst, d))
    os.makedirs(os.path.join(dst, 'build'), exist_ok=True)


def make_var(tree, var):
    """Value of a make variable as the project's Makefile computes it (None if unavailable)."""
    rc, out = _run(['make', '-s', '--no-print-directory', '-C', tree,
                    '--eval', 'c18-print-var: ; $(info C18VAR:$(%s))' % var, 'c18-print-var'])
    if rc == 0:
        for line in out.splitlines():
            if line.startswith('C18VAR:'):
                return line[len('C18VAR:'):].strip()
    return None


def project_flags(tree):
    """(CC, CFLAGS list) of the project; dependency-file flags (-MMD etc.) are dropped because
    they only write side files and are neither dialect nor diagnostics options."""
    cc = make_var(tree, 'CC') or 'gcc'
    val = make_var(tree, 'CFLAGS')
    src = 'make'
    if val is None:
        # fall back to reading the assignment textually
        src = 'text'
        try:
            txt = open(os.path.join(tree, 'Makefile')).read().replace('\\\n', ' ')
            m = re.search(r'^CFLAGS\s*[:?]?=\s*(.*)$', txt, re.M)
            val = m.group(1) if m else None
        except OSError:
            val = None
    if val is None:
        return cc, list(DEFAULT_CFLAGS), 'default'
    try:
        flags = shlex.split(val)
    except ValueError:
        flags = val.split()
    out = []
    skip = False
    for f in flags:
        if skip:
            skip = False
            continue
        if f in ('-MF', '-MT', '-MQ'):
            skip = True
            continue
        if f in ('-MMD', '-MD', '-MP', '-M', '-MM', '-MG'):
            continue
        out.append(f)
    return shlex.split(cc)[0] if cc.strip() else 'gcc', out, src

# ---------------------------------------------------------------- aux-info
_AUX_RE = re.compile(r'^/\*\s*(.+?):(\d+):([NO][CF])\s*\*/\s*(extern|static)\s+(.*)$')
_NAME_RE = re.compile(r'([A-Za-z_]\w*)\s*\(')


def parse_aux(text, incdir):
    """-> list of (name, is_static, is_definition, file, line) for functions coming from incdir."""
    res = []
    seen = set()
    incdir = os.path.realpath(incdir) + os.sep
    for line in text.splitlines():
        m = _AUX_RE.match(line)
        if not m:
            continue
        path, lineno, kind, storage, rest = m.groups()
        if not os.path.realpath(path).startswith(incdir):
            continue
        # drop the K&R commentary gcc appends to definitions
        rest = rest.split('; /*')[0]
        nm_ = _NAME_RE.search(rest)
        if not nm_:
            continue
        name = nm_.group(1)
        if name in seen:
            continue
        seen.add(name)
        res.append((name, storage == 'static', kind.endswith('F'), os.path.basename(path), int(lineno)))
    return res


def extract_functions(cc, cflags, tree, header, workdir):
    """Functions visible to a TU that includes cstl/<header> (or, given a list, those headers in that order: what a
    header declares may depend on what was included before it). -> (list | None, diagnostics)."""
    os.makedirs(workdir, exist_ok=True)
    hl = [header] if isinstance(header, str) else list(header)
    base = '__'.join(h.replace('.', '_') for h in hl)
    if len(base) > 120:
        base = 'list_%08x' % (hash(tuple(hl)) & 0xffffffff)
    src = os.path.join(workdir, 'aux_%s.c' % base)
    aux = os.path.join(workdir, 'aux_%s.txt' % base)
    with open(src, 'w') as f:
        for h in hl:
            f.write('#include "cstl/%s"\n' % h)
    rc, out = _run([cc] + cflags + ['-O0', '-I' + os.path.join(tree, 'include'), '-aux-info', aux,
                                   '-fsyntax-only', src])
    if rc != 0 or not os.path.exists(aux):
        return None, out
    with open(aux, errors='replace') as f:
        res = parse_aux(f.read(), os.path.join(tree, 'include', 'cstl'))
    # -aux-info lists functions only: the data objects the headers declare extern (cstl_string_nul, ...) are taken
    # from the preprocessed text; they are carried with a leading '&' (their address goes into the table)
    rc2, pre = _run([cc] + cflags + ['-O0', '-I' + os.path.join(tree, 'include'), '-E', src])
    if rc2 == 0:
        for name, fl, ln in parse_extern_data(pre, os.path.join(tree, 'include', 'cstl')):
            res.append(('&' + name, False, False, fl, ln))
    return res, out


_LM_RE = re.compile(r'^#\s+(\d+)\s+"([^"]*)"')
_EXT_RE = re.compile(r'\bextern\b([^;{}()]*?)\b([A-Za-z_]\w*)\s*(?:\[[^\]]*\]\s*)*;')


def parse_extern_data(pre, incdir):
    """-> [(name, file, line)] of 'extern <type> name;' declarations (no parentheses: not functions) from incdir."""
    incdir = os.path.realpath(incdir) + os.sep
    cur, ln, mine = '', 0, []
    for line in pre.splitlines():
        m = _LM_RE.match(line)
        if m:
            ln, cur = int(m.group(1)), m.group(2)
            continue
        if cur and os.path.realpath(cur).startswith(incdir):
            mine.append((line, os.path.basename(cur), ln))
        ln += 1
    res, seen = [], set()
    text = '\n'.join(l for l, _f, _n in mine)
    for m in _EXT_RE.finditer(text):
        name = m.group(2)
        if name in seen or 'typedef' in m.group(1):
            continue
        seen.add(name)
        lineno = text.count('\n', 0, m.start())
        res.append((name, mine[lineno][1], mine[lineno][2]))
    return res

# ---------------------------------------------------------------- program generation
class Program(object):
    __slots__ = ('idx', 'kind', 'headers', 'tus', 'link', 'usage', 'funcs', 'sources', 'cmds',
                 'rc', 'stage', 'failed_cmd', 'output', 'warn_lines', 'warn_texts', 'dir')

    def config(self):
        return 'headers=%s tus=%d link=%s usage=%s' % (','.join(self.headers), self.tus, self.link, self.usage)

    def key(self):
        return (tuple(self.headers), self.tus, self.link, self.usage)

    def nontrivial(self):
        return self.tus == 2 or len(self.headers) >= 2


def gen_source(headers, funcs, usage, tu, tus, config):
    """Text of main.c (tu == 0) or other.c (tu == 1)."""
    L = []
    L.append('/* generated by c18_clients.py (property C18): %s; %s */' % (config, 'main.c' if tu == 0 else 'other.c'))
    for h in headers:
        L.append('#include "cstl/%s"' % h)
    L.append('')
    tab = 'c18_tab_main' if tu == 0 else 'c18_tab_other'
    if usage == 'addr':
        L.append('/* the address of every function the included headers declare or define */')
        L.append('void (*%s[])(void) = {' % tab)
        for f in funcs:
            if f.startswith('&'):       # a data object: its address
                L.append('    (void (*)(void))(unsigned long)%s,' % f)
            else:
                L.append('    (void (*)(void))%s,' % f)
        L.append('    0')
        L.append('};')
        L.append('')
    if tu == 0:
        if tus == 2:
            L.append('int other(void);')
            L.append('')
        L.append('int main(void)')
        L.append('{')
        L.append('    unsigned n = 0;')
        if usage == 'addr':
            L.append('    unsigned i;')
            L.append('    for (i = 0; i < sizeof(%s) / sizeof(%s[0]); i++) {' % (tab, tab))
            L.append('        n += (%s[i] != 0);' % tab)
            L.append('    }')
        if tus == 2:
            L.append('    n += (unsigned)other();')
        expect = (len(funcs) if usage == 'addr' else 0) * tus
        L.append('    return n == %du ? 0 : 1;' % expect)
        L.append('}')
    else:
        L.append('int other(void);')
        L.append('')
        L.append('int other(void)')
        L.append('{')
        L.append('    unsigned n = 0;')
        if usage == 'addr':
            L.append('    unsigned i;')
            L.append('    for (i = 0; i < sizeof(%s) / sizeof(%s[0]); i++) {' % (tab, tab))
            L.append('        n += (%s[i] != 0);' % tab)
            L.append('    }')
        L.append('    return (int)n;')
        L.append('}')
    return '\n'.join(L) + '\n'


def build_commands(cc, cflags, tus, link):
    cmds = []
    objs = []
    for name in (['main', 'other'] if tus == 2 else ['main']):
        cmds.append(('compile', [cc] + cflags + ['-O0', '-I' + TREE + '/include', '-c', name + '.c', '-o', name + '.o']))
        objs.append(name + '.o')
    if link == 'static':
        cmds.append(('link', [cc, '-o', 'prog'] + objs + [TREE + '/build/libcstl.a', '-lm']))
        cmds.append(('run', ['./prog']))
    else:
        cmds.append(('link', [cc, '-o', 'prog'] + objs + ['-L' + TREE + '/build', '-Wl,-rpath,' + TREE + '/build',
                                                          '-lcstl', '-lm']))
        cmds.append(('run', ['env', 'LD_LIBRARY_PATH=' + TREE + '/build', './prog']))
    return cmds


def header_lists(headers, rng, tier, budget):
    """-> (list of (kind, [headers]), exhaustive_over_singles_and_pairs)"""
    lists = []
    seen = set()

    def add(kind, hl):
        t = tuple(hl)
        if t and t not in seen:
            seen.add(t)
            lists.append((kind, list(hl)))

    for h in headers:
        add('single', [h])
    allpairs = [(a, b) for a in headers for b in headers if a != b]
    # every ordered pair in both tiers (132 pairs build in a few seconds); VERIF_BUDGET < 1 samples
    npairs = len(allpairs) if budget >= 1 else max(1, int(round(60 * max(budget, 0.1))))
    if tier == 'thorough' or npairs >= len(allpairs):
        sample = list(allpairs)
        exhaustive = True
        # still consume the generator identically in both branches? not needed: seeded choices below
    else:
        sample = rng.sample(allpairs, npairs)
        exhaustive = False
    for a, b in sample:
        add('pair', [a, b])
    add('all', list(headers))
    add('all', list(reversed(headers)))
    for _ in range(3):
        p = list(headers)
        rng.shuffle(p)
        add('all', p)
    if tier == 'thorough' and len(headers) >= 3:
        for _ in range(max(1, int(round(60 * max(budget, 0.1))))):
            k = rng.randint(3, len(headers))
            p = rng.sample(headers, k)
            add('subset', p)
    return lists, exhaustive

# ---------------------------------------------------------------- executing one program
_WARN_RE = re.compile(r'warning:')


def exec_program(p, tree, workroot):
    d = os.path.join(workroot, 'p%05d' % p.idx)
    os.makedirs(d, exist_ok=True)
    p.dir = d
    for name, text in p.sources.items():
        with open(os.path.join(d, name), 'w') as f:
            f.write(text)
    p.rc, p.stage, p.failed_cmd, p.output = 0, None, None, ''
    p.warn_lines, p.warn_texts = 0, []
    log = []
    for stage, cmd in p.cmds:
        rc, out = _run(_subst(cmd, tree), cwd=d)
        log.append('$ %s\n%s' % (' '.join(_subst(cmd, tree)), out))
        if stage in ('compile', 'link'):
            for line in out.splitlines():
                if _WARN_RE.search(line):
                    p.warn_lines += 1
                    if len(p.warn_texts) < 5:
                        p.warn_texts.append(line.replace(tree, '<tree>')[:300])
        if rc != 0:
            p.rc, p.stage, p.failed_cmd = rc, stage, cmd
            p.output = '\n'.join(log)
            break
    # keep the directory only while needed; sources are regenerable from p.sources
    shutil.rmtree(d, ignore_errors=True)
    return p

# ---------------------------------------------------------------- symbols
def defined_symbols(tree):
    """-> (set exported by .so, set defined globally in .a, diagnostics)"""
    diag = []
    rc, out = _run(['nm', '-D', '--defined-only', os.path.join(tree, 'build', 'libcstl.so')])
    so = set()
    if rc == 0:
        for line in out.splitlines():
            t = line.split()
            if len(t) >= 2 and t[-2] in 'TWiBDRVuGS':
                so.add(t[-1].split('@')[0])
    else:
        diag.append(out)
    rc, out = _run(['nm', '-g', '--defined-only', os.path.join(tree, 'build', 'libcstl.a')])
    ar = set()
    if rc == 0:
        for line in out.splitlines():
            t = line.split()
            if len(t) >= 2 and len(t[-2]) == 1 and t[-2] in 'TWiBDRVuGS':
                ar.add(t[-1])
    else:
        diag.append(out)
    return so, ar, '\n'.join(diag)

# ---------------------------------------------------------------- replay directories
REPLAY_HEAD = r'''#!/bin/sh
# Replay of a C18 finding (%(clause)s): %(message)s
# usage: replay.sh [path-of-tree-under-test]     (default: $VERIF_REPO or %(repo)s)
# exit status 1 = the failure reproduces, 0 = every step passes, 2 = replay itself could not run.
REPO=${1:-${VERIF_REPO:-%(repo)s}}
HERE=$(cd "$(dirname "$0")" && pwd)
W=$(mktemp -d /tmp/c18_replay.XXXXXX) || exit 2
trap 'rm -rf "$W"' EXIT
T="$W/tree"
mkdir -p "$T/build" || exit 2
cp "$REPO/Makefile" "$T/" && cp -r "$REPO/src" "$REPO/include" "$T/" || exit 2
'''

REPLAY_BUILD = r'''if ! make -C "$T" b >"$W/build.log" 2>&1; then
    cat "$W/build.log"
    echo "REPRODUCED C18.build: 'make b' fails in a copy of $REPO"
    exit 1
fi
'''


def save_replay(ctx, clause, message, sources, steps_sh, output, config):
    h = hashlib.sha1()
    h.update(clause.encode())
    h.update(config.encode())
    for k in sorted(sources):
        h.update(k.encode())
        h.update(sources[k].encode())
    h.update(steps_sh.encode())
    if not sources and not steps_sh:
        h.update(message.encode())
    d = os.path.join(ctx.get('replays') or os.path.join(ctx['verif'], 'replays'), 'C18', h.hexdigest()[:12])
    shutil.rmtree(d, ignore_errors=True)
    os.makedirs(d)
    for k, v in sources.items():
        with open(os.path.join(d, k), 'w') as f:
            f.write(v)
    sub = dict(clause=clause, message=message.replace('\n', ' ')[:300], repo=ctx['repo'])
    script = REPLAY_HEAD % sub
    if clause == 'C18.build':
        script += REPLAY_BUILD + 'echo "not reproduced: make b succeeds"\nexit 0\n'
    else:
        script += REPLAY_BUILD + steps_sh
    rp = os.path.join(d, 'replay.sh')
    with open(rp, 'w') as f:
        f.write(script)
    os.chmod(rp, 0o755)
    with open(os.path.join(d, 'output.txt'), 'w') as f:
        f.write('property=C18 clause=%s\nconfig: %s\nmessage: %s\ntree under test: %s\nreplay: sh %s [tree]\n\n'
                % (clause, config, message, ctx['repo'], rp))
        f.write(output[-40000:])
    return rp


def program_steps_sh(p):
    L = ['cp "$HERE"/*.c "$W/" || exit 2', 'cd "$W" || exit 2']
    for stage, cmd in p.cmds:
        L.append('echo %s' % shlex.quote('+ %s: %s' % (stage, _sh(cmd))))
        L.append('%s || { echo "REPRODUCED C18.%s (exit status $?)"; exit 1; }' % (_sh(cmd), stage))
    L.append('echo "not reproduced: every step of this client program passes"')
    L.append('exit 0')
    return '\n'.join(L) + '\n'


def symbol_steps_sh(missing_so, missing_a):
    L = ['fail=0']
    for s in missing_so:
        L.append('nm -D --defined-only "$T/build/libcstl.so" | awk \'$NF == "%s" { f = 1 } END { exit !f }\' || '
                 '{ echo "libcstl.so does not export %s"; fail=1; }' % (s, s))
    for s in missing_a:
        L.append('nm -g --defined-only "$T/build/libcstl.a" | awk \'$NF == "%s" { f = 1 } END { exit !f }\' || '
                 '{ echo "libcstl.a does not define %s"; fail=1; }' % (s, s))
    L.append('if [ $fail -ne 0 ]; then echo "REPRODUCED C18.symbol_missing"; exit 1; fi')
    L.append('echo "not reproduced: every listed function is provided by the library"')
    L.append('exit 0')
    return '\n'.join(L) + '\n'

# ---------------------------------------------------------------- main entry
def write_stats(ctx, stats):
    p = os.path.join(ctx['outdir'], 'stats-g8-clients.json')
    tmp = p + '.tmp'
    with open(tmp, 'w') as f:
        json.dump(stats, f, indent=1)
    os.replace(tmp, p)


def run(ctx):
    t0 = time.time()
    outdir = ctx['outdir']
    os.makedirs(outdir, exist_ok=True)
    tier = ctx.get('tier', 'quick')
    budget = float(ctx.get('budget', 1) or 1)
    njobs = int(ctx.get('njobs', 16) or 16)
    rng = random.Random(ctx.get('seed', 1))
    tree = os.path.join(outdir, 'c18_tree')
    work = os.path.join(outdir, 'c18_work')
    counters = {}
    stats = dict(engine='g8-clients', harness='clients', prop='C18', evaluations=0, nontrivial=0, distinct_extra=0,
                 counters=counters, samples=[], exhaustive=False, wall_s=0.0, tier=tier, seed=ctx.get('seed', 1))

    def bump(k, n=1):
        counters[k] = counters.get(k, 0) + n

    def finish(result):
        stats['wall_s'] = round(time.time() - t0, 2)
        if result:
            stats['failure'] = dict(clause=result[0], replay=result[1], message=result[2])
        write_stats(ctx, stats)
        shutil.rmtree(tree, ignore_errors=True)
        shutil.rmtree(work, ignore_errors=True)
        return result

    try:
        # ---- 1. library built by the project's own Makefile in a scratch copy
        copy_tree(ctx['repo'], tree)
        shutil.rmtree(work, ignore_errors=True)
        os.makedirs(work)
        tb = time.time()
        rc, out = _run(['make', '-C', tree, '-j%d' % njobs, 'b'], timeout=900)
        stats['build_s'] = round(time.time() - tb, 2)
        have = all(os.path.exists(os.path.join(tree, 'build', n)) for n in ('libcstl.a', 'libcstl.so'))
        if rc != 0 or not have:
            msg = "'make b' failed (exit %s) in a scratch copy of the working tree" % rc
            last = [l for l in out.splitlines() if 'error' in l.lower()]
            if last:
                msg += ': ' + last[0].replace(tree, '<tree>')[:200]
            rp = save_replay(ctx, 'C18.build', msg, {}, '', out.replace(tree, '<tree>'), 'make b')
            bump('build_failed')
            return finish(('C18.build', rp, msg))

        cc, cflags, flagsrc = project_flags(tree)
        stats['cc'] = cc
        stats['cflags'] = cflags
        stats['cflags_source'] = flagsrc

        # ---- 2. headers and the functions they declare
        headers = sorted(os.path.basename(p) for p in glob.glob(os.path.join(tree, 'include', 'cstl', '*.h')))
        headers = [h for h in headers if h not in EXCLUDED_HEADERS]
        stats['headers'] = headers
        bump('headers', len(headers))
        funcs = {}          # header -> [(name, static, defn, file, line)] or None
        auxdiag = {}
        with concurrent.futures.ThreadPoolExecutor(max_workers=njobs) as ex:
            futs = {h: ex.submit(extract_functions, cc, cflags, tree, h, os.path.join(work, 'aux')) for h in headers}
            for h in headers:
                funcs[h], auxdiag[h] = futs[h].result()
        allf = {}
        for h in headers:
            if funcs[h] is None:
                bump('aux_info_failed')
                continue
            for (name, st, df, fl, ln) in funcs[h]:
                allf.setdefault(name, (st, df, fl, ln))
        n_static = sum(1 for v in allf.values() if v[0])
        bump('functions_static_in_headers', n_static)
        bump('functions_extern_in_headers', len(allf) - n_static)
        bump('functions_extern_defined_in_headers', sum(1 for v in allf.values() if not v[0] and v[1]))
        stats['functions_per_header'] = dict((h, (len(funcs[h]) if funcs[h] is not None else None)) for h in headers)

        def funcs_of(hl):
            names, seen = [], set()
            for h in hl:
                for t in (funcs[h] or []):
                    if t[0] not in seen:
                        seen.add(t[0])
                        names.append(t[0])
            return names

        # ---- a combination may name the same header more than once: a client reaches a public header twice in one
        # TU whenever two of its own headers each include it. Every header the statement covers carries an include
        # guard (the one guard-less template is exactly the one it excludes), so each must survive being included
        # twice; a definition placed outside the guard is a compile error for such a client (C18.include_twice).
        def twice(h):
            src = os.path.join(work, 'aux', 'twice_%s.c' % h.replace('.', '_'))
            with open(src, 'w') as f:
                f.write('#include "cstl/%s"\n#include "cstl/%s"\n' % (h, h))
            rc2, _o = _run([cc] + cflags + ['-O0', '-I' + os.path.join(tree, 'include'), '-fsyntax-only', src])
            return rc2 == 0
        with concurrent.futures.ThreadPoolExecutor(max_workers=njobs) as ex:
            idem = list(ex.map(twice, headers))
        not_idem = [h for h, ok in zip(headers, idem) if not ok and funcs[h] is not None]
        # ---- the statement's client is "a C99 program" compiled with the project's *warning* flags; the feature-test
        # macro the library's Makefile passes for its own sources (-D_POSIX_C_SOURCE=...) is not one of those, and a
        # client does not know it. Every header compiles as strict C99 without it on the pinned tree; a header that
        # starts to need it is unusable for a plain C99 client although every configuration that borrows the
        # library's full command line still builds (C18.c99_client).
        plain_flags = [x for x in cflags if not re.match(r'-D_[A-Z_]*SOURCE(=|$)', x)]
        def plain(h):
            src = os.path.join(work, 'aux', 'plain_%s.c' % h.replace('.', '_'))
            with open(src, 'w') as f:
                f.write('#include "cstl/%s"\nint main(void) { return 0; }\n' % h)
            rc2, _o = _run([cc] + plain_flags + ['-O0', '-I' + os.path.join(tree, 'include'), '-fsyntax-only', src])
            return rc2 == 0, _o
        if plain_flags != cflags:
            with concurrent.futures.ThreadPoolExecutor(max_workers=njobs) as ex:
                pl = list(ex.map(plain, headers))
        else:
            pl = [(True, '')] * len(headers)
        not_plain = [(h, o) for h, (ok, o) in zip(headers, pl) if not ok and funcs[h] is not None]
        bump('headers_as_plain_c99', len(headers) if plain_flags != cflags else 0)
        bump('headers_needing_feature_macro', len(not_plain))
        bump('headers_included_twice', len(headers))
        bump('headers_not_idempotent', len(not_idem))
        if not_idem:
            stats['headers_not_idempotent'] = not_idem

        # ---- 4 (cheap, done first). symbol tables
        so_syms, a_syms, nmdiag = defined_symbols(tree)
        externs = sorted(n.lstrip('&') for n, v in allf.items() if not v[0])
        bump('extern_data_objects_in_headers', sum(1 for n in allf if n.startswith('&')))
        missing_so = [n for n in externs if n not in so_syms]
        missing_a = [n for n in externs if n not in a_syms]
        bump('symbols_checked_so', len(externs))
        bump('symbols_checked_a', len(externs))
        bump('symbols_missing_so', len(missing_so))
        bump('symbols_missing_a', len(missing_a))
        # a client's own functions live in the same global namespace as everything the library exports: a global symbol
        # outside the library's prefix (say a private `reallocarray`) is a duplicate symbol waiting for the first client
        # that defines that name (static library), or silently replaced by it (shared library)
        linker_own = {'_init', '_fini', '_edata', '_end', '__bss_start', '_ITM_deregisterTMCloneTable', '_ITM_registerTMCloneTable',
                      '__gmon_start__', '__cxa_finalize'}
        foreign_syms = sorted(n for n in (so_syms | a_syms) if 'cstl' not in n.lower() and n not in linker_own)
        bump('exported_symbols_outside_prefix', len(foreign_syms))

        # ---- 3. client programs
        lists, exhaustive = header_lists(headers, rng, tier, budget)
        stats['exhaustive'] = exhaustive
        stats['header_lists'] = len(lists)
        programs = []
        # what a combination declares is taken from a translation unit that really includes it, in that order (a
        # declaration under `#ifdef OTHER_HEADER_H` exists only there); the per-header union is the fallback
        multi = [tuple(hl) for kind, hl in lists if len(hl) >= 2]
        listfuncs = {}
        with concurrent.futures.ThreadPoolExecutor(max_workers=njobs) as ex:
            futs = {hl: ex.submit(extract_functions, cc, cflags, tree, list(hl), os.path.join(work, 'aux')) for hl in set(multi)}
            for hl, fu in futs.items():
                r_, _d = fu.result()
                if r_ is not None:
                    listfuncs[hl] = r_
        extra_decl = {}
        for hl, fl_ in listfuncs.items():
            for (name, st, df, fl2, ln) in fl_:
                if name not in allf:
                    extra_decl.setdefault(name, (st, df, fl2, ln))
        bump('functions_declared_only_in_combinations', len(extra_decl))
        for name, v in extra_decl.items():
            allf[name] = v
            if not v[0]:
                nm_ = name.lstrip('&')
                if nm_ not in so_syms and nm_ not in missing_so:
                    missing_so.append(nm_)
                if nm_ not in a_syms and nm_ not in missing_a:
                    missing_a.append(nm_)
        for kind, hl in lists:
            fl = [t[0] for t in listfuncs[tuple(hl)]] if tuple(hl) in listfuncs else funcs_of(hl)
            for tus in (1, 2):
                for link in ('static', 'shared'):
                    for usage in ('include', 'addr'):
                        p = Program()
                        p.idx = len(programs)
                        p.kind, p.headers, p.tus, p.link, p.usage = kind, hl, tus, link, usage
                        p.funcs = fl if usage == 'addr' else []
                        cfg = p.config()
                        p.sources = {'main.c': gen_source(hl, fl, usage, 0, tus, cfg)}
                        if tus == 2:
                            p.sources['other.c'] = gen_source(hl, fl, usage, 1, tus, cfg)
                        p.cmds = build_commands(cc, cflags, tus, link)
                        programs.append(p)
        with concurrent.futures.ThreadPoolExecutor(max_workers=njobs) as ex:
            list(ex.map(lambda q: exec_program(q, tree, work), programs))

        # ---- evidence
        distinct = set()
        warn_samples = []
        failures = []
        for p in programs:
            stats['evaluations'] += 1
            if p.nontrivial():
                stats['nontrivial'] += 1
                distinct.add(p.key())
            bump('link_' + p.link)
            bump('usage_' + p.usage)
            bump('tus_%d' % p.tus)
            bump('kind_' + p.kind)
            bump('compile_jobs', p.tus)
            bump('functions_referenced', len(p.funcs) * p.tus)
            if p.warn_lines:
                bump('programs_with_warnings')
                bump('warning_lines', p.warn_lines)
                for w in p.warn_texts:
                    if w not in warn_samples and len(warn_samples) < 10:
                        warn_samples.append(w)
            if p.rc != 0:
                failures.append(p)
                bump('failed_' + p.stage)
            else:
                bump('programs_ok')
        counters.setdefault('programs_with_warnings', 0)
        counters.setdefault('warning_lines', 0)
        stats['distinct_extra'] = len(distinct)
        if warn_samples:
            stats['warning_samples'] = warn_samples

        def sample_of(pred):
            for p in programs:
                if pred(p):
                    return dict(config=p.config(), ops=p.sources['main.c'].splitlines())
            return None
        for pred in (lambda p: p.kind == 'single' and p.usage == 'addr' and p.tus == 1,
                     lambda p: p.kind == 'pair' and p.usage == 'addr' and p.tus == 2 and p.link == 'shared',
                     lambda p: p.kind == 'all' and p.usage == 'include' and p.tus == 2):
            s = sample_of(pred)
            if s:
                stats['samples'].append(s)

        # ---- verdict
        skey = lambda p: (len(p.headers), p.tus, p.usage == 'addr', p.idx)
        if failures:
            failures.sort(key=skey)
            stats['failing_configs'] = [p.config() for p in failures[:40]]
            br = {}
            for p in failures:
                k = '%s: tus=%d link=%s usage=%s' % (p.stage, p.tus, p.link, p.usage)
                br[k] = br.get(k, 0) + 1
            stats['failure_breakdown'] = dict(sorted(br.items()))
        if not_idem and not (missing_so or missing_a) and not failures:
            h0 = not_idem[0]
            msg = ('%d public header(s) cannot be included twice in one translation unit (a client whose own headers each include it '
                   'gets a compile error): %s' % (len(not_idem), ', '.join(not_idem[:6])))
            src = '#include "cstl/%s"\n#include "cstl/%s"\nint main(void) { return 0; }\n' % (h0, h0)
            steps = ('if %s %s -O0 -I"$T/include" -fsyntax-only "$HERE/twice.c"; then echo "not reproduced"; exit 0; fi\n'
                     'echo "REPRODUCED C18.include_twice"; exit 1\n' % (cc, ' '.join(shlex.quote(x) for x in cflags)))
            rp = save_replay(ctx, 'C18.include_twice', msg, {'twice.c': src}, steps, 'not idempotent: %s' % not_idem, 'twice')
            return finish(('C18.include_twice', rp, msg))
        if not_plain and not (missing_so or missing_a) and not failures:
            h0, o0 = not_plain[0]
            first = ([l for l in o0.splitlines() if 'error' in l] or [''])[0].strip()
            msg = ('%d public header(s) compile only with the feature-test macro of the library\'s own build (%s), not in a plain C99 '
                   'client: %s; first: %s' % (len(not_plain), ' '.join(x for x in cflags if x not in plain_flags), ', '.join(h for h, _ in not_plain[:6]), first[:160]))
            src = '#include "cstl/%s"\nint main(void) { return 0; }\n' % h0
            steps = ('if %s %s -O0 -I"$T/include" -fsyntax-only "$HERE/plain.c"; then echo "not reproduced"; exit 0; fi\n'
                     'echo "REPRODUCED C18.c99_client"; exit 1\n' % (cc, ' '.join(shlex.quote(x) for x in plain_flags)))
            rp = save_replay(ctx, 'C18.c99_client', msg, {'plain.c': src}, steps, o0, 'plain')
            return finish(('C18.c99_client', rp, msg))
        if foreign_syms and not (missing_so or missing_a) and not failures:
            msg = ('the library exports %d global symbol(s) outside its own prefix: %s; a client program that defines the same name gets a '
                   'duplicate symbol against libcstl.a (or silently replaces the library\'s function in libcstl.so)' % (len(foreign_syms), ', '.join(foreign_syms[:6])))
            steps = 'fail=0\n' + '\n'.join('nm -g --defined-only "$T/build/libcstl.a" | awk \'$NF == "%s" { f = 1 } END { exit f }\' || { echo "libcstl.a exports %s"; fail=1; }' % (n, n)
                                            for n in foreign_syms[:6]) + \
                    '\nif [ $fail -ne 0 ]; then echo "REPRODUCED C18.symbol_namespace"; exit 1; fi\necho "not reproduced"; exit 0\n'
            rp = save_replay(ctx, 'C18.symbol_namespace', msg, {}, steps, 'exported outside the prefix: %s' % foreign_syms, 'symbols')
            return finish(('C18.symbol_namespace', rp, msg))
        if missing_so or missing_a:
            names = sorted(set(missing_so) | set(missing_a))
            where = []
            if missing_so:
                where.append('libcstl.so')
            if missing_a:
                where.append('libcstl.a')
            n0 = names[0]
            d0 = allf.get(n0) or allf.get('&' + n0)
            msg = ('%d function(s) / object(s) declared extern by public headers are not provided by %s: %s (first: %s declared at %s:%d)'
                   % (len(names), ' and '.join(where), ', '.join(names[:6]), n0, d0[2], d0[3]))
            if failures:
                msg += '; %d client programs also fail' % len(failures)
            outp = 'missing from libcstl.so: %s\nmissing from libcstl.a: %s\n%s' % (missing_so, missing_a, nmdiag)
            if failures:
                f0 = failures[0]
                outp += '\nsimplest failing client program (%s):\n%s' % (f0.config(), f0.output.replace(tree, '<tree>'))
            rp = save_replay(ctx, 'C18.symbol_missing', msg, {}, symbol_steps_sh(missing_so, missing_a), outp,
                             'symbols')
            return finish(('C18.symbol_missing', rp, msg))
        if failures:
            f0 = failures[0]
            clause = 'C18.' + f0.stage
            diag = [l for l in f0.output.splitlines() if not l.startswith('$ ') and
                    re.search(r'error|multiple definition|undefined reference|timeout', l)]
            first = diag[0].replace(tree, '<tree>')[:240] if diag else 'exit status %s' % f0.rc
            msg = '%s step of client program [%s] failed: %s (%d of %d programs fail)' % (
                f0.stage, f0.config(), first, len(failures), len(programs))
            rp = save_replay(ctx, clause, msg, f0.sources, program_steps_sh(f0),
                             f0.output.replace(tree, '<tree>'), f0.config())
            return finish((clause, rp, msg))
        return finish(None)
    except BaseException:
        stats['wall_s'] = round(time.time() - t0, 2)
        stats['aborted'] = True
        try:
            write_stats(ctx, stats)
        finally:
            shutil.rmtree(tree, ignore_errors=True)
            shutil.rmtree(work, ignore_errors=True)
        raise


def main(argv):
    import argparse
    ap = argparse.ArgumentParser(description='C18 client-program engine (stand-alone driver for testing)')
    ap.add_argument('--repo', default='/repo')
    ap.add_argument('--tier', default='quick', choices=('quick', 'thorough'))
    ap.add_argument('--seed', type=int, default=1)
    ap.add_argument('--budget', type=float, default=1.0)
    ap.add_argument('--njobs', type=int, default=16)
    ap.add_argument('--out', default='/tmp/c18_out')
    ap.add_argument('--verif', default=os.path.dirname(os.path.abspath(__file__)))
    a = ap.parse_args(argv)
    os.makedirs(a.out, exist_ok=True)
    ctx = dict(repo=os.path.abspath(a.repo), outdir=os.path.abspath(a.out), seed=a.seed, tier=a.tier, budget=a.budget,
               verif=a.verif, njobs=a.njobs)
    t0 = time.time()
    r = run(ctx)
    s = json.load(open(os.path.join(ctx['outdir'], 'stats-g8-clients.json')))
    print('programs=%d nontrivial=%d distinct=%d exhaustive=%s wall=%.1fs' % (
        s['evaluations'], s['nontrivial'], s['distinct_extra'], s['exhaustive'], time.time() - t0))
    print('counters: %s' % json.dumps(s['counters'], sort_keys=True))
    if r is None:
        print('PASS property=C18')
        return 0
    print('VIOLATION property=C18 replay=%s' % r[1])
    print('  clause=%s %s' % (r[0], r[2]))
    return 1


if __name__ == '__main__':
    sys.exit(main(sys.argv[1:]))
