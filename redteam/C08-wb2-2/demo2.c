/*
 * C08 demo 2: the map used as a set of names (value pointer NULL), the usual
 * "insert; if it returns 1 the pair was not taken, release it" idiom.
 * Inserting an existing key must return 1 and leave the stored key and value
 * pointers untouched.
 */
#include <stdio.h>
#include <stdlib.h>
#include <string.h>
#include "cstl/map.h"

static int cmp_str(const void * a, const void * b, void * p)
{
    (void)p;
    return strcmp(a, b);
}

static int fails;
#define EXPECT(c, ...) do { if (!(c)) { fails++; printf("  violated: " __VA_ARGS__); printf("\n"); } } while (0)

static int cleared;
static const void * cleared_key, * cleared_val;
static void on_clear(void * e, void * p)
{
    cstl_map_iterator_t * const i = e;
    (void)p;
    cleared++;
    cleared_key = i->key;
    cleared_val = i->val;
}

int main(void)
{
    static const char stored_key[] = "alpha";
    char other_key[] = "alpha";             /* same key, another object */
    int * scratch;
    cstl_map_t m;
    cstl_map_iterator_t it;
    int rc;

    cstl_map_init(&m, cmp_str, NULL);

    /* member of the set: no value */
    rc = cstl_map_insert(&m, stored_key, NULL, &it);
    EXPECT(rc == 0 && it.key == stored_key && it.val == NULL, "first insert: rc %d", rc);

    /* a second registration attempt that carries a temporary value object */
    scratch = malloc(sizeof(*scratch));
    *scratch = 42;
    rc = cstl_map_insert(&m, other_key, scratch, &it);
    EXPECT(rc == 1, "insert of an existing key returned %d, expected 1", rc);
    EXPECT(it.key == stored_key, "insert of an existing key: iterator does not carry the stored key pointer");
    EXPECT(it.val == NULL, "insert of an existing key: iterator carries value %p, stored value was NULL", it.val);

    cstl_map_find(&m, "alpha", &it);
    EXPECT(!cstl_map_iterator_eq(&it, cstl_map_iterator_end(&m)), "find(alpha) yields end");
    EXPECT(it.key == stored_key, "find: stored key pointer changed");
    EXPECT(it.val == NULL,
           "find: the stored value pointer was replaced by the rejected pair's value (%p); "
           "the caller releases that object after a return of 1", it.val);

    /* rc == 1: the pair was not taken, the caller releases it (as the library's own test does) */
    if (rc == 1) {
        free(scratch);
    }

    rc = cstl_map_erase(&m, "alpha", &it);
    EXPECT(rc == 0 && it.key == stored_key && it.val == NULL,
           "erase does not report the stored pointers (key %s, val %p)",
           it.key == stored_key ? "ok" : "changed", it.val);
    if (rc != 0) {
        cstl_map_clear(&m, on_clear, NULL);
    }
    EXPECT(cstl_map_size(&m) == 0, "size %zu at the end", cstl_map_size(&m));
    cstl_map_clear(&m, NULL, NULL);

    if (fails) {
        printf("FAIL: inserting an existing key modified the stored entry (%d violated expectations)\n", fails);
        return 1;
    }
    printf("PASS\n");
    return 0;
}
