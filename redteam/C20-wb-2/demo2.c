/* C20 / wave 5, change 2: stray copies handed to the library as `make b` ships it
 * (build/libcstl.a, compiled with -O2 -DNDEBUG).
 *
 * Every scenario makes a bitwise copy of a well-formed object and passes the copy
 * to one out-of-line library function that reads, transfers or releases the
 * pointer.  Each runs in a forked child and must end in SIGABRT.
 * The demo itself is compiled WITHOUT -DNDEBUG, like an application under
 * development that links the released library.
 */
#include <stdio.h>
#include <stdlib.h>
#include <string.h>
#include <signal.h>
#include <unistd.h>
#include <sys/types.h>
#include <sys/wait.h>
#include "cstl/memory.h"
#include "cstl/array.h"

static void s_unique_reset(void)
{
    cstl_unique_ptr_t a, b;
    cstl_unique_ptr_init(&a);
    cstl_unique_ptr_alloc(&a, 64, NULL, NULL);
    b = a;
    cstl_unique_ptr_reset(&b);          /* frees the block the original still owns */
}
static void s_shared_reset(void)
{
    cstl_shared_ptr_t a, b;
    cstl_shared_ptr_init(&a);
    cstl_shared_ptr_alloc(&a, 64, NULL);
    b = a;
    cstl_shared_ptr_reset(&b);          /* drops the only reference: memory destroyed under the original */
}
static void s_shared_share(void)
{
    cstl_shared_ptr_t a, c, * h = malloc(sizeof(*h));
    cstl_shared_ptr_init(&a);
    cstl_shared_ptr_init(&c);
    cstl_shared_ptr_alloc(&a, 64, NULL);
    memcpy(h, &a, sizeof(a));
    cstl_shared_ptr_share(h, &c);
}
static void s_shared_get_empty(void)
{
    cstl_shared_ptr_t a, b;
    cstl_shared_ptr_init(&a);
    b = a;                               /* "whether or not the pointer is NULL" */
    (void)cstl_shared_ptr_get_const(&b);
}
static void s_weak_lock(void)
{
    cstl_shared_ptr_t a, c;
    cstl_weak_ptr_t w, v;
    cstl_shared_ptr_init(&a);
    cstl_shared_ptr_init(&c);
    cstl_weak_ptr_init(&w);
    cstl_shared_ptr_alloc(&a, 64, NULL);
    cstl_weak_ptr_from(&w, &a);
    v = w;
    cstl_weak_ptr_lock(&v, &c);
}
static void s_array_data(void)
{
    cstl_array_t a, b;
    cstl_array_init(&a);
    cstl_array_alloc(&a, 8, 4);
    b = a;
    (void)cstl_array_data_const(&b);
}
static void s_array_alloc(void)
{
    cstl_array_t arr[2];
    cstl_array_init(&arr[0]);
    cstl_array_alloc(&arr[0], 8, 4);
    memmove(&arr[1], &arr[0], sizeof(arr[0]));
    cstl_array_alloc(&arr[1], 3, 4);     /* releases the buffer of arr[0] */
}

static int must_abort(const char * name, void (*fn)(void))
{
    int st;
    pid_t pid;
    fflush(stdout);
    pid = fork();
    if (pid == 0) {
        fn();
        _exit(0);
    }
    waitpid(pid, &st, 0);
    if (WIFSIGNALED(st) && WTERMSIG(st) == SIGABRT) {
        return 0;
    }
    printf("FAIL: %s on a bitwise copy returned normally\n", name);
    return 1;
}

int main(void)
{
    int bad = 0;
    bad += must_abort("cstl_unique_ptr_reset", s_unique_reset);
    bad += must_abort("cstl_shared_ptr_reset", s_shared_reset);
    bad += must_abort("cstl_shared_ptr_share(COPY, c)", s_shared_share);
    bad += must_abort("cstl_shared_ptr_get_const (empty)", s_shared_get_empty);
    bad += must_abort("cstl_weak_ptr_lock(COPY, c)", s_weak_lock);
    bad += must_abort("cstl_array_data_const", s_array_data);
    bad += must_abort("cstl_array_alloc", s_array_alloc);
    if (bad) {
        printf("FAIL (%d of 7 library calls on stray copies were not caught)\n", bad);
        return 1;
    }
    printf("PASS\n");
    return 0;
}
