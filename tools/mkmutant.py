#!/usr/bin/env python3
"""tools/mkmutant.py NAME FILE <<< 'OLD\n===\nNEW'   -> mutants/NAME.diff (against /repo HEAD working tree)"""
import sys, os, subprocess, tempfile, shutil
name, path = sys.argv[1], sys.argv[2]
spec = sys.stdin.read()
old, new = spec.split('\n===\n')
old = old.strip('\n'); new = new.rstrip('\n')
if new.startswith('\n'): new = new[1:]
d = tempfile.mkdtemp(prefix='mkmut_', dir='/tmp')
try:
    for side in ('a', 'b'):
        os.makedirs(os.path.join(d, side, os.path.dirname(path)), exist_ok=True)
        shutil.copy(os.path.join('/repo', path), os.path.join(d, side, path))
    s = open(os.path.join(d, 'b', path)).read()
    if s.count(old) != 1:
        sys.exit('pattern occurs %d times' % s.count(old))
    open(os.path.join(d, 'b', path), 'w').write(s.replace(old, new))
    r = subprocess.run(['diff', '-ru', 'a', 'b'], cwd=d, capture_output=True, text=True)
    out = os.path.join(os.path.dirname(os.path.dirname(os.path.abspath(__file__))), 'mutants', name + '.diff')
    open(out, 'w').write(r.stdout)
    print('wrote', out, len(r.stdout.splitlines()), 'lines')
finally:
    shutil.rmtree(d)
