/*
 * C07 demo 2: two heaps are filled, exchanged with cstl_heap_swap() (a public
 * heap.h function), and then used with push/pop as before. For every
 * push/pop/get the C07 guarantees are checked from the outside:
 *  - get/pop return an element that is in the heap and is >= all others,
 *  - pop removes exactly that element (every other element stays reachable:
 *    counted with cstl_bintree_foreach over the heap's tree, as the project's
 *    own unit test does),
 *  - size tracks the count,
 *  - the tree stays complete (cstl_bintree_height: max - min <= 1).
 */
#include <stdio.h>
#include <stdlib.h>
#include <signal.h>
#include <unistd.h>
#include "cstl/heap.h"

struct item { int prio; int in; struct cstl_heap_node hn; };

static int cmp(const void * a, const void * b, void * p)
{
    (void)p;
    return ((const struct item *)a)->prio - ((const struct item *)b)->prio;
}

static void on_segv(int sig)
{
    static const char m[] =
        "FAIL: the library crashed (SIGSEGV) in push/pop on a heap obtained through cstl_heap_swap\n";
    ssize_t r = write(1, m, sizeof(m) - 1);
    (void)r; (void)sig;
    _exit(1);
}

static int count_visit(const void * e, cstl_bintree_visit_order_t order, void * p)
{
    (void)e;
    if (order == CSTL_BINTREE_VISIT_ORDER_MID || order == CSTL_BINTREE_VISIT_ORDER_LEAF)
        ++*(size_t *)p;
    return 0;
}

struct model { struct item * it[32]; size_t n; };

static int max_prio(const struct model * m)
{
    int mx = -1;
    size_t i;
    for (i = 0; i < m->n; i++) if (m->it[i]->prio > mx) mx = m->it[i]->prio;
    return mx;
}

static int check(const char * when, struct cstl_heap * h, const struct model * m)
{
    size_t reach = 0;
    const struct item * g = cstl_heap_get(h);

    if (cstl_heap_size(h) != m->n) {
        printf("FAIL: %s: size %zu, but %zu elements were pushed and not popped\n",
               when, cstl_heap_size(h), m->n);
        return 1;
    }
    if ((g == NULL) != (m->n == 0)) {
        printf("FAIL: %s: get returned %s on a heap of %zu elements\n", when, g ? "an element" : "NULL", m->n);
        return 1;
    }
    if (g != NULL && (!g->in || g->prio != max_prio(m))) {
        printf("FAIL: %s: get returned priority %d, the maximum in the heap is %d\n", when, g->prio, max_prio(m));
        return 1;
    }
    cstl_bintree_foreach(&h->bt, count_visit, &reach, CSTL_BINTREE_FOREACH_DIR_FWD);
    if (reach != m->n) {
        printf("FAIL: %s: only %zu of the %zu elements that should be in the heap are still in its tree "
               "(pop removed more than the element it returned)\n", when, reach, m->n);
        return 1;
    }
    if (m->n > 0) {
        size_t mn, mx;
        cstl_bintree_height(&h->bt, &mn, &mx);
        if (mx - mn > 1) {
            printf("FAIL: %s: the tree is not complete (shortest path %zu, longest %zu)\n", when, mn, mx);
            return 1;
        }
    }
    return 0;
}

static int do_push(const char * when, struct cstl_heap * h, struct model * m, struct item * e, int prio)
{
    e->prio = prio;
    e->in = 1;
    cstl_heap_push(h, e);
    m->it[m->n++] = e;
    return check(when, h, m);
}

static int do_pop(const char * when, struct cstl_heap * h, struct model * m)
{
    struct item * const e = cstl_heap_pop(h);
    size_t i;

    if ((e == NULL) != (m->n == 0)) {
        printf("FAIL: %s: pop returned %s on a heap of %zu elements\n", when, e ? "an element" : "NULL", m->n);
        return 1;
    }
    if (e == NULL) return 0;
    if (!e->in || e->prio != max_prio(m)) {
        printf("FAIL: %s: pop returned priority %d, the maximum in the heap is %d\n", when, e->prio, max_prio(m));
        return 1;
    }
    e->in = 0;
    for (i = 0; i < m->n; i++) if (m->it[i] == e) { m->it[i] = m->it[--m->n]; break; }
    return check(when, h, m);
}

int main(void)
{
    static struct item pool[32];
    static const int pa[6] = { 60, 20, 50, 10, 5, 40 };
    static const int pb[2] = { 7, 3 };
    struct cstl_heap a, b;
    struct model ma = { { NULL }, 0 }, mb = { { NULL }, 0 }, t;
    int i, k = 0;

    signal(SIGSEGV, on_segv);

    cstl_heap_init(&a, cmp, NULL, offsetof(struct item, hn));
    cstl_heap_init(&b, cmp, NULL, offsetof(struct item, hn));

    for (i = 0; i < 6; i++) if (do_push("filling a", &a, &ma, &pool[k++], pa[i])) return 1;
    for (i = 0; i < 2; i++) if (do_push("filling b", &b, &mb, &pool[k++], pb[i])) return 1;

    /* exchange the two heaps: a now holds b's two elements, b holds a's six */
    cstl_heap_swap(&a, &b);
    t = ma; ma = mb; mb = t;
    if (check("right after swap (a)", &a, &ma) || check("right after swap (b)", &b, &mb)) return 1;

    /* ordinary push/pop traffic on both */
    if (do_pop("pop from b after swap", &b, &mb)) return 1;
    if (do_pop("second pop from b after swap", &b, &mb)) return 1;
    if (do_push("push to a after swap", &a, &ma, &pool[k++], 5)) return 1;
    if (do_push("push to a after swap", &a, &ma, &pool[k++], 9)) return 1;
    if (do_push("push to b after swap", &b, &mb, &pool[k++], 55)) return 1;
    while (ma.n > 0) if (do_pop("draining a", &a, &ma)) return 1;
    while (mb.n > 0) if (do_pop("draining b", &b, &mb)) return 1;
    if (do_pop("pop on empty a", &a, &ma) || do_pop("pop on empty b", &b, &mb)) return 1;

    printf("PASS\n");
    return 0;
}
