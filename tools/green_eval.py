#!/usr/bin/env python3
"""Evaluate one independently produced property-PRESERVING change (false-alarm side):
   tools/green_eval.py C09 1 [--root /tmp/green_] [--props C09,C16]
 The producer (a fresh sub-agent that saw only the property text) left _seed/patch<k>.diff and notes<k>.md in its scratch
 worktree. The change is applied to a scratch copy of /repo (tools/audit.py), the pinned suite must still pass there, and the
 property's quick check must stay green. Result kept under /verif/greens/<id>-g<k>/ (patch, notes, meta.json).
"""
import sys, os, subprocess, shutil, json, re, time
V = os.path.dirname(os.path.dirname(os.path.abspath(__file__)))
def main():
    pid, k = sys.argv[1], sys.argv[2]
    a = sys.argv[3:]
    root = a[a.index('--root') + 1] if '--root' in a else '/tmp/green_'
    props = a[a.index('--props') + 1].split(',') if '--props' in a else [pid]
    sd = os.path.join(root + pid, '_seed')
    patch = os.path.join(sd, 'patch%s.diff' % k)
    notes = os.path.join(sd, 'notes%s.md' % k)
    meta = dict(property=pid, change=int(k), evaluated_at=time.strftime('%Y-%m-%d %H:%M'), kind='property-preserving change (expected: no alarm)')
    r = subprocess.run([os.path.join(V, 'tools', 'audit.py'), patch, ','.join(props), 'quick'], capture_output=True, text=True)
    out = r.stdout + r.stderr
    m = re.search(r'suite\[(.*?)\]', out)
    meta['suite_with_change'] = m.group(1) if m else out[-200:]
    meta['checks'] = {}
    for p in props:
        line = [l.strip() for l in out.splitlines() if l.strip().startswith(p + ':')]
        meta['checks'][p] = dict(tier='quick', alarm='VIOLATION' in (line[0] if line else out), detail=(line[0] if line else out[-300:])[:400])
    meta['title'] = open(notes).readline().strip().lstrip('# ').strip() if os.path.exists(notes) else ''
    dst = os.path.join(V, 'greens', '%s-g%s' % (pid, k))
    shutil.rmtree(dst, ignore_errors=True)
    os.makedirs(dst)
    shutil.copy(patch, os.path.join(dst, 'patch.diff'))
    if os.path.exists(notes):
        shutil.copy(notes, os.path.join(dst, 'notes.md'))
    json.dump(meta, open(os.path.join(dst, 'meta.json'), 'w'), indent=1)
    print('%s-g%s suite=[%s]' % (pid, k, meta['suite_with_change']))
    for p, d in meta['checks'].items():
        print('   check %s: alarm=%s  %s' % (p, d['alarm'], d['detail'][:260]))
if __name__ == '__main__':
    main()
