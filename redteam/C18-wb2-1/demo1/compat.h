#ifndef DEMO_COMPAT_H
#define DEMO_COMPAT_H
#include <stddef.h>
void * reallocarray(void *, size_t, size_t);
extern unsigned long compat_reallocarray_calls;
#endif
