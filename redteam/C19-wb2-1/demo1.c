/*
 * C19 / red team round 2, change 1
 *
 * A table declared the way hash.h encourages ("Users are encouraged to declare
 * (and initialize) this object with the DECLARE_CSTL_HASH() macro"), 8 buckets,
 * 8 objects, then a resize to 16 buckets with another function. The program then
 * keeps looking up one hot key. C19: every keyed operation advances the sweep by
 * at least one bucket, so after no more keyed operations than there were buckets
 * (8) the rehash has finished and every lookup consults the hash function exactly
 * once, with table size 16 and the function most recently requested.
 *
 * Only the public API and hash functions that log their calls are used.
 */
#include <stdio.h>
#include <stdlib.h>

#include "cstl/hash.h"

struct item
{
    int v;
    struct cstl_hash_node hn;
};

static unsigned long calls_f1, calls_f2;
static size_t last_m;
static size_t f1(const size_t k, const size_t m) { calls_f1++; last_m = m; return k % m; }
static size_t f2(const size_t k, const size_t m) { calls_f2++; last_m = m; return (k * 7 + 3) % m; }

static int run(struct cstl_hash * const h, const char * const how)
{
    enum { OLD = 8, NEW = 16, HOT = 3 };
    static struct item it[2][OLD];
    static int round;
    struct item * const its = it[round++];
    unsigned long c1, c2;
    int i, ops, fail = 0;

    cstl_hash_resize(h, OLD, f1);
    for (i = 0; i < OLD; i++) {
        its[i].v = i;
        cstl_hash_insert(h, (size_t)i, &its[i]);
    }

    cstl_hash_resize(h, NEW, f2);
    if (cstl_hash_load(h) != (float)OLD / NEW) {
        printf("FAIL [%s]: load %g right after resize(16), expected %g\n", how, cstl_hash_load(h), (float)OLD / NEW);
        fail = 1;
    }

    /* as many keyed operations as there were buckets when the resize was requested */
    for (ops = 0; ops < OLD; ops++) {
        if (cstl_hash_find(h, HOT, NULL, NULL) != &its[HOT]) {
            printf("FAIL [%s]: find(%d) does not return the object\n", how, HOT);
            return 1;
        }
    }

    /* the rehash must be over: one hash call per lookup, (k, 16) with f2 */
    c1 = calls_f1; c2 = calls_f2;
    cstl_hash_find(h, HOT, NULL, NULL);
    if (calls_f1 != c1 || calls_f2 != c2 + 1 || last_m != NEW) {
        /* how long does it take, then? */
        long extra = 0;
        while (extra < 1000000) {
            c1 = calls_f1; c2 = calls_f2;
            cstl_hash_find(h, HOT, NULL, NULL);
            extra++;
            if (calls_f1 == c1 && calls_f2 == c2 + 1) {
                break;
            }
        }
        printf("FAIL [%s]: after %d keyed operations on a table that had %d buckets the rehash has not finished:\n"
               "      a lookup still makes %lu hash calls (old function: %lu, new function: %lu);\n",
               how, OLD, OLD, (calls_f1 - c1) + (calls_f2 - c2), calls_f1 - c1, calls_f2 - c2);
        if (extra >= 1000000) {
            printf("      a further 1000000 lookups of the same key did not finish it either (the sweep does not move)\n");
        } else {
            printf("      it took %ld more lookups\n", extra);
        }
        fail = 1;
    }

    cstl_hash_rehash(h);
    cstl_hash_clear(h, NULL);
    return fail;
}

int main(void)
{
    DECLARE_CSTL_HASH(declared, struct item, hn);
    struct cstl_hash inited;
    int fail = 0;

    cstl_hash_init(&inited, offsetof(struct item, hn));

    fail |= run(&declared, "table declared with DECLARE_CSTL_HASH()");
    fail |= run(&inited, "table initialised with cstl_hash_init()");

    if (!fail) {
        printf("PASS\n");
    }
    return fail;
}
