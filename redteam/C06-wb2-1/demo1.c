/*
 * C06 / red team round 2, change 1 -- demonstration.
 *
 * "... and no thread waits forever."
 *
 * Scenario 1 (two threads, the classic weak-pointer cache). A registry
 * keeps a weak reference to an object; the registry is protected by a
 * mutex. Lookups take the mutex and try to lock the weak reference; the
 * object's clear function (its destructor) takes the same mutex to
 * unregister the object. Thread A drops the last owning reference while
 * thread B is in the middle of a lookup:
 *
 *      B: mutex_lock(registry)
 *      A: cstl_shared_ptr_reset(&owner)  -> clear function -> mutex_lock(registry) ... waits for B
 *      B: cstl_weak_ptr_lock(&entry, &found)
 *
 * With the library as specified B's lock attempt returns at once (empty:
 * there is no owner any more), B releases the mutex, A's destructor
 * proceeds. Each thread only ever touches its own smart pointer objects.
 *
 * Scenario 2 (one thread). The object holds a weak reference to itself
 * (the enable_shared_from_this idiom). Its clear function tries to lock
 * it (must come back empty) and resets it.
 *
 * Each scenario runs in a child process with a 5 second watchdog.
 */
#define _GNU_SOURCE
#include <pthread.h>
#include <semaphore.h>
#include <signal.h>
#include <stdio.h>
#include <string.h>
#include <sys/wait.h>
#include <unistd.h>

#include "cstl/memory.h"

/* ---------------------------------------------------------------- 1 */
static pthread_mutex_t registry = PTHREAD_MUTEX_INITIALIZER;
static cstl_weak_ptr_t entry;           /* the registry's weak reference; used by B only */
static cstl_shared_ptr_t owner;         /* the last owning reference; used by A only */
static sem_t b_has_registry, a_in_dtor;
static int registered, dtor_runs, lookup_hit = -1;

static void object_dtor(void * obj, void * priv)
{
    (void)obj; (void)priv;
    sem_post(&a_in_dtor);
    pthread_mutex_lock(&registry);      /* unregister under the registry lock */
    registered = 0;
    dtor_runs++;
    pthread_mutex_unlock(&registry);
}

static void * thread_a(void * arg)
{
    (void)arg;
    sem_wait(&b_has_registry);
    cstl_shared_ptr_reset(&owner);      /* last owner lets go */
    return NULL;
}

static void * thread_b(void * arg)
{
    DECLARE_CSTL_SHARED_PTR(found);
    (void)arg;
    pthread_mutex_lock(&registry);
    sem_post(&b_has_registry);
    sem_wait(&a_in_dtor);               /* A is now inside the object's clear function */
    cstl_weak_ptr_lock(&entry, &found);
    lookup_hit = cstl_shared_ptr_get(&found) != NULL;
    pthread_mutex_unlock(&registry);
    cstl_shared_ptr_reset(&found);
    return NULL;
}

static int scenario1(void)
{
    pthread_t a, b;

    sem_init(&b_has_registry, 0, 0);
    sem_init(&a_in_dtor, 0, 0);
    cstl_shared_ptr_init(&owner);
    cstl_weak_ptr_init(&entry);
    cstl_shared_ptr_alloc(&owner, 128, object_dtor);
    cstl_weak_ptr_from(&entry, &owner);
    registered = 1;

    pthread_create(&b, NULL, thread_b, NULL);
    pthread_create(&a, NULL, thread_a, NULL);
    pthread_join(a, NULL);
    pthread_join(b, NULL);
    cstl_weak_ptr_reset(&entry);

    if (dtor_runs != 1 || registered != 0 || lookup_hit != 0) {
        printf("    unexpected outcome: dtor_runs=%d registered=%d lookup_hit=%d\n",
               dtor_runs, registered, lookup_hit);
        return 2;
    }
    return 0;
}

/* ---------------------------------------------------------------- 2 */
struct node
{
    cstl_weak_ptr_t self;
    int payload;
};
static int node_dtor_runs, self_lock_hit = -1;

static void node_dtor(void * obj, void * priv)
{
    struct node * const n = obj;
    DECLARE_CSTL_SHARED_PTR(me);
    (void)priv;
    cstl_weak_ptr_lock(&n->self, &me);  /* nobody owns the node any more: must be empty */
    self_lock_hit = cstl_shared_ptr_get(&me) != NULL;
    cstl_shared_ptr_reset(&me);
    cstl_weak_ptr_reset(&n->self);
    node_dtor_runs++;
}

static int scenario2(void)
{
    DECLARE_CSTL_SHARED_PTR(sp);
    struct node * n;

    cstl_shared_ptr_alloc(&sp, sizeof(*n), node_dtor);
    n = cstl_shared_ptr_get(&sp);
    cstl_weak_ptr_init(&n->self);
    cstl_weak_ptr_from(&n->self, &sp);
    cstl_shared_ptr_reset(&sp);

    if (node_dtor_runs != 1 || self_lock_hit != 0) {
        printf("    unexpected outcome: dtor_runs=%d self_lock_hit=%d\n",
               node_dtor_runs, self_lock_hit);
        return 2;
    }
    return 0;
}

/* ------------------------------------------------------------------ */
static int watched(int (*fn)(void), const char * what)
{
    int st = 0;
    pid_t pid;

    fflush(NULL);
    pid = fork();
    if (pid == 0) {
        alarm(5);
        _exit(fn());
    }
    waitpid(pid, &st, 0);
    if (WIFEXITED(st) && WEXITSTATUS(st) == 0) {
        printf("  %-58s: every thread finished\n", what);
        return 0;
    }
    if (WIFSIGNALED(st) && WTERMSIG(st) == SIGALRM) {
        printf("  %-58s: DEADLOCK (threads still waiting after 5 s)\n", what);
    } else {
        printf("  %-58s: failed (wait status 0x%x)\n", what, st);
    }
    return 1;
}

int main(void)
{
    int bad = 0;

    bad += watched(scenario1, "1: last owner resets while a lookup holds the registry");
    bad += watched(scenario2, "2: clear function locks the object's weak self reference");
    if (bad) {
        printf("FAIL: %d scenario(s) never finish: a thread waits forever in "
               "cstl_weak_ptr_lock()\n", bad);
        return 1;
    }
    printf("PASS\n");
    return 0;
}
