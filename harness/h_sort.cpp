// C11: every sort returns a sorted permutation; searches agree.
//
// Input-based harness: one case = one array (element keys), one configuration
// (entry point, element size, algorithm selector, swap function ...) and the
// values the library's rand() calls will see. See h_sort.notes.md.
#include "common/verif.hpp"
extern "C" {
#include "cstl/array.h"
#include "cstl/vector.h"
}
using namespace vf;

const char *vf_harness_name() { return "sort"; }

// ---------------------------------------------------------------- scripted rand()
// The randomised quicksort calls rand(). This definition (in the executable)
// is the one the library objects bind to, so the pivots come from the case:
// the scripted values first, then 0 (or a case-seeded LCG when the header asks
// for it).
namespace {
std::vector<int> g_script;
size_t g_script_pos = 0;
uint64_t g_rand_calls = 0;
bool g_tail_lcg = false;
uint32_t g_lcg = 0;
}
extern "C" int rand(void) noexcept
{
    g_rand_calls++;
    if (g_script_pos < g_script.size()) return g_script[g_script_pos++];
    if (g_tail_lcg) {
        g_lcg = g_lcg * 1103515245u + 12345u;
        return (int)((g_lcg >> 1) & 0x7fffffffu);
    }
    return 0;
}

namespace {

const size_t HDR = 10, REC = 3;
enum { E_RAW, E_VEC_EXACT, E_VEC_SLACK };
const char *ENTRYN[] = {"raw_array", "vector(cap==size)", "vector(cap>size)"};
const size_t ESIZE[8] = {1, 2, 4, 8, 3, 12, 16, 24};
const int NSEL = 21;    // the named selectors, "the cstl_vector_sort() wrapper / DEFAULT" (index 8), and out-of-range values: every
                        // small value next to the named ones (a selector added later is covered as soon as it exists) and far ones
const int SELV[NSEL] = {CSTL_SORT_ALGORITHM_QUICK, CSTL_SORT_ALGORITHM_QUICK_R, CSTL_SORT_ALGORITHM_QUICK_M,
                        CSTL_SORT_ALGORITHM_HEAP, 4, 99, -1, 2897234, CSTL_SORT_ALGORITHM_DEFAULT,
                        5, 6, 7, 8, 9, 10, 12, 16, 255, 256, 2147483647, -2147483647 - 1};
const char *SELN[NSEL] = {"QUICK", "QUICK_R", "QUICK_M", "HEAP", "4", "99", "-1", "2897234", "DEFAULT",
                          "5", "6", "7", "8", "9", "10", "12", "16", "255", "256", "INT_MAX", "INT_MIN"};
const uint32_t KTAB[] = {1, 2, 3, 4, 5, 8, 16, 64, 120, 1000, 30000};
const int NK = sizeof KTAB / sizeof KTAB[0];
enum { SH_EXPLICIT, SH_SORTED, SH_REVERSED, SH_CONST, SH_TWO, SH_ORGAN, SH_SAW, SH_RANDOM, NSHAPE };
const char *SHAPEN[] = {"explicit", "sorted", "reversed", "constant", "two-valued", "organ-pipe", "sawtooth", "random"};
const size_t NMAX_DEEP = 3000;   // QUICK / QUICK_R: recursion depth can reach n
const size_t NMAX = 8000;

struct CntTab {
    std::vector<int> id;
    CntTab(std::initializer_list<const char *> names) { for (auto n : names) id.push_back(counter_id(n)); }
    void hit(size_t i) { counters()[id[i]].second++; }
};

// what the callbacks need to know about the array being worked on
struct Ctx {
    const uint8_t *base;
    size_t n, es;
    int kw;                 // key width in bytes
    const void *scratch;    // the one scratch element (raw array: the caller's; vector: slot at index cap)
    bool vec;               // vector entry point: which slot beyond the array serves as scratch is the
    size_t cap;             //   library's choice: any slot in [size, cap], but the same one in every call
    const void *t_seen;
    const void *probe;      // probe element of search/find
    int mode;               // 1: sort (both args in the array), 2: search/find (probe, element)
    int cmpmag;
    uint64_t cmp_calls, cmp_budget, swap_calls, cmp_scratch;   // calls within the current library call
} X;

inline uint32_t key_of(const void *p)
{
    const uint8_t *b = (const uint8_t *)p;
    return X.kw == 1 ? b[0] : (uint32_t)(b[0] | (b[1] << 8));
}
inline bool in_arr(const void *p)
{
    uintptr_t q = (uintptr_t)p, b = (uintptr_t)X.base;
    return q >= b && q - b < X.n * X.es && (q - b) % X.es == 0;
}
inline bool is_scratch(const void *p)
{
    if (!p || !X.scratch) return false;
    if (!X.vec) return p == X.scratch;
    uintptr_t q = (uintptr_t)p, b = (uintptr_t)X.base;
    return q >= b + X.n * X.es && q <= b + X.cap * X.es && (q - b) % X.es == 0;
}

// a comparator may itself sort something else (a sub-list, a key it builds): sorting must be re-entrant
bool g_nested_sort, g_nested_sort_bad;
int int_cmp(const void *a, const void *b, void *) { return (*(const int *)a > *(const int *)b) - (*(const int *)a < *(const int *)b); }
void nested_sort_once()
{
    int v[7] = {5, 3, 9, 1, 7, 3, 0}, t;
    cstl_raw_array_sort(v, 7, sizeof v[0], int_cmp, nullptr, cstl_swap, &t, CSTL_SORT_ALGORITHM_DEFAULT);     // library call from within the comparator
    for (int i = 1; i < 7; i++) if (v[i - 1] > v[i]) g_nested_sort_bad = true;
}
int hcmp(const void *a, const void *b, void *priv)
{
    X.cmp_calls++;
    if (g_nested_sort && X.mode == 1 && X.cmp_calls == 3) nested_sort_once();
    CHECK_NOTHROW(priv == (void *)&X, "C11.cmp_priv", "compare callback received priv %p, the caller passed %p", priv,
                  (void *)&X);
    bool ok;
    if (X.mode == 1) {
        // the array, or (nothing in the statement forbids it) the scratch element
        bool sa = is_scratch(a), sb = is_scratch(b);
        if (sa || sb) X.cmp_scratch++;
        ok = (sa || in_arr(a)) && (sb || in_arr(b));
    } else {
        // (probe, element) or (element, probe): which side the probe goes on is not documented
        ok = (a == X.probe && in_arr(b)) || (b == X.probe && in_arr(a));
    }
    if (!ok) {
        CHECK_NOTHROW(false, "C11.cmp_ptr_bounds",
                      "compare callback received (%p,%p): array %p, %zu elements of %zu bytes%s (byte offsets %td, %td)",
                      a, b, (const void *)X.base, X.n, X.es, X.mode == 2 ? ", one argument must be the probe, the other an element" : "",
                      (const char *)a - (const char *)X.base, (const char *)b - (const char *)X.base);
        return 0;   // do not touch memory the library had no business pointing at
    }
    if (X.cmp_calls > X.cmp_budget)
        verif_fail("C11.terminates", "more than %llu comparisons on %zu elements: the call does not terminate",
                   (unsigned long long)X.cmp_budget, X.n);
    uint32_t ka = key_of(a), kb = key_of(b);
    if (X.cmpmag) return ((int)ka - (int)kb) * 7919;
    return (ka > kb) - (ka < kb);
}

void hswap(void *a, void *b, void *t, size_t len)
{
    X.swap_calls++;
    bool ok = in_arr(a) && in_arr(b) && is_scratch(t) && (!X.t_seen || t == X.t_seen) && len == X.es;
    X.t_seen = t;
    if (!ok) {
        CHECK_NOTHROW(false, "C11.swap_args",
                      "swap callback received a=%p b=%p t=%p len=%zu: array %p, %zu elements of %zu bytes, scratch %p%s",
                      a, b, t, len, (const void *)X.base, X.n, X.es, X.scratch,
                      X.vec ? " (or another slot up to there, the same in every call)" : "");
        return;
    }
    if (X.swap_calls > 3 * X.cmp_budget)
        verif_fail("C11.terminates", "more than %llu swaps on %zu elements", (unsigned long long)(3 * X.cmp_budget), X.n);
    memcpy(t, a, len);
    memcpy(a, b, len);
    memcpy(b, t, len);
}

// harness-owned blocks (exact size, so ASan redzones start right behind them)
uint8_t *g_arr = nullptr, *g_tmp = nullptr, *g_probe = nullptr;
struct cstl_vector g_vec;
void cleanup()
{
    free(g_arr); free(g_tmp); free(g_probe);
    g_arr = g_tmp = g_probe = nullptr;
}

void make_elem(uint8_t *d, size_t es, int kw, uint32_t key, size_t i)
{
    d[0] = (uint8_t)key;
    if (kw == 2) d[1] = (uint8_t)(key >> 8);
    for (size_t j = kw; j < es; j++) {
        size_t t = j - kw;
        if (t == 0) d[j] = (uint8_t)i;
        else if (t == 1) d[j] = (uint8_t)(i >> 8);
        else d[j] = (uint8_t)((i * 167 + j * 59 + 0x5b) ^ (i >> 5));
    }
}

std::vector<uint64_t> g_pa, g_pb;
std::vector<uint32_t> g_ia, g_ib;
bool multiset_equal(const uint8_t *a, const uint8_t *b, size_t n, size_t es)
{
    if (es <= 8) {
        g_pa.assign(n, 0);
        g_pb.assign(n, 0);
        for (size_t i = 0; i < n; i++) { memcpy(&g_pa[i], a + i * es, es); memcpy(&g_pb[i], b + i * es, es); }
        std::sort(g_pa.begin(), g_pa.end());
        std::sort(g_pb.begin(), g_pb.end());
        return g_pa == g_pb;
    }
    g_ia.resize(n);
    g_ib.resize(n);
    for (size_t i = 0; i < n; i++) g_ia[i] = g_ib[i] = (uint32_t)i;
    std::sort(g_ia.begin(), g_ia.end(), [&](uint32_t x, uint32_t y) { return memcmp(a + x * es, a + y * es, es) < 0; });
    std::sort(g_ib.begin(), g_ib.end(), [&](uint32_t x, uint32_t y) { return memcmp(b + x * es, b + y * es, es) < 0; });
    for (size_t i = 0; i < n; i++) if (memcmp(a + g_ia[i] * es, b + g_ib[i] * es, es) != 0) return false;
    return true;
}

std::string keys_str(const uint8_t *p, size_t n, size_t es)
{
    std::string s = "[";
    char b[32];
    for (size_t i = 0; i < n && i < 48; i++) { snprintf(b, sizeof b, "%s%u", i ? "," : "", key_of(p + i * es)); s += b; }
    if (n > 48) { snprintf(b, sizeof b, ",...(%zu more)", n - 48); s += b; }
    return s + "]";
}


// ---------------------------------------------------------------- virtual arrays ("for every ... length")
// Arrays of up to 2^33 elements cannot be materialised, but search, find and reverse reach the elements only
// through the caller's compare / swap callbacks: the "array" is an address range that is never dereferenced,
// the element at index i carries the key i (strictly increasing, so the array is sorted), the probe is a real
// object holding a target index. Every index computation narrower than size_t shows here.
struct Virt {
    uintptr_t base; size_t n, es; size_t target;      // target >= n: absent
    uint64_t cmp_calls, swap_calls, sum_i, sum_i2; bool bad; char why[160];
    const void *probe, *tmp;
} V;
bool virt_index(const void *p, size_t *i)
{
    uintptr_t q = (uintptr_t)p;
    if (q < V.base || (q - V.base) % V.es != 0 || (q - V.base) / V.es >= V.n) return false;
    *i = (q - V.base) / V.es;
    return true;
}
int virt_cmp(const void *a, const void *b, void *priv)
{
    V.cmp_calls++;
    if (priv != (void *)&V && !V.bad) { V.bad = true; snprintf(V.why, sizeof V.why, "compare callback received priv %p", priv); }
    size_t i;
    bool probe_first = a == V.probe;
    const void *e = probe_first ? b : a;
    if ((!probe_first && b != V.probe) || !virt_index(e, &i)) {
        if (!V.bad) { V.bad = true; snprintf(V.why, sizeof V.why, "compare callback received (%p,%p): byte offsets %td, %td, array of %zu elements of %zu bytes",
                                              a, b, (intptr_t)((uintptr_t)a - V.base), (intptr_t)((uintptr_t)b - V.base), V.n, V.es); }
        return 0;
    }
    if (V.cmp_calls > 100000 + (V.target < V.n ? V.target : V.n) * 2)        // (a linear find may look at every element up to the target)
        verif_fail("C11.terminates", "more than %llu comparisons searching %zu virtual elements", (unsigned long long)V.cmp_calls, V.n);
    int c = (V.target > i) - (V.target < i);       // cmp(probe, element)
    return probe_first ? c : -c;
}
void virt_swap(void *a, void *b, void *t, size_t len)
{
    V.swap_calls++;
    size_t i, j;
    if (!virt_index(a, &i) || !virt_index(b, &j) || len != V.es || t != V.tmp) {
        if (!V.bad) { V.bad = true; snprintf(V.why, sizeof V.why, "swap callback received a=%p b=%p t=%p len=%zu (array of %zu elements of %zu bytes)", a, b, t, len, V.n, V.es); }
        return;
    }
    if (i > j) std::swap(i, j);
    if (i + j != V.n - 1 || i == j) {
        if (!V.bad) { V.bad = true; snprintf(V.why, sizeof V.why, "swap of elements %zu and %zu of %zu: not a mirrored pair", i, j, V.n); }
        return;
    }
    V.sum_i += i;
    V.sum_i2 += (uint64_t)i * (uint64_t)i;
}
const size_t VCOUNTS[] = {((size_t)1 << 31) + 1, ((size_t)1 << 31) - 1, (size_t)1 << 31, ((size_t)1 << 31) + 2, ((size_t)1 << 32) - 1, (size_t)1 << 32,
                          ((size_t)1 << 32) + 5, ((size_t)1 << 30) + 1, ((size_t)1 << 30) + 2, (size_t)3 << 30, ((size_t)1 << 33) + 1, 100, 65537,
                          ((size_t)1 << 16) + 1, ((size_t)1 << 24) + 3, 1};
const int NVC = sizeof VCOUNTS / sizeof VCOUNTS[0];
size_t virt_target(size_t n, uint8_t code, uint8_t fine)
{
    switch (code % 14) {
    case 0: return 0;
    case 1: return n - 1;
    case 2: return n;                    // absent (beyond the last key)
    case 3: return n / 2;
    case 4: return n > 1 ? n - 2 : 0;
    case 5: return ((size_t)1 << 31) - 1;
    case 6: return (size_t)1 << 31;
    case 7: return ((size_t)1 << 31) + 1;
    case 8: return ((size_t)1 << 32) - 1;
    case 9: return (size_t)1 << 32;
    case 10: return ((size_t)1 << 30) + fine;
    case 11: return n / 2 + fine;
    case 12: return n / 4 * 3 + fine;
    default: return (size_t)fine;
    }
}
void run_virtual(const uint8_t h[], size_t es)
{
    memset(&V, 0, sizeof V);
    V.n = VCOUNTS[h[6] % NVC];
    V.es = es;
    V.base = (uintptr_t)1 << 40;          // never dereferenced
    static size_t probe_obj, tmp_obj[600];
    V.probe = &probe_obj;
    V.tmp = tmp_obj;
    const int what = h[5] % 4;           // 0,1 search; 2 find; 3 reverse
    V.target = virt_target(V.n, h[7], h[8]);
    const bool present = V.target < V.n;
    if (what == 3) {
        // 2^30+ callback calls cost seconds: only when the header says so
        bool big_ok = (h[4] & 0x80) != 0;
#ifdef VERIF_FUZZ
        big_ok = false;       // (a coverage-instrumented build needs minutes for 2^32 callbacks: G1/G2 run these, libFuzzer does not)
#endif
        if (V.n > ((size_t)1 << 26) && !big_ok) { CNT("noop.virt_reverse_big"); TRACE("virtual reverse of %zu elements: skipped (flag)", V.n); return; }
        g_cur_op = "raw_array_reverse(virtual)";
        TRACE("virtual array: %zu elements of %zu bytes; reverse", V.n, V.es);
        LIB(cstl_raw_array_reverse((void *)V.base, V.n, V.es, virt_swap, tmp_obj));
        CHECK(!V.bad, "C11.reverse", "reverse of %zu elements: %s", V.n, V.why);
        uint64_t m = V.n / 2;            // pairs (i, n-1-i), i < n/2, each exactly once
        unsigned __int128 s1 = (unsigned __int128)m * (m - 1) / 2, s2 = (unsigned __int128)(m - 1) * m * (2 * m - 1) / 6;
        CHECK(V.swap_calls == m && V.sum_i == (uint64_t)s1 && V.sum_i2 == (uint64_t)s2, "C11.reverse",
              "reverse of %zu elements made %llu swaps, %llu mirrored pairs are needed, each once", V.n, (unsigned long long)V.swap_calls, (unsigned long long)m);
        CNT("class.virt.reverse");
        if (V.n > (size_t)INT32_MAX) { g_nontrivial = true; CNT("class.virt.above_int_max"); }
        return;
    }
    ssize_t r;
    if (what == 2) {
        // linear find costs target+1 calls (all n when absent): keep it bounded
        size_t cost = present ? V.target : V.n;
        bool allowed = cost <= ((size_t)1 << 22) || ((h[4] & 0x80) && (cost <= ((size_t)1 << 28) || (cost <= ((size_t)1 << 32) + 8 && h[8] < 8)));
#ifdef VERIF_FUZZ
        allowed = cost <= ((size_t)1 << 22);
#endif
        if (!allowed) { CNT("noop.virt_find_far"); TRACE("virtual find: skipped (would make %zu callback calls)", cost); return; }
        g_cur_op = "raw_array_find(virtual)";
        LIB(r = cstl_raw_array_find((const void *)V.base, V.n, V.es, V.probe, virt_cmp, &V));
    } else {
        g_cur_op = "raw_array_search(virtual)";
        LIB(r = cstl_raw_array_search((const void *)V.base, V.n, V.es, V.probe, virt_cmp, &V));
    }
    TRACE("virtual array: %zu elements of %zu bytes, key(i)=i; %s for key %zu -> %zd", V.n, V.es, what == 2 ? "find" : "search", V.target, r);
    CHECK(!V.bad, "C11.cmp_ptr_bounds", "%s in %zu elements: %s", what == 2 ? "find" : "search", V.n, V.why);
    if (present)
        CHECK(r == (ssize_t)V.target, what == 2 ? "C11.find" : "C11.search",
              "%s for the key at index %zu of %zu elements returned %zd", what == 2 ? "find" : "binary search", V.target, V.n, r);
    else
        CHECK(r == -1, what == 2 ? "C11.find" : "C11.search", "%s for an absent key in %zu elements returned %zd, expected -1",
              what == 2 ? "find" : "binary search", V.n, r);
    CNT(what == 2 ? "class.virt.find" : "class.virt.search");
    if (V.n > (size_t)INT32_MAX) { g_nontrivial = true; CNT("class.virt.above_int_max"); }
}

std::vector<uint32_t> g_kidx, g_probes, g_pres;
std::vector<uint8_t> g_in, g_snap;
std::vector<int32_t> g_first;   // key value -> first index in the unsorted input (-1: absent)

void subsample(std::vector<uint32_t> &v, size_t maxn)
{
    if (v.size() <= maxn) return;
    size_t step = (v.size() + maxn - 1) / maxn, w = 0;
    uint32_t last = v.back();
    for (size_t i = 0; i < v.size(); i += step) v[w++] = v[i];
    v.resize(w);
    if (v.back() != last) v.push_back(last);
}

} // namespace

void vf_run(const uint8_t *data, size_t len)
{
    cleanup();
    Cursor cur(data, len);
    uint8_t h[HDR];
    for (size_t i = 0; i < HDR; i++) h[i] = cur.u8();
    const int entry = h[0] % 3;
    // element size: codes 0-7 = the fast-path / classic sizes; 8-199 = every size from 1 to 192 bytes (the code imposes
    // no limit, so neither does the generator); 200-255 = a few large ones
    static const size_t ESBIG[8] = {256, 100, 257, 1000, 333, 512, 48, 4096};
    const size_t es = h[1] < 8 ? ESIZE[h[1]] : h[1] < 200 ? (size_t)(h[1] - 7) : ESBIG[h[1] % 8];
    const int seli = h[2] % NSEL;
    const int kw = es >= 4 ? 2 : 1;
    const uint32_t K = std::min<uint32_t>(KTAB[h[3] % NK], kw == 2 ? 30000u : 120u);
    const bool wrapper = seli == 8;           // vector: the cstl_vector_sort() inline (cstl_swap, default algorithm)
    const bool cswap = (h[4] & 1) && !(wrapper && entry != E_RAW);
    const bool tail_lcg = h[4] & 2;
    const int cmpmag = (h[4] >> 2) & 1;
    const size_t slack = 1 + (h[4] >> 4);
    const int shape = h[5] % NSHAPE;
    // shaped length: u16 when its high byte is < 32, else only the low byte counts (mod 48), so
    // that arbitrary byte strings (libFuzzer) are mostly small arrays
    size_t ns = !shape ? 0 : h[7] < 32 ? (size_t)((h[6] | (h[7] << 8)) % 8001) : (size_t)(h[6] % 48);
    const uint8_t param = h[8];
    if (h[9] & 0x80) { run_virtual(h, es); return; }      // arrays too long to exist: see run_virtual
    const unsigned limit = h[9] & 15;         // G1 only: max elements, canonical record order
    const bool strict = g_want_state && limit;
    const size_t nmax = std::min<size_t>((seli == 0 || seli == 1) ? NMAX_DEEP : NMAX, std::max<size_t>(4, ((size_t)1 << 19) / es));   // <= 512 KiB of elements
    const cstl_sort_algorithm_t algo = (cstl_sort_algorithm_t)SELV[seli];

    // ---- decode the array (key indexes) and the rand() script
    std::vector<uint32_t> &kidx = g_kidx;
    kidx.clear();
    g_script.clear();
    g_script_pos = 0;
    g_rand_calls = 0;
    g_tail_lcg = tail_lcg;
    g_lcg = 0x9E3779B9u * (param + 1u);
    if (ns > nmax) { ns = nmax; CNT("noop.ncap"); }
    {
        uint32_t l = 0xC0FFEEu + param * 2654435761u;
        auto lcg = [&]() { l = l * 1664525u + 1013904223u; return l >> 8; };
        uint32_t lo = param % K, hi = (param / 7 + 1 + lo) % K;
        size_t P = 2 + param % 30;
        for (size_t i = 0; i < ns; i++) {
            uint64_t x = 0;
            switch (shape) {
            case SH_SORTED: x = (uint64_t)i * K / ns; break;
            case SH_REVERSED: x = (uint64_t)(ns - 1 - i) * K / ns; break;
            case SH_CONST: x = lo; break;
            case SH_TWO: x = (param & 1) ? ((i & 1) ? hi : lo) : ((lcg() & 1) ? hi : lo); break;
            case SH_ORGAN: x = (uint64_t)std::min(i, ns - 1 - i) * 2 * K / ns; break;
            case SH_SAW: x = (uint64_t)(i % P) * K / P; break;
            case SH_RANDOM: x = lcg() % K; break;
            }
            kidx.push_back((uint32_t)std::min<uint64_t>(x, K - 1));
        }
    }
    bool seen_r = false, oos = false;
    while (cur.remaining() >= REC) {
        uint8_t k = cur.u8();
        uint16_t v = cur.u16();
        if (k & 1) {        // one rand() value
            if (strict && g_script.size() + 1 >= std::max<size_t>(kidx.size(), 1)) { oos = true; continue; }
            if (g_script.size() >= 8192) { CNT("noop.script_full"); continue; }
            g_script.push_back(k == 0xFF ? 0x7fffffff : (int)(v | ((uint32_t)(k >> 1) << 16)));
            seen_r = true;
        } else {            // one element
            if (strict && (seen_r || kidx.size() >= limit)) { oos = true; continue; }
            if (kidx.size() >= nmax) { CNT("noop.ncap"); continue; }
            kidx.push_back(v % K);
        }
    }
    if (oos) {              // G1: a non-canonical spelling of a case that is enumerated elsewhere
        g_out_of_scope = true;
        CNT("g1.out_of_scope");
        return;
    }
    const size_t n = kidx.size();

    // ---- the input, as bytes
    std::vector<uint8_t> &in = g_in;
    in.resize(n * es);
    for (size_t i = 0; i < n; i++) make_elem(in.data() + i * es, es, kw, 1 + 2 * kidx[i], i);
    X = Ctx{};
    X.n = n; X.es = es; X.kw = kw; X.cmpmag = cmpmag;
    X.cmp_budget = 4ull * n * n + 100ull * n + 1000;

    // presence table and classes
    if (g_first.empty()) g_first.assign(60004, -1);
    std::vector<uint32_t> &pres = g_pres;
    pres.clear();
    for (size_t i = 0; i < n; i++) {
        uint32_t k = 1 + 2 * kidx[i];
        if (g_first[k] < 0) { g_first[k] = (int32_t)i; pres.push_back(k); }
    }
    struct Unmark { ~Unmark() { for (uint32_t k : g_pres) g_first[k] = -1; } } unmark;
    std::sort(pres.begin(), pres.end());
    const size_t distinct = pres.size();

    TRACE("header entry=%s esize=%zu selector=%s(%d)%s K=%u swap=%s cmp=%s shape=%s(n=%zu,param=%u) slack=%zu rand_tail=%s",
          ENTRYN[entry], es, SELN[seli], SELV[seli], wrapper ? " via default wrapper" : "", K,
          cswap ? "custom" : "cstl_swap", cmpmag ? "scaled-difference" : "sign", SHAPEN[shape], ns, param,
          entry == E_VEC_SLACK ? slack : 0, tail_lcg ? "lcg" : "0");
    if (g_trace) {
        std::string s = "[";
        for (size_t i = 0; i < g_script.size() && i < 32; i++) s += (i ? "," : "") + std::to_string(g_script[i]);
        if (g_script.size() > 32) s += ",...";
        TRACE("input n=%zu distinct=%zu keys=%s rand_script(%zu)=%s]", n, distinct, keys_str(in.data(), n, es).c_str(),
              g_script.size(), s.c_str());
    }

    // ---- storage
    uint8_t *base = nullptr;
    void *scratch = nullptr;
    size_t cap = n;
    if (entry == E_RAW) {
        g_arr = (uint8_t *)malloc(n * es);
        g_tmp = (uint8_t *)malloc(es);
        if (n) memcpy(g_arr, in.data(), n * es);
        memset(g_tmp, 0xC3, es);
        base = g_arr;
        scratch = g_tmp;
    } else {
        memset(&g_vec, 0xA5, sizeof g_vec);      // init must set every field itself
        cstl_vector_init(&g_vec, es);
        g_cur_op = "vector fill";
        bool ab = may_abort([&] {
            if (entry == E_VEC_SLACK) cstl_vector_reserve(&g_vec, n + slack);
            cstl_vector_resize(&g_vec, n);
        });
        if (ab) {       // only under fault injection: nothing to test
            CNT("noop.alloc_failed");
            TRACE("vector resize aborted (allocation failed): case abandoned");
            lib_release_all();
            return;
        }
        for (size_t i = 0; i < n; i++) {
            void *p;
            LIB(p = cstl_vector_at(&g_vec, i));
            memcpy(p, in.data() + i * es, es);
        }
        if (h[4] & 8) {
            // the vector to be sorted received its contents through cstl_vector_swap() from a vector of another capacity:
            // where the scratch element lives must have travelled with the storage
            struct cstl_vector other;
            memset(&other, 0xA5, sizeof other);
            cstl_vector_init(&other, es);
            bool ab2 = may_abort([&] { cstl_vector_reserve(&other, n + slack + 9); cstl_vector_resize(&other, (n % 3) + 1); });
            if (!ab2) {
                LIB(cstl_vector_swap(&g_vec, &other));
                // `other` now holds the array under test (and must have taken its capacity along), g_vec the bigger block:
                // exchange the two handles so that the rest of the case keeps using the name g_vec
                struct cstl_vector t = g_vec;               // (plain copies of harness-owned handles: vectors carry no self-pointer)
                g_vec = other;
                other = t;
                CNT("class.vector_via_swap");
            }
            LIB(cstl_vector_clear(&other));
        }
        base = (uint8_t *)cstl_vector_data(&g_vec);
        cap = cstl_vector_capacity(&g_vec);
        if (cap < n) {  // C09's business; cannot continue here
            CNT("noop.cap_lt_size");
            LIB(cstl_vector_clear(&g_vec));
            return;
        }
        scratch = base ? base + cap * es : nullptr;
        if (cap > n) memset(base + n * es, 0xA5, (cap - n) * es);
    }
    g_probe = (uint8_t *)malloc(es);
    memset(g_probe, 0xEE, es);
    X.base = base;
    X.scratch = scratch;
    X.vec = entry != E_RAW;
    X.cap = cap;
    X.probe = g_probe;
    auto set_probe = [&](uint32_t k) { g_probe[0] = (uint8_t)k; if (kw == 2) g_probe[1] = (uint8_t)(k >> 8); };
    auto vec_intact = [&](const char *after) {
        if (entry == E_RAW) return;
        CHECK(cstl_vector_size(&g_vec) == n && cstl_vector_data(&g_vec) == (void *)base &&
                  cstl_vector_capacity(&g_vec) == cap,
              "C11.permutation", "%s changed the vector itself: size %zu (was %zu), data %p (was %p), capacity %zu (was %zu)",
              after, cstl_vector_size(&g_vec), n, cstl_vector_data(&g_vec), (void *)base, cstl_vector_capacity(&g_vec), cap);
        // slots between size and capacity are not the array and at most one of
        // them may serve as the scratch element
        size_t touched = 0;
        for (size_t i = n; i < cap; i++)
            for (size_t j = 0; j < es; j++)
                if (base[i * es + j] != 0xA5) { touched++; break; }
        CHECK(touched <= 1, "C11.outside_array", "%s modified %zu element slots between size %zu and capacity %zu", after,
              touched, n, cap);
    };

    // ---- probes: every alphabet value (small alphabets), every present key and
    // its two absent neighbours (keys are odd, so even values never occur),
    // one value below and one above everything
    std::vector<uint32_t> &probes = g_probes;
    probes.clear();
    if (K <= 300) for (uint32_t i = 0; i < K; i++) probes.push_back(1 + 2 * i);
    for (uint32_t k : pres) { probes.push_back(k - 1); probes.push_back(k); probes.push_back(k + 1); }
    probes.push_back(0);
    probes.push_back(2 * K);
    std::sort(probes.begin(), probes.end());
    probes.erase(std::unique(probes.begin(), probes.end()), probes.end());

    // ---- find on the unsorted input: first match or -1
    {
        g_cur_op = "find";
        std::vector<uint32_t> fp = probes;
        subsample(fp, std::max<size_t>(8, 8000 / (n + 1)));
        X.mode = 2;
        for (uint32_t k : fp) {
            set_probe(k);
            ssize_t r;
            if (g_replay_mode == 1) TRACE("> find key=%u", k);
            X.cmp_calls = 0;
            if (entry == E_RAW) LIB(r = cstl_raw_array_find(base, n, es, g_probe, hcmp, &X));
            else LIB(r = cstl_vector_find(&g_vec, g_probe, hcmp, &X));
            CHECK(r == (ssize_t)g_first[k], "C11.find", "find(key %u) on the unsorted input returned %zd, first match is at %d",
                  k, r, g_first[k]);
        }
        // the probe may be an element of the array itself (looking for an earlier duplicate of arr[i]): still the FIRST match
        for (size_t j = 0; j < 6 && n > 0; j++) {
            size_t i = j == 0 ? n - 1 : j == 1 ? n / 2 : (n - 1) * j / 6;
            const uint8_t *pe = base + i * es;
            uint32_t k = key_of(pe);
            X.probe = pe;
            X.cmp_calls = 0;
            ssize_t r;
            if (g_replay_mode == 1) TRACE("> find probe=&arr[%zu] (key %u)", i, k);
            if (entry == E_RAW) LIB(r = cstl_raw_array_find(base, n, es, pe, hcmp, &X));
            else LIB(r = cstl_vector_find(&g_vec, pe, hcmp, &X));
            X.probe = g_probe;
            CHECK(k < g_first.size() && r == (ssize_t)g_first[k], "C11.find", "find with the probe &arr[%zu] (key %u) returned %zd, the first match is at %d",
                  i, k, r, k < g_first.size() ? g_first[k] : -2);
            CNT("class.find.probe_is_element");
        }
        CHECK(n == 0 || memcmp(base, in.data(), n * es) == 0, "C11.find", "find modified the array");
        TRACE("find: %zu probes agree (first match / -1)", fp.size());
    }

    // ---- sort
    {
        g_cur_op = "sort";
        X.mode = 1;
        X.cmp_calls = X.swap_calls = 0;
        X.t_seen = nullptr;
        cstl_swap_func_t *sw = cswap ? hswap : cstl_swap;
        g_nested_sort = (h[9] & 0x20) != 0;
        g_nested_sort_bad = false;
        if (g_nested_sort) CNT("class.sort.comparator_sorts");
        if (g_replay_mode == 1) TRACE("> sort");
        if (entry == E_RAW) LIB(cstl_raw_array_sort(base, n, es, hcmp, &X, sw, scratch, algo));
        else if (wrapper) LIB(cstl_vector_sort(&g_vec, hcmp, &X));
        else LIB(__cstl_vector_sort(&g_vec, hcmp, &X, sw, algo));
        TRACE("sort -> keys=%s cmp_calls=%llu custom_swaps=%llu rand_calls=%llu (script %zu)",
              keys_str(base, n, es).c_str(), (unsigned long long)X.cmp_calls, (unsigned long long)X.swap_calls,
              (unsigned long long)g_rand_calls, g_script.size());
        g_nested_sort = false;
        CHECK(!g_nested_sort_bad, "C11.sorted", "a sort of seven ints started from inside the comparator of another sort came back unsorted");
        vec_intact("sort");
        for (size_t i = 1; i < n; i++)
            CHECK(key_of(base + (i - 1) * es) <= key_of(base + i * es), "C11.sorted",
                  "after sort element %zu (key %u) is greater than element %zu (key %u); n=%zu", i - 1,
                  key_of(base + (i - 1) * es), i, key_of(base + i * es), n);
        CHECK(multiset_equal(in.data(), base, n, es), "C11.permutation",
              "after sort the %zu elements are not the same byte strings as before (something lost, duplicated or torn)", n);
        if (X.cmp_scratch) CNT("class.cmp_on_scratch");
    }
    const uint64_t rand_calls = g_rand_calls;

    // ---- search on the sorted result
    {
        g_cur_op = "search";
        std::vector<uint32_t> sp = probes;
        subsample(sp, 1500);
        X.mode = 2;
        for (uint32_t k : sp) {
            set_probe(k);
            ssize_t r;
            if (g_replay_mode == 1) TRACE("> search key=%u", k);
            X.cmp_calls = 0;
            if (entry == E_RAW) LIB(r = cstl_raw_array_search(base, n, es, g_probe, hcmp, &X));
            else LIB(r = cstl_vector_search(&g_vec, g_probe, hcmp, &X));
            if (g_first[k] >= 0)
                CHECK(r >= 0 && (size_t)r < n && key_of(base + r * es) == k, "C11.search",
                      "search(key %u) on the sorted array returned %zd; an equal element exists (n=%zu)", k, r, n);
            else
                CHECK(r == -1, "C11.search", "search(key %u) returned %zd although no element compares equal", k, r);
        }
        TRACE("search: %zu probes agree (%zu present keys)", sp.size(), distinct);
    }

    // ---- reverse: twice, once with each swap function; exact mirror each time
    for (int pass = 0; pass < 2; pass++) {
        g_cur_op = "reverse";
        bool custom = (pass == 0) == cswap;
        g_snap.assign(base, base + n * es);
        X.swap_calls = 0;
        X.t_seen = nullptr;
        if (g_replay_mode == 1) TRACE("> reverse");
        if (entry == E_RAW) LIB(cstl_raw_array_reverse(base, n, es, custom ? hswap : cstl_swap, scratch));
        else if (custom) LIB(__cstl_vector_reverse(&g_vec, hswap));
        else LIB(cstl_vector_reverse(&g_vec));
        vec_intact("reverse");
        for (size_t i = 0; i < n; i++)
            CHECK(memcmp(base + i * es, g_snap.data() + (n - 1 - i) * es, es) == 0, "C11.reverse",
                  "after reverse element %zu is not the former element %zu (n=%zu, %s)", i, n - 1 - i, n,
                  custom ? "custom swap" : "cstl_swap");
        TRACE("reverse (%s) mirrors all %zu elements", custom ? "custom swap" : "cstl_swap", n);
    }

    // ---- teardown
    if (entry != E_RAW) LIB(cstl_vector_clear(&g_vec));
    cleanup();

    // ---- classes, non-trivial rule
    {
        static CntTab ce{"class.entry.raw", "class.entry.vector_exact", "class.entry.vector_slack"};
        static CntTab cs{"class.sel.QUICK", "class.sel.QUICK_R", "class.sel.QUICK_M", "class.sel.HEAP", "class.sel.4",
                         "class.sel.99", "class.sel.-1", "class.sel.2897234", "class.sel.DEFAULT_wrapper", "class.sel.other_out_of_range"};
        static CntTab cn{"class.n.0", "class.n.1", "class.n.2", "class.n.3", "class.n.4-40", "class.n.41-1000",
                         "class.n.1001+"};
        static CntTab cp{"class.pivot.is_min", "class.pivot.is_max", "class.pivot.inner", "class.pivot.all_equal"};
        static CntTab csh{"class.shape.explicit", "class.shape.sorted", "class.shape.reversed", "class.shape.constant",
                          "class.shape.two_valued", "class.shape.organ_pipe", "class.shape.sawtooth", "class.shape.random"};
        ce.hit(entry);
        cs.hit(seli < 9 ? seli : 9);
        csh.hit(shape);
        cn.hit(n <= 3 ? n : n <= 40 ? 4 : n <= 1000 ? 5 : 6);
        if (es == 1 || es == 2 || es == 4 || es == 8) CNT("class.esize.fast_path"); else CNT("class.esize.memcpy_path");
        if (cswap) CNT("class.swap.custom"); else CNT("class.swap.cstl_swap");
        if (n >= 2 && distinct == 1) CNT("class.all_equal");
        if (distinct == 2) CNT("class.two_valued");
        if (n >= 2 && distinct == n) CNT("class.all_distinct");
        if (seli == 1) {
            CNTN("rand.calls", rand_calls);
            if (rand_calls > g_script.size()) CNT("class.rand.script_exhausted");
            else if (rand_calls == g_script.size() && rand_calls) CNT("class.rand.script_exact");
        }
        // the pivot of the first (whole-array) partition, from the input alone
        if (n >= 2 && seli != 3) {
            uint32_t pk;
            bool have = true;
            if (seli == 0) pk = kidx[0];
            else if (seli == 1) pk = kidx[(size_t)(g_script.empty() ? 0 : g_script[0]) % n], have = !(tail_lcg && g_script.empty());
            else {
                uint32_t a = kidx[0], b = kidx[(n - 1) / 2], c = kidx[n - 1];
                pk = std::max(std::min(a, b), std::min(std::max(a, b), c));
                have = n > 3;
            }
            if (have) {
                uint32_t mn = (pres.front() - 1) / 2, mx = (pres.back() - 1) / 2;
                cp.hit(mn == mx ? 3 : pk == mn ? 0 : pk == mx ? 1 : 2);
            }
        }
        g_nontrivial = n >= 3 && distinct >= 2 && distinct < n;
    }
    // G1: a script longer than what the sort consumed behaves like its prefix
    if (g_want_state && limit && rand_calls < g_script.size()) { g_out_of_scope = true; CNT("g1.script_unconsumed"); }
}

// ---------------------------------------------------------------- G2
void vf_gen(Rng &r, std::vector<uint8_t> &out)
{
    if (r.chance(1, 64)) {
        // virtual array (lengths around and above 2^31 .. 2^33): header only
        out.push_back(0);
        out.push_back(r.chance(1, 2) ? (uint8_t)r.below(8) : r.byte());
        out.push_back(0);
        out.push_back(0);
        out.push_back(r.chance(1, 1500) ? 0x80 : 0);  // long-running variants (2^30 swap calls, far linear finds) are rare: ~10 s each
        out.push_back(r.byte());                         // search / find / reverse
        out.push_back(r.byte());                         // length
        out.push_back(r.byte());                         // target class
        out.push_back(r.byte());                         // target fine
        out.push_back(0x80);
        return;
    }
    int seli = r.chance(3, 4) ? (int)r.below(9) : (int)r.below(NSEL);
    out.push_back(r.byte());                 // entry point
    out.push_back(r.chance(1, 2) ? (uint8_t)r.below(8) : r.byte());   // element size: half classic sizes, half anything up to 192 / large
    out.push_back((uint8_t)seli);            // selector
    uint32_t cls = r.below(100);
    // alphabet: small for small arrays (so values repeat), anything for large
    static const uint8_t KS[] = {0, 1, 1, 2, 2, 3, 3, 3, 4, 5, 6, 7};
    out.push_back(cls < 80 ? KS[r.below(sizeof KS)] : (uint8_t)r.below(NK));
    out.push_back(r.byte());                 // flags
    size_t nexp, nshape = 0;
    int shape = 0;
    if (cls < 80) {                          // tiny, spelled out
        nexp = r.chance(1, 3) ? r.below(4) : r.below(41);
        if (r.chance(1, 8)) { shape = 1 + (int)r.below(NSHAPE - 1); nshape = r.below(41); nexp = r.below(4); }
    } else {
        shape = 1 + (int)r.below(NSHAPE - 1);
        nshape = cls < 94 ? 41 + r.below(260) : cls < 99 ? 300 + r.below(2700) : 3000 + r.below(5001);
        nexp = r.chance(1, 2) ? 0 : r.below(5);
    }
    out.push_back((uint8_t)shape);
    out.push_back((uint8_t)nshape);
    out.push_back((uint8_t)(nshape >> 8));
    out.push_back(r.byte());                 // shape parameter / seed
    out.push_back(r.chance(1, 8) ? 0x20 : 0); // G1 limit: none; 1 in 8: the comparator itself sorts a small array
    for (size_t i = 0; i < nexp; i++) { out.push_back(0); out.push_back(r.byte()); out.push_back(r.byte()); }
    if (seli == 1 || r.chance(1, 16)) {      // rand() script
        size_t n = nexp + nshape;
        size_t nr = n <= 40 ? r.below((uint32_t)n + 2) : r.below(64);
        int mode = (int)r.below(4);
        for (size_t i = 0; i < nr; i++) {
            int m = mode == 3 ? (int)r.below(3) : mode;
            uint32_t v = m == 0 ? r.below((uint32_t)n + 1) : m == 1 ? (r.chance(1, 2) ? 0 : (uint32_t)n - (n > 0)) : (uint32_t)r.next();
            uint8_t k = m == 2 ? (uint8_t)(r.byte() | 1) : 1;
            out.push_back(k);
            out.push_back((uint8_t)v);
            out.push_back((uint8_t)(v >> 8));
        }
    }
}

// ---------------------------------------------------------------- G1
bool vf_scope(const std::string &name, Scope &s)
{
    // "arr:<entry 0-2>:<esize idx 0-7>:<selector idx 0-8>:<L>[:<flags>]"
    //     every array of length <= L over a 4-value alphabet
    // "qr:<entry>:<esize idx>:<L>[:<flags>]"
    //     QUICK_R: every array of length <= L, then every rand() script the sort consumes
    int entry = 0, esi = 0, seli = 0, L = 0, flags = 0;
    bool qr = false;
    if (sscanf(name.c_str(), "arr:%d:%d:%d:%d:%d", &entry, &esi, &seli, &L, &flags) >= 4) qr = false;
    else if (sscanf(name.c_str(), "qr:%d:%d:%d:%d", &entry, &esi, &L, &flags) >= 3) { qr = true; seli = 1; }
    else return false;
    if (L < 1 || L > 15 || entry < 0 || entry > 2 || esi < 0 || esi > 255 || seli < 0 || seli >= NSEL) return false;
    s.header = {(uint8_t)entry, (uint8_t)esi, (uint8_t)seli, 3 /* K=4 */, (uint8_t)flags, 0, 0, 0, 0, (uint8_t)L};
    for (int k = 0; k < 4; k++) { s.alphabet.push_back({0, (uint8_t)k, 0}); s.names.push_back("elem"); }
    if (qr) for (int v = 0; v < L; v++) { s.alphabet.push_back({1, (uint8_t)v, 0}); s.names.push_back("rand"); }
    s.prune = false;
    s.max_depth = qr ? 2 * L - 1 : L;
    return true;
}

int vf_custom(int, char **) { fprintf(stderr, "unknown engine\n"); return 2; }
