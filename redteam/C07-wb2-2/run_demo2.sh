#!/bin/sh
# run from the worktree root: sh _seed/run_demo2.sh
make b >/dev/null 2>&1 || { echo "FAIL: make b failed"; exit 1; }
gcc -std=gnu99 -Wall -Iinclude _seed/demo2.c build/libcstl.a -lm -lpthread -o _seed/demo2.bin || { echo "FAIL: demo does not compile"; exit 1; }
./_seed/demo2.bin
