// C01 (ordered trees hold exactly the inserted-minus-erased multiset, in order),
// C02 (red-black rules after every insert/erase) and the bintree/rbtree part
// of C15 (clear hands over each element exactly once, tree reusable).
#include "common/verif.hpp"
#include <cmath>
extern "C" {
#include "cstl/bintree.h"
#include "cstl/rbtree.h"
void vf_static_bintree(struct cstl_bintree *t, cstl_compare_func_t *cmp, void *priv, size_t off);
void vf_static_rbtree(struct cstl_rbtree *t, cstl_compare_func_t *cmp, void *priv, size_t off);
}
using namespace vf;

const char *vf_harness_name() { return "tree"; }

namespace {

struct Elem {
    int id;
    int key;
    int cleared;
    mutable int vst;        // visit state scratch for the walk oracle
    size_t slot;            // index in Tree::all (O(1) removal)
    struct cstl_bintree_node bn;
    struct cstl_rbtree_node rn;
};

enum Op { INS, INS_HINT, FIND, ERASE, WALK_STOP, CLEAR, AUDIT, HEIGHT, NOPS };
const char *OPN[] = {"insert", "insert_hint", "find", "erase", "walk_stop", "clear", "audit", "height"};
const uint8_t PROFILES[][NOPS] = {
    /* uniform  */ {1, 1, 1, 1, 1, 1, 1, 1},
    /* grow     */ {6, 4, 2, 2, 1, 0, 1, 1},
    /* churn    */ {4, 3, 1, 6, 1, 0, 1, 0},
    /* shrink   */ {2, 1, 1, 6, 1, 1, 1, 1},
    /* no clear */ {3, 3, 2, 3, 2, 0, 1, 1},
    /* C15 fill */ {5, 3, 0, 1, 0, 2, 0, 0},
};
const int NPROFILES = sizeof PROFILES / sizeof PROFILES[0];
const int KEYS[] = {1, 2, 3, 5, 8, 16, 64, 1000, 4, 6};
const int NKEYS = 10;
const size_t MAXLIVE[] = {1000000, 4, 6, 8, 9, 10, 11, 12, 5, 7, 3};
const int NMAXLIVE = 11;

// comparison functions (consistent strict weak orders); priv must arrive unchanged
int g_priv_token, g_clear_token;      // (the comparison priv and the clear priv are different pointers)
int g_cmp_kind;
const char *g_cmp_clause = "C01.cmp.priv";
uint64_t g_cmp_calls;
int key_class(int k) { return g_cmp_kind == 2 ? k / 2 : k; }
int cmp_keys(int a, int b)
{
    switch (g_cmp_kind) {
    default:
    case 0: return a - b;
    case 1: return b - a;
    case 2: return a / 2 - b / 2;
    case 3: return a < b ? -2000000000 : a > b ? 2000000000 : 0;
    }
}
// "any comparison function" includes one that uses another tree while it compares. In re-entrant cases (cmp byte,
// bits 6 and 5) every comparison of the trees under test performs a hitting and a missing find in a small red-black
// tree of its own and a stopped walk over it.
bool g_reenter;
struct cstl_rbtree g_aux;
int g_aux_token;
Elem g_aux_e[3];
int aux_cmp(const void *a, const void *b, void *p)
{
    CHECK_NOTHROW(p == &g_aux_token, g_cmp_clause, "compare function of the auxiliary tree received a different priv pointer");
    int x = ((const Elem *)a)->key, y = ((const Elem *)b)->key;
    return (x > y) - (x < y);
}
int aux_visit(const void *e, cstl_bintree_visit_order_t ord, void *p)
{
    if (ord == CSTL_BINTREE_VISIT_ORDER_MID || ord == CSTL_BINTREE_VISIT_ORDER_LEAF) { ++*(int *)p; if (((const Elem *)e)->key == 1000003) return 7; }
    return 0;
}
void aux_setup()
{
    HarnessScope hs;
    memset(&g_aux, 0xA5, sizeof g_aux);
    cstl_rbtree_init(&g_aux, aux_cmp, &g_aux_token, offsetof(Elem, rn));
    for (int i = 0; i < 3; i++) {
        memset(&g_aux_e[i], 0x5a, sizeof g_aux_e[i]);
        g_aux_e[i].key = 1000001 + 2 * i;
        LIB(cstl_rbtree_insert(&g_aux, &g_aux_e[i], nullptr));
    }
}
void aux_lookups(int x)
{
    HarnessScope hs;
    CNT("class.tree.reentrant_cmp");
    Elem hit, miss;
    hit.key = (int)(1000001 + 2 * (((unsigned)x) % 3));
    miss.key = (int)(2000000 + (x & 0xffff));
    const void *r;
    LIB(r = cstl_rbtree_find(&g_aux, &hit, nullptr));
    CHECK_NOTHROW(r == &g_aux_e[((unsigned)x) % 3], "C01.find.iff", "a find made from inside the comparison function of another tree did not return the present element");
    LIB(r = cstl_rbtree_find(&g_aux, &miss, nullptr));
    CHECK_NOTHROW(r == nullptr, "C01.find.iff", "a find made from inside the comparison function of another tree returned an element for an absent key");
    int seen = 0, rv;
    LIB(rv = cstl_rbtree_foreach(&g_aux, aux_visit, &seen, CSTL_BINTREE_FOREACH_DIR_FWD));
    CHECK_NOTHROW(rv == 7 && seen == 2, "C01.walk.stop", "a walk made from inside the comparison function of another tree presented %d elements and returned %d (expected 2 and 7)", seen, rv);
}
int cmp_cb(const void *a, const void *b, void *p)
{
    CHECK_NOTHROW(p == &g_priv_token, g_cmp_clause, "compare function received a different priv pointer");
    g_cmp_calls++;
    if (g_reenter) aux_lookups(((const Elem *)a)->key ^ ((const Elem *)b)->key);
    return cmp_keys(((const Elem *)a)->key, ((const Elem *)b)->key);
}
// C02: "... so find, insert and erase stay logarithmic": one library call on a red-black tree of n elements makes at
// most a constant times the height bound 2*log2(n+1) comparisons (twice that bound plus slack is allowed here, which
// covers implementations that compare twice per level; a walk along the equal elements does not fit)
void cost_check(bool rb, size_t n, uint64_t c0, const char *what)
{
    if (!rb || !(g_prop == "C02" || g_prop.empty())) return;
    uint64_t calls = g_cmp_calls - c0;
    double bound = 2.0 * (2.0 * std::log2((double)n + 1.0)) + 8.0;
    CHECK((double)calls <= bound, "C02.log_cost", "%s on a red-black tree of %zu elements made %llu comparisons (2*log2(n+1) = %.1f)", what, n,
          (unsigned long long)calls, 2.0 * std::log2((double)n + 1.0));
}

struct Visit { const Elem *e; int ord; };
struct WalkCtx {
    std::vector<Visit> v;
    size_t limit, stop_at;
    int stop_val;
    bool overflow;
};
// a visitor may itself traverse (a read-only walk of the same tree from inside a visit): the outer walk must be unaffected
struct Nest { void (*run)(); size_t at; bool done; WalkCtx *outer; } g_nest;
int walk_cb(const void *e, cstl_bintree_visit_order_t ord, void *p)
{
    WalkCtx *c = (WalkCtx *)p;
    if (c->v.size() >= c->limit) { c->overflow = true; return 77; }
    c->v.push_back({(const Elem *)e, (int)ord});
    if (g_nest.run && !g_nest.done && g_nest.outer == c && c->v.size() == g_nest.at) { g_nest.done = true; g_nest.run(); }
    if (c->stop_at && c->v.size() == c->stop_at) return c->stop_val;
    return 0;
}

struct Tree;
struct ClearCtx { Tree *t; std::unordered_set<const void *> *expect; size_t calls; bool bad; };
ClearCtx *g_clear_ctx;

struct Tree {
    bool rb;
    const char *tag;
    struct cstl_bintree bt;
    struct cstl_rbtree rt;
    std::map<int, std::vector<Elem *>> model;   // class -> held elements
    size_t n;
    std::vector<Elem *> all;
    std::unordered_set<const void *> liveset;   // held elements (pointer identity)
    int next_id;
    size_t boff;                                // plain tree: which bintree-node member of Elem it links (travels with swap)

    void init(bool isrb, const char *t, size_t bintree_off = offsetof(Elem, bn))
    {
        rb = isrb;
        tag = t;
        boff = bintree_off;
        model.clear();
        fresh_clear(liveset);
        n = 0;
        next_id = 0;
        memset(&rt, 0xA5, sizeof rt);      // init must set every field itself
        memset(&bt, 0xA5, sizeof bt);
        if ((g_case_hash >> 21) & 1) {       // the static initialiser macros instead of the init functions
            if (rb) vf_static_rbtree(&rt, cmp_cb, &g_priv_token, offsetof(Elem, rn));
            else vf_static_bintree(&bt, cmp_cb, &g_priv_token, boff);
        } else if (rb) cstl_rbtree_init(&rt, cmp_cb, &g_priv_token, offsetof(Elem, rn));
        else cstl_bintree_init(&bt, cmp_cb, &g_priv_token, boff);
    }
    Elem *mk(int key)
    {
        Elem *e = (Elem *)malloc(sizeof *e);
        memset(e, 0x5a, sizeof *e);
        e->id = next_id++;
        e->key = key;
        e->cleared = 0;
        e->slot = all.size();
        all.push_back(e);
        return e;
    }
    void kill(Elem *e)
    {
        size_t i = e->slot;
        if (i < all.size() && all[i] == e) { all[i] = all.back(); all[i]->slot = i; all.pop_back(); }
        memset(e, 0xDD, sizeof *e);
        free(e);
    }
    void destroy() { for (Elem *e : all) free(e); all.clear(); }
    bool held(int cls, const void *p)
    {
        auto it = model.find(cls);
        if (it == model.end()) return false;
        for (Elem *e : it->second) if (e == p) return true;
        return false;
    }
    // public-struct peeks (state identification, statistics, and the C02 walk)
    struct cstl_bintree_node *root() { return rb ? rt.t.root : bt.root; }
    struct cstl_bintree_node *node(Elem *e) { return rb ? &e->rn.n : (struct cstl_bintree_node *)((char *)e + boff); }
    Elem *elem(struct cstl_bintree_node *b)
    {
        return (Elem *)((char *)b - (rb ? offsetof(Elem, rn.n) : boff));
    }
    // library calls
    size_t size() { size_t s; LIB(s = rb ? cstl_rbtree_size(&rt) : cstl_bintree_size(&bt)); return s; }
    void insert(Elem *e, void *p) { uint64_t c0 = g_cmp_calls; LIB(if (rb) cstl_rbtree_insert(&rt, e, p); else cstl_bintree_insert(&bt, e, p)); cost_check(rb, n, c0, "insert"); }
    const void *find(const Elem *probe, const void **par)
    {
        const void *r;
        uint64_t c0 = g_cmp_calls;
        LIB(r = rb ? cstl_rbtree_find(&rt, probe, par) : cstl_bintree_find(&bt, probe, par));
        cost_check(rb, n, c0, "find");
        return r;
    }
    void *erase(const Elem *probe) { void *r; uint64_t c0 = g_cmp_calls; LIB(r = rb ? cstl_rbtree_erase(&rt, probe) : cstl_bintree_erase(&bt, probe)); cost_check(rb, n, c0, "erase"); return r; }
    int foreach(WalkCtx *c, int dir)
    {
        int r;
        LIB(r = rb ? cstl_rbtree_foreach(&rt, walk_cb, c, (cstl_bintree_foreach_dir_t)dir)
                   : cstl_bintree_foreach(&bt, walk_cb, c, (cstl_bintree_foreach_dir_t)dir));
        return r;
    }
    void height(size_t *mn, size_t *mx) { LIB(if (rb) cstl_rbtree_height(&rt, mn, mx); else cstl_bintree_height(&bt, mn, mx)); }
};

void clear_cb(void *obj, void *priv)
{
    HarnessScope hs;
    ClearCtx *c = g_clear_ctx;
    c->calls++;
    if (priv != &g_clear_token) { c->bad = true; return; }
    Elem *e = (Elem *)obj;
    if (!c->expect->count(e)) { c->bad = true; return; }    // unknown or already handed over: do not touch it
    c->expect->erase(e);
    if (++e->cleared > 1) { c->bad = true; return; }
    c->t->kill(e);      // the callee takes ownership: poison and free
}

typedef std::vector<long> Obs;

// ---------------------------------------------------------------- C01 walk oracle
void check_walk(Tree &t, int dir, Obs *obs)
{
    WalkCtx wc{{}, 3 * t.n + 4, 0, 0, false};
    // every other forward audit: one visit of the walk starts a complete walk in the other direction of the same tree
    static Tree *nt; static WalkCtx inner; static int inner_rv, inner_dir;
    bool nested = dir == CSTL_BINTREE_FOREACH_DIR_FWD && t.n >= 2 && t.n <= 2000 && (t.n & 1);
    if (nested) {
        nt = &t;
        inner = WalkCtx{{}, 3 * t.n + 4, 0, 0, false};
        inner_dir = CSTL_BINTREE_FOREACH_DIR_REV;
        inner_rv = -1;
        g_nest = Nest{[] { inner_rv = nt->foreach(&inner, inner_dir); }, 1 + t.n / 2, false, &wc};
    }
    int rv = t.foreach(&wc, dir);
    g_nest.run = nullptr;
    const char *d = dir == CSTL_BINTREE_FOREACH_DIR_FWD ? "fwd" : "rev";
    if (nested) {
        CNT("class.walk.nested");
        size_t in_order = 0;
        for (auto &v : inner.v) if (v.ord == CSTL_BINTREE_VISIT_ORDER_MID || v.ord == CSTL_BINTREE_VISIT_ORDER_LEAF) in_order++;
        CHECK(g_nest.done && inner_rv == 0 && !inner.overflow && in_order == t.n, "C01.walk.nested",
              "%s a walk started from inside a visit of another walk presented %zu of %zu elements and returned %d", t.tag, in_order, t.n, inner_rv);
    }
    CHECK(!wc.overflow, "C01.walk.count", "%s %s walk makes more than %zu visits for %zu elements", t.tag, d, wc.limit, t.n);
    CHECK(rv == 0, "C01.walk.ret", "%s %s walk returned %d although no visit asked to stop", t.tag, d, rv);
    std::vector<const Elem *> stack, inorder;
    // shape implied by the walk: every bracketed (non-leaf) element encloses at most one item before and
    // one after its MID visit and at least one in all; a LEAF element encloses nothing; the whole walk is one item
    struct Frame { int before, after; bool mid; };
    std::vector<Frame> frames;
    size_t top_items = 0;
    auto item_begins = [&]() {
        if (frames.empty()) { top_items++; return; }
        Frame &f = frames.back();
        if (f.mid) f.after++; else f.before++;
        CHECK(f.before <= 1 && f.after <= 1, "C01.walk.shape",
              "%s %s walk: more than one subtree between two visits of the same bracketed element "
              "(an element with children was presented as a LEAF?)", t.tag, d);
    };
    // per element: 0 none, 1 pre seen, 2 mid seen, 3 done
    for (auto &v : wc.v) {
        // the element must be held (pointer identity against our pool)
        bool is_held = t.liveset.count(v.e) != 0;
        CHECK(is_held, "C01.walk.member", "%s %s walk presents an object that is not a held element", t.tag, d);
        v.e->vst = 0;
    }
    for (auto &v : wc.v) {
        int &st = v.e->vst;
        switch (v.ord) {
        case CSTL_BINTREE_VISIT_ORDER_PRE:
            CHECK(st == 0, "C01.walk.bracket", "%s PRE visit of an element already visited", t.tag);
            st = 1;
            item_begins();
            frames.push_back(Frame{0, 0, false});
            stack.push_back(v.e);
            break;
        case CSTL_BINTREE_VISIT_ORDER_MID:
            CHECK(st == 1, "C01.walk.bracket", "%s MID visit without a preceding PRE", t.tag);
            CHECK(!stack.empty() && stack.back() == v.e, "C01.walk.bracket", "%s MID visit not properly nested", t.tag);
            st = 2;
            frames.back().mid = true;
            inorder.push_back(v.e);
            break;
        case CSTL_BINTREE_VISIT_ORDER_POST:
            CHECK(st == 2, "C01.walk.bracket", "%s POST visit without PRE and MID", t.tag);
            CHECK(!stack.empty() && stack.back() == v.e, "C01.walk.bracket", "%s POST visit not properly nested", t.tag);
            CHECK(frames.back().before + frames.back().after >= 1, "C01.walk.shape",
                  "%s %s walk: element k%d is bracketed by PRE and POST but encloses no other element (a leaf must get one LEAF visit)",
                  t.tag, d, v.e->key);
            frames.pop_back();
            stack.pop_back();
            st = 3;
            break;
        case CSTL_BINTREE_VISIT_ORDER_LEAF:
            CHECK(st == 0, "C01.walk.bracket", "%s LEAF visit of an element already visited", t.tag);
            item_begins();
            st = 3;
            inorder.push_back(v.e);
            break;
        default:
            CHECK(false, "C01.walk.bracket", "%s unknown visit order %d", t.tag, v.ord);
        }
    }
    CHECK(stack.empty(), "C01.walk.bracket", "%s walk ended with %zu elements lacking their POST visit", t.tag, stack.size());
    CHECK(top_items == (t.n ? 1u : 0u), "C01.walk.shape", "%s %s walk of %zu elements consists of %zu separate subtrees", t.tag, d, t.n, top_items);
    CHECK(inorder.size() == t.n, "C01.walk.count", "%s %s walk presents %zu elements, %zu are held", t.tag, d, inorder.size(), t.n);
    for (auto &v : wc.v) CHECK(v.e->vst == 3, "C01.walk.bracket", "%s element with incomplete visits", t.tag);
    for (size_t i = 1; i < inorder.size(); i++) {
        int c = cmp_keys(inorder[i - 1]->key, inorder[i]->key);
        if (dir == CSTL_BINTREE_FOREACH_DIR_FWD)
            CHECK(c <= 0, "C01.walk.order", "%s forward walk not non-decreasing at position %zu (k%d then k%d)", t.tag, i,
                  inorder[i - 1]->key, inorder[i]->key);
        else
            CHECK(c >= 0, "C01.walk.order", "%s reverse walk not non-increasing at position %zu (k%d then k%d)", t.tag, i,
                  inorder[i - 1]->key, inorder[i]->key);
    }
    if (obs) {
        obs->push_back(rv);
        obs->push_back((long)wc.v.size());
        for (auto &v : wc.v) { obs->push_back(v.e->key); obs->push_back(v.ord); }
    }
}

void full_audit(Tree &t, int K, Obs *obs)
{
    size_t sz = t.size();
    if (obs) obs->push_back((long)sz);
    CHECK(sz == t.n, "C01.size", "%s size %zu, reference %zu", t.tag, sz, t.n);
    check_walk(t, CSTL_BINTREE_FOREACH_DIR_FWD, obs);
    check_walk(t, CSTL_BINTREE_FOREACH_DIR_REV, obs);
    int lim = K <= 64 ? K : 0;
    for (int k = 0; k < lim; k++) {
        Elem probe;
        probe.key = k;
        const void *r = t.find(&probe, nullptr);
        int cls = key_class(k);
        bool have = t.model.count(cls) && !t.model[cls].empty();
        if (obs) obs->push_back(r ? 1 : 0);
        CHECK((r != nullptr) == have, "C01.find.iff", "%s find(k%d) %s but the reference %s such an element", t.tag, k,
              r ? "found one" : "found none", have ? "holds" : "does not hold");
        if (r) CHECK(t.held(cls, r), "C01.find.member", "%s find(k%d) returned a pointer that is not a held element of that key", t.tag, k);
    }
}

// ---------------------------------------------------------------- C02 invariant walk
struct RbInfo { size_t nodes; size_t maxdepth; };
int rb_walk(Tree &t, struct cstl_bintree_node *b, struct cstl_bintree_node *parent, size_t depth, RbInfo &inf, bool parent_red)
{
    if (!b) return 1;   // missing child counts as black
    inf.nodes++;
    CHECK(inf.nodes <= t.n + 1, "C02.links.cycle", "walk over the links meets more nodes than size() reports (%zu)", t.n);
    CHECK(b->p == parent, "C02.links.parent", "a child's parent link does not point back at its parent");
    if (depth > inf.maxdepth) inf.maxdepth = depth;
    Elem *e = t.elem(b);
    bool red = e->rn.c == CSTL_RBTREE_COLOR_R;
    CHECK(red || e->rn.c == CSTL_RBTREE_COLOR_B, "C02.colour.valid", "node colour is neither red nor black");
    CHECK(!(red && parent_red), "C02.red_red", "red node k%d has a red child", parent ? t.elem(parent)->key : -1);
    int lh = rb_walk(t, b->l, b, depth + 1, inf, red);
    int rh = rb_walk(t, b->r, b, depth + 1, inf, red);
    CHECK(lh == rh, "C02.black_height", "paths below node k%d cross %d vs %d black nodes", e->key, lh, rh);
    return lh + (red ? 0 : 1);
}
void rb_check(Tree &t)
{
    if (!t.rb) return;
    struct cstl_bintree_node *r = t.root();
    if (!r) { CHECK(t.n == 0, "C02.links.count", "root is NULL but %zu elements are held", t.n); return; }
    CHECK(t.elem(r)->rn.c == CSTL_RBTREE_COLOR_B, "C02.root_black", "root is not black");
    RbInfo inf{0, 0};
    rb_walk(t, r, nullptr, 1, inf, false);
    CHECK(inf.nodes == t.n, "C02.links.count", "links reach %zu nodes, %zu elements are held", inf.nodes, t.n);
    size_t mn, mx;
    t.height(&mn, &mx);
    // h <= 2*log2(n+1)  <=>  2^h <= (n+1)^2
    auto ok = [&](size_t h) {
        if (h >= 126) return false;
        unsigned __int128 lhs = (unsigned __int128)1 << h, rhs = (unsigned __int128)(t.n + 1) * (t.n + 1);
        return lhs <= rhs;
    };
    CHECK(ok(mx), "C02.height", "cstl_rbtree_height reports longest path %zu for %zu elements (> 2*log2(n+1))", mx, t.n);
    CHECK(ok(inf.maxdepth), "C02.height", "longest root-to-leaf path is %zu for %zu elements (> 2*log2(n+1))", inf.maxdepth, t.n);
    // "the longest root-to-leaf path reported by cstl_rbtree_height": the reported number is that path's
    // length, counted in nodes or in edges (the header does not say which)
    CHECK(mx == inf.maxdepth || mx + 1 == inf.maxdepth, "C02.height",
          "cstl_rbtree_height reports longest path %zu, the links give %zu nodes (%zu edges)", mx, inf.maxdepth, inf.maxdepth - 1);
}

void peek_rec(Tree &t, struct cstl_bintree_node *b, std::string &s, size_t &budget)
{
    if (!b) { s += '.'; return; }
    if (budget == 0) { s += '!'; return; }
    budget--;
    Elem *e = t.elem(b);
    s += '(';
    s += (char)('a' + e->key % 26);
    if (e->key >= 26) s += std::to_string(e->key);
    if (t.rb) s += e->rn.c == CSTL_RBTREE_COLOR_R ? 'r' : 'b';
    peek_rec(t, b->l, s, budget);
    peek_rec(t, b->r, s, budget);
    s += ')';
}
std::string peek_state(Tree &t)
{
    std::string s = t.rb ? "R" : "B";
    size_t budget = t.n + 2;
    peek_rec(t, t.root(), s, budget);
    s += "|" + std::to_string(t.rb ? t.rt.t.size : t.bt.size);
    return s;
}

struct CaseCtx {
    bool dup_insert, erase_two, walk3;         // C01 rule
    bool erase_black4, insert_red_parent;      // C02 rule
    bool clear3, reuse;                        // C15 rule
};

void classify_erase(Tree &t, Elem *target, CaseCtx &cx)
{
    struct cstl_bintree_node *b = t.node(target);
    bool two = b->l && b->r;
    if (!b->l && !b->r) CNT("class.erase.leaf");
    else if (!two) CNT("class.erase.one_child");
    else {
        struct cstl_bintree_node *s = b->r;
        size_t guard = t.n + 1;
        while (s->l && guard--) s = s->l;
        if (s == b->r) CNT("class.erase.two_child_succ_is_child");
        else CNT("class.erase.two_child_succ_deeper");
        cx.erase_two = true;
        if (t.rb && t.elem(s)->rn.c == CSTL_RBTREE_COLOR_B) { CNT("class.erase.spliced_black"); if (t.n >= 4) cx.erase_black4 = true; }
    }
    if (!two && t.rb && target->rn.c == CSTL_RBTREE_COLOR_B) { CNT("class.erase.spliced_black"); if (t.n >= 4) cx.erase_black4 = true; }
    if (!b->p) CNT("class.erase.root");
}

bool g_rbchecks = true;
void apply(Tree &t, CaseCtx &cx, int op, uint8_t a, uint8_t b, int K, size_t maxlive, Obs *obs, bool audits)
{
    int key = (int)((a | (b << 8)) % (unsigned)K);
    int cls = key_class(key);
    g_cur_op = OPN[op];
    if (g_replay_mode == 1) TRACE("> %s %s k%d", t.tag, OPN[op], key);
    switch (op) {
    case INS:
    case INS_HINT: {
        if (t.n >= maxlive) { CNT("noop.maxlive"); TRACE("%s %s noop (max live)", t.tag, OPN[op]); return; }
        Elem *e = t.mk(key);
        const void *par = nullptr;
        if (op == INS_HINT) {
            // the out-parameter is documented as [out]: the caller's variable holds whatever it held before (here: a
            // recognisable non-pointer), and find must store "the parent of the found element (or where it would be located)"
            static char never_a_node;
            par = &never_a_node;
            const void *f = t.find(e, &par);
            CHECK(par != &never_a_node, "C01.find.parent", "%s find(k%d) %s but left the parent out-parameter unwritten", t.tag, key,
                  f ? "found an element" : "found none");
            if (f) {
                struct cstl_bintree_node *fp = t.node((Elem *)f)->p;
                CHECK(par == (fp ? (const void *)t.elem(fp) : nullptr), "C01.find.parent", "%s find(k%d) reports a parent that is not the found element's parent", t.tag, key);
            } else if (par) CHECK(t.liveset.count(par) != 0, "C01.find.parent", "%s find(k%d) reports a would-be parent that is not a held element", t.tag, key);
            if (f) CNT("class.hint.found_equal"); else CNT("class.hint.not_found");
            if (par) {
                bool ok = t.liveset.count(par) != 0;
                CHECK(ok, "C01.find.parent", "%s find reported a parent that is not a held element", t.tag);
            }
        }
        if (t.rb) {
            // statistics: is the would-be parent red? (replicates the descent on the public links)
            struct cstl_bintree_node *w = t.root(), *wp = nullptr;
            size_t guard = t.n + 1;
            while (w && guard--) { wp = w; w = cmp_keys(key, t.elem(w)->key) < 0 ? w->l : w->r; }
            if (wp && t.elem(wp)->rn.c == CSTL_RBTREE_COLOR_R) {
                CNT("class.insert.parent_red");
                cx.insert_red_parent = true;
                struct cstl_bintree_node *g = wp->p;
                if (g) {
                    struct cstl_bintree_node *u = g->l == wp ? g->r : g->l;
                    if (u && t.elem(u)->rn.c == CSTL_RBTREE_COLOR_R) CNT("class.insert.uncle_red");
                    else if ((g->l == wp) == (cmp_keys(key, t.elem(wp)->key) < 0)) CNT("class.insert.uncle_black_outer");
                    else CNT("class.insert.uncle_black_inner");
                }
            } else CNT("class.insert.parent_black_or_root");
        }
        if (t.model.count(cls) && !t.model[cls].empty()) { CNT("class.insert.duplicate"); cx.dup_insert = true; }
        t.insert(e, (void *)par);
        t.model[cls].push_back(e);
        t.liveset.insert(e);
        t.n++;
        if (t.rb && t.node(e)->p && t.elem(t.node(e)->p)->rn.c == CSTL_RBTREE_COLOR_R) CNT("class.insert.parent_red_after");
        TRACE("%s %s e%d(k%d)%s n=%zu", t.tag, OPN[op], e->id, key, par ? " hinted" : "", t.n);
        break;
    }
    case FIND: {
        Elem probe;
        probe.key = key;
        const void *par = (const void *)0x1;
        const void *r = t.find(&probe, &par);
        bool have = t.model.count(cls) && !t.model[cls].empty();
        TRACE("%s find k%d -> %s", t.tag, key, r ? "found" : "NULL");
        if (obs) obs->push_back(r ? ((const Elem *)r)->key : -1);
        CHECK((r != nullptr) == have, "C01.find.iff", "%s find(k%d) %s but the reference %s such an element", t.tag, key,
              r ? "found one" : "found none", have ? "holds" : "does not hold");
        if (r) CHECK(t.held(cls, r), "C01.find.member", "%s find(k%d) returned a pointer that is not a held element comparing equal", t.tag, key);
        break;
    }
    case ERASE: {
        Elem probe;
        probe.key = key;
        bool have = t.model.count(cls) && !t.model[cls].empty();
        if (have) {
            const void *f = t.find(&probe, nullptr);
            if (f && t.held(cls, f)) {
                // pre-state statistics from the public node fields
                Elem *target = (Elem *)f;
                classify_erase(t, target, cx);
            }
        } else CNT("class.erase.absent");
        void *r = t.erase(&probe);
        TRACE("%s erase k%d -> %s n=%zu", t.tag, key, r ? "elem" : "NULL", t.n - (r ? 1 : 0));
        if (obs) obs->push_back(r ? 1 : 0);
        CHECK((r != nullptr) == have, "C01.erase.iff", "%s erase(k%d) %s but the reference %s such an element", t.tag, key,
              r ? "removed one" : "removed none", have ? "holds" : "does not hold");
        if (r) {
            CHECK(t.held(cls, r), "C01.erase.member", "%s erase(k%d) returned a pointer that is not a held element comparing equal", t.tag, key);
            auto &v = t.model[cls];
            v.erase(std::find(v.begin(), v.end(), (Elem *)r));
            if (v.empty()) t.model.erase(cls);
            t.n--;
            t.liveset.erase(r);
            t.kill((Elem *)r);
        }
        break;
    }
    case WALK_STOP: {
        int dir = a & 1;
        if (t.n > 5000) { CNT("noop.walk_stop_big"); TRACE("%s walk_stop noop (big tree)", t.tag); break; }
        // full walk first (reference for the prefix), then the stopping walk
        WalkCtx full{{}, 3 * t.n + 4, 0, 0, false};
        t.foreach(&full, dir);
        if (full.overflow || full.v.empty()) { CNT("noop.walk_stop"); TRACE("%s walk_stop noop", t.tag); break; }
        size_t nstop = 1 + (b % full.v.size());
        int v = (b & 1) ? -7 : 1 + (b >> 1) * 16777259;
        if (v == 0) v = 5;
        WalkCtx wc{{}, 3 * t.n + 4, nstop, v, false};
        int rv = t.foreach(&wc, dir);
        TRACE("%s walk_stop dir=%d stop@%zu/%zu val=%d -> %d", t.tag, dir, nstop, full.v.size(), v, rv);
        if (obs) { obs->push_back(rv); obs->push_back((long)wc.v.size()); }
        CHECK(rv == v, "C01.walk.stop", "%s walk returned %d, the visit function stopped it with %d", t.tag, rv, v);
        CHECK(wc.v.size() == nstop, "C01.walk.stop", "%s walk made %zu visits, expected to stop at %zu", t.tag, wc.v.size(), nstop);
        for (size_t i = 0; i < nstop; i++)
            CHECK(wc.v[i].e == full.v[i].e && wc.v[i].ord == full.v[i].ord, "C01.walk.stop",
                  "%s stopped walk is not a prefix of the full walk at visit %zu", t.tag, i);
        break;
    }
    case CLEAR: {
        std::unordered_set<const void *> expect;
        bool two_children = false;
        for (auto &kv : t.model) for (Elem *e : kv.second) { expect.insert(e); if (t.node(e)->l && t.node(e)->r) two_children = true; }
        ClearCtx cc{&t, &expect, 0, false};
        g_clear_ctx = &cc;
        size_t n = t.n;
        t.model.clear();
        fresh_clear(t.liveset);
        t.n = 0;
        const char *kind = t.rb ? "rbtree" : "bintree";
        LIB(if (t.rb) cstl_rbtree_clear(&t.rt, clear_cb, &g_clear_token); else cstl_bintree_clear(&t.bt, clear_cb, &g_clear_token));
        g_clear_ctx = nullptr;
        TRACE("%s clear (n=%zu) callbacks=%zu", t.tag, n, cc.calls);
        char cl[64];
        snprintf(cl, sizeof cl, "C15.%s.once", kind);
        CHECK(!cc.bad, cl, "%s clear callback received an element twice, a foreign object, or a wrong priv", t.tag);
        CHECK(cc.calls == n, cl, "%s clear made %zu callbacks for %zu elements", t.tag, cc.calls, n);
        // (under C15 the clause is C15's; for the tree properties "size equals that count" covers the cleared tree too)
        if (g_prop == "C15") snprintf(cl, sizeof cl, "C15.%s.empty", kind); else snprintf(cl, sizeof cl, "C01.size");
        size_t sz = t.size();
        CHECK(sz == 0, cl, "%s size %zu after clear", t.tag, sz);
        if (n >= 3 && two_children) cx.clear3 = true;
        break;
    }
    case HEIGHT: {
        if (t.n > 5000 && !audits) { CNT("noop.height_big"); break; }     // O(n * depth): sparse in scale runs
        size_t mn = 12345, mx = 12345;
        t.height(&mn, &mx);
        TRACE("%s height -> min=%zu max=%zu", t.tag, mn, mx);
        if (obs) { obs->push_back((long)mn); obs->push_back((long)mx); }
        break;
    }
    case AUDIT:
        if (t.n > 5000 && !audits) { CNT("noop.audit_big"); break; }
        TRACE("%s audit n=%zu", t.tag, t.n);
        full_audit(t, K, obs);
        if (t.n >= 3) cx.walk3 = true;
        return;
    }
    // after every op
    size_t sz = t.size();
    if (obs) obs->push_back((long)sz);
    CHECK(sz == t.n, "C01.size", "%s size %zu, reference %zu", t.tag, sz, t.n);
    if (t.rb && g_rbchecks && (op == INS || op == INS_HINT || op == ERASE) && (g_prop == "C02" || g_prop.empty())) rb_check(t);
    if (audits) { full_audit(t, K, obs); if (t.n >= 3) cx.walk3 = true; }
}

Tree T[2], TW[2];   // bintree, rbtree; twins for C15
} // namespace

void vf_run(const uint8_t *data, size_t len)
{
    for (auto &t : T) t.destroy();
    for (auto &t : TW) t.destroy();
    Cursor cur(data, len);
    int kind = cur.u8() % 3;                  // 0 both, 1 bintree, 2 rbtree
    int K = KEYS[cur.u8() % NKEYS];
    uint8_t cmpb = cur.u8();
    g_cmp_kind = cmpb % 4;
    bool swap_epilogue = (cmpb & 0x80) != 0;
    g_reenter = false;
    if ((cmpb & 0x60) == 0x60 && len < 3000) { aux_setup(); g_reenter = true; }
    size_t maxlive = MAXLIVE[cur.u8() % NMAXLIVE];
    int prof = cur.u8() % NPROFILES;
    bool c15 = g_prop == "C15", c02 = g_prop == "C02";
    if (c02) kind = 2;
    g_cmp_clause = c02 ? "C02.cmp.priv" : c15 ? "C15.bintree.reuse" : "C01.cmp.priv";     // (under C15 a wrong priv after clear is C15's finding)
    bool use[2] = {kind != 2, kind != 1};
    CaseCtx cx{};
    T[0].init(false, "bin");
    T[1].init(true, "rb");
    TW[0].init(false, "bin'");
    TW[1].init(true, "rb'");
    bool twin_on[2] = {false, false};
    bool second_tree = false;
    std::vector<uint8_t> tab;
    for (int o = 0; o < NOPS; o++) for (int k = 0; k < PROFILES[prof][o]; k++) tab.push_back((uint8_t)o);
    TRACE("header kind=%s keys=%d cmp=%d maxlive=%zu profile=%d", kind == 0 ? "both" : kind == 1 ? "bintree" : "rbtree", K,
          g_cmp_kind, maxlive, prof);
    size_t nops = 0;
    bool state_marked = false;
    size_t total_records = cur.remaining() / 3;
    // G1 re-executes the path to every state: the prefix was audited when its own
    // state was discovered, so only the last op before MARK (or the end) is audited
    size_t last_idx = total_records ? total_records - 1 : 0;
    for (size_t i = 0; i < total_records; i++)
        if (data[cur.i + 3 * i] == 0xFE) { last_idx = i ? i - 1 : 0; break; }
    size_t idx = 0;
    auto snapshot = [&]() {
        g_state.clear();
        for (int i = 0; i < 2; i++) if (use[i]) g_state += peek_state(T[i]);
    };
    while (cur.remaining() >= 3) {
        uint8_t o = cur.u8(), a = cur.u8(), b = cur.u8();
        size_t my = idx++;
        if (o == 0xFE) { if (g_want_state) { snapshot(); state_marked = true; } continue; }
        int op = tab[o % tab.size()];
        nops++;
        bool big = total_records > 5000;     // scale runs: audits and invariant walks are O(n), so they are sparse
        bool audits = g_want_state ? my >= last_idx : big ? (my % 8192) == 8191 : (total_records <= 24 || (my % 8) == 7);
        g_rbchecks = g_want_state ? my >= last_idx : big ? (my % 2048) == 2047 : true;
        for (int i = 0; i < 2; i++) {
            if (!use[i]) continue;
            Obs oa, ob;
            bool first_clear = c15 && op == CLEAR && !twin_on[i];
            const char *rc = T[i].rb ? "C15.rbtree.reuse" : "C15.bintree.reuse";
            if (!twin_on[i] && !first_clear) {
                apply(T[i], cx, op, a, b, K, maxlive, nullptr, audits);
                // C02: a second, independent red-black tree of the same element type takes the same operations with other
                // keys, interleaved with the first (two indexes fed from one stream): trees must not share state
                if (c02 && i == 1 && op != CLEAR) { CaseCtx cx2{}; apply(TW[1], cx2, op, (uint8_t)(a * 5 + 3), b, K, maxlive, nullptr, audits); second_tree = true; }
                continue;
            }
            bool okA = model_ok([&] { apply(T[i], cx, op, a, b, K, maxlive, &oa, audits); });
            bool okB;
            if (first_clear) {
                // the state right after the clear is compared with a freshly initialised tree, and so is everything after it
                twin_on[i] = true;
                TRACE("%s twin created: a fresh tree mirrors every further op", T[i].tag);
                oa.clear();
                okA = model_ok([&] { full_audit(T[i], K, &oa); }) && okA;
                okB = model_ok([&] { full_audit(TW[i], K, &ob); });
            } else {
                okB = model_ok([&] { apply(TW[i], cx, op, a, b, K, maxlive, &ob, audits); });
                cx.reuse = true;
            }
            CHECK(okA == okB, rc, "after clear the tree %s the tree model where a freshly initialised one %s (op %s)",
                  okA ? "satisfies" : "violates", okB ? "satisfies it" : "does not", OPN[op]);
            if (!okA) throw Abandon{"C01.(cleared tree and fresh twin alike)"};
            CHECK(oa == ob, rc, "after clear the tree behaves differently from a freshly initialised one (op %s)", OPN[op]);
        }
    }
    static Tree TX;
    bool swapped = false;
    if (use[0] && swap_epilogue && !g_want_state && T[0].n <= 5000) {
        // swap with a second plain tree whose elements are linked through ANOTHER node member (the bintree node inside the
        // rbtree node, unused by a plain tree): afterwards each tree object must answer for the other's elements
        g_cur_op = "swap";
        TX.destroy();
        TX.init(false, "bin2", offsetof(Elem, rn.n));
        for (int j = 0; j < 4; j++) apply(TX, cx, INS, (uint8_t)(j * 37 + 5), 0, K, 1000000, nullptr, false);
        LIB(cstl_bintree_swap(&T[0].bt, &TX.bt));
        std::swap(T[0].model, TX.model);
        std::swap(T[0].n, TX.n);
        std::swap(T[0].liveset, TX.liveset);
        std::swap(T[0].all, TX.all);
        std::swap(T[0].boff, TX.boff);
        swapped = true;
        CNT("class.swap.other_offset");
        TRACE("swap bin <-> bin2 (linked through another node member): now %zu and %zu elements", T[0].n, TX.n);
        if (!c15) full_audit(TX, K, nullptr);      // (under C15 the clears below decide: their callbacks must get exactly the right elements)
    }
    g_cur_op = "final audit";
    for (int i = 0; i < 2; i++) if (use[i] && !(c15 && swapped && i == 0)) { full_audit(T[i], K, nullptr); if (T[i].n >= 3) cx.walk3 = true; }
    if (g_want_state && !state_marked) snapshot();
    for (int i = 0; i < 2; i++) {
        if (!use[i]) continue;
        apply(T[i], cx, CLEAR, 0, 0, K, maxlive, nullptr, false);
        if (twin_on[i] || (second_tree && i == 1)) apply(TW[i], cx, CLEAR, 0, 0, K, maxlive, nullptr, false);
        CHECK(T[i].all.empty(), T[i].rb ? "C15.rbtree.once" : "C15.bintree.once", "%zu elements never reached the clear callback", T[i].all.size());
    }
    if (swapped) {
        apply(TX, cx, CLEAR, 0, 0, K, maxlive, nullptr, false);
        CHECK(TX.all.empty(), "C15.bintree.once", "%zu elements of the swapped tree never reached the clear callback", TX.all.size());
    }
    if (c15) g_nontrivial = cx.clear3 && cx.reuse;
    else if (c02) g_nontrivial = cx.erase_black4 && cx.insert_red_parent;
    else g_nontrivial = cx.dup_insert && cx.erase_two && cx.walk3;
    CNTN("ops", nops);
}

void vf_gen(Rng &r, std::vector<uint8_t> &out)
{
    bool c15 = g_prop == "C15", c02 = g_prop == "C02";
    if (!c02 && r.chance(1, 300)) {
        // a deep, thin plain tree (nothing balances a cstl_bintree): a spine of 70-250 nodes descending to one side, each
        // spine node with a child on the other side -- the shape that costs a walk / clear with bounded auxiliary space
        size_t N = 70 + r.below(180);
        bool left = r.chance(1, 2);
        out.insert(out.end(), {1, 7, 0, 0, 0});       // bintree only, 1000 keys, ascending order, unlimited, uniform profile (op byte == op)
        for (size_t i = 0; i < N; i++) {
            size_t spine = left ? 2 * (N - i) + 100 : 2 * i + 100, side = spine + 1;
            if (!left) { size_t t = spine; spine = t + 1; side = t; }     // descending to the right: the side child is the smaller key
            for (size_t k : {spine, side}) { out.push_back(INS); out.push_back((uint8_t)k); out.push_back((uint8_t)(k >> 8)); }
        }
        for (int i = 0; i < 4; i++) { out.push_back(r.chance(1, 2) ? AUDIT : ERASE); out.push_back(r.byte()); out.push_back((uint8_t)r.below(3)); }
        return;
    }
    out.push_back(c02 ? 2 : r.byte());
    // key universe: heavy duplication is the interesting part
    static const uint8_t kw[] = {0, 1, 1, 2, 2, 3, 3, 4, 4, 5, 6, 7, 8, 9};
    out.push_back(kw[r.below(sizeof kw)]);
    out.push_back(r.byte());
    out.push_back(r.chance(5, 6) ? 0 : r.byte());
    out.push_back(c15 ? (r.chance(2, 3) ? 5 : r.byte()) : (r.chance(1, 2) ? (uint8_t)(1 + r.below(4)) : r.byte()));
    size_t n = r.chance(3, 5) ? 1 + r.below(24) : r.chance(7, 8) ? 1 + r.below(200) : 1 + r.below(1000);
    if (!c15 && r.chance(1, 25000)) {
        // scale run: ~10^5 nodes (every counter / index width), random keys over 1000 values so that the unbalanced tree stays shallow
        n = 70000 + r.below(70000);
        out[1] = 7;
        out[3] = 0;
        out[4] = 1;
    }
    for (size_t i = 0; i < n; i++) { out.push_back(r.byte() % 251); out.push_back(r.byte()); out.push_back(r.byte()); }
}

bool vf_scope(const std::string &name, Scope &s)
{
    // "<kind 1|2>:<keys idx>:<cmp>:<maxlive idx>[:seqN]"
    int kind = 2, ki = 8, cmp = 0, mi = 3;
    char mode[32] = "closure";
    sscanf(name.c_str(), "%d:%d:%d:%d:%31s", &kind, &ki, &cmp, &mi, mode);
    bool c15 = g_prop == "C15";
    s.header = {(uint8_t)kind, (uint8_t)ki, (uint8_t)cmp, (uint8_t)mi, 0};
    int K = KEYS[ki % NKEYS];
    for (int op : {INS, INS_HINT, ERASE}) {
        if (c15 && op == INS_HINT) continue;
        for (int k = 0; k < K; k++) {
            s.alphabet.push_back({(uint8_t)op, (uint8_t)k, 0});
            s.names.push_back(OPN[op]);
        }
    }
    if (!strncmp(mode, "seq", 3)) { s.prune = false; s.max_depth = atoi(mode + 3); }
    if (c15) {
        // every reachable shape: clear, then a reuse script mirrored on a fresh twin
        s.trailer = {0xFE, 0, 0, CLEAR, 0, 0, INS, 1, 0, INS, 0, 0, INS_HINT, 1, 0, INS, 2, 0, ERASE, 1, 0, FIND, 0, 0,
                     WALK_STOP, 0, 2, INS, 0, 0, ERASE, 0, 0, AUDIT, 0, 0, CLEAR, 0, 0, INS, 1, 0};
    } else {
        // every state additionally gets stopping walks (terminal, results discarded for the state)
        s.trailer = {0xFE, 0, 0, WALK_STOP, 0, 1, WALK_STOP, 1, 2, WALK_STOP, 0, 4, HEIGHT, 0, 0};
    }
    return true;
}

int vf_custom(int, char **) { fprintf(stderr, "unknown engine\n"); return 2; }
