/*
 * C18 demo 1: a strictly conforming C99 client that includes one public
 * header and links the static library. It is compiled with the project's own
 * dialect and warning options (-std=c99 -pedantic -Wall -Wextra -Werror=vla
 * -Werror=declaration-after-statement) - but, like any client that does not
 * happen to copy the library's private build settings, without the
 * feature-test macro -D_POSIX_C_SOURCE=199309L.
 */
#include "cstl/vector.h"

#include <stdio.h>

int main(void)
{
    DECLARE_CSTL_VECTOR(v, int);

    cstl_vector_resize(&v, 3);
    *(int *)cstl_vector_at(&v, 2) = 7;
    if (cstl_vector_size(&v) != 3 || *(int *)cstl_vector_at(&v, 2) != 7) {
        printf("vector does not work\n");
        return 1;
    }
    cstl_vector_clear(&v);
    return 0;
}
