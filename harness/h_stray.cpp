// C20: a bitwise-copied (or relocated) guarded / unique / shared / weak pointer
// or array object is caught: the first library call that would read, transfer
// or release the pointer through the stray copy aborts; the original keeps
// working. Table-driven: (kind, state, entry point, argument position, copy
// method, state of the other argument), enumerated exhaustively by G1 and
// sampled with random prefixes by G2.
//
// case bytes: [kind][state][entry][pos][method][other state][noise...]
#include "common/verif.hpp"
extern "C" {
#include "cstl/memory.h"
#include "cstl/array.h"
}
using namespace vf;

const char *vf_harness_name() { return "stray"; }

namespace {
enum Kind { K_GUARDED, K_UNIQUE, K_SHARED, K_WEAK, K_ARRAY, NKINDS };
const char *KN[] = {"guarded", "unique", "shared", "weak", "array"};
const int NSTATES[] = {2, 3, 4, 3, 4};
const char *SN[NKINDS][4] = {
    {"NULL pointer", "non-NULL pointer", "", ""},
    {"empty", "owning (clear function)", "owning (no clear function)", ""},
    {"empty", "sole owner", "co-owner with another shared pointer", "owner with a weak reference"},
    {"empty", "refers to live memory", "expired (weak only)", ""},
    {"empty", "allocated, full view", "slice with offset of a buffer shared with another array", "external buffer"},
};
// entry points per kind; two-object entry points exist once per argument position
struct Entry { const char *name; int nargs; };
const Entry EG[] = {{"guarded_ptr_get", 1}, {"guarded_ptr_get_const", 1}, {"guarded_ptr_copy(dst, SRC)", 1}, {"guarded_ptr_swap", 2}};
const Entry EU[] = {{"unique_ptr_get", 1}, {"unique_ptr_get_const", 1}, {"unique_ptr_release", 1}, {"unique_ptr_reset", 1},
                    {"unique_ptr_alloc", 1}, {"unique_ptr_swap", 2}};
const Entry ES[] = {{"shared_ptr_get", 1}, {"shared_ptr_get_const", 1}, {"shared_ptr_unique", 1}, {"shared_ptr_reset", 1},
                    {"shared_ptr_alloc", 1}, {"shared_ptr_share", 2}, {"shared_ptr_swap", 2}, {"weak_ptr_from(w, SP)", 1},
                    {"weak_ptr_lock(w, SP)", 1}};
const Entry EW[] = {{"weak_ptr_reset", 1}, {"weak_ptr_from(W, sp)", 1}, {"weak_ptr_lock(W, sp)", 1}, {"weak_ptr_swap", 2}};
const Entry EA[] = {{"array_data", 1}, {"array_data_const", 1}, {"array_at(0)", 1}, {"array_at_const(0)", 1}, {"array_reset", 1},
                    {"array_alloc", 1}, {"array_set", 1}, {"array_release", 1}, {"array_slice", 2}, {"array_unslice", 2},
                    {"array_slice(in place)", 1}, {"array_unslice(in place)", 1}};
const Entry *ENT[] = {EG, EU, ES, EW, EA};
const int NENT[] = {4, 6, 9, 4, 12};
const char *MN[] = {"struct assignment", "memcpy to a heap block", "memmove within an array of objects"};

int g_clr_calls;
bool g_huge_alloc;
std::vector<void *> g_cleared;
void clr_cb(void *p, void *) { HarnessScope hs; g_clr_calls++; g_cleared.push_back(p); }

// storage: originals live in arrays of 3 so that method 2 can relocate within the array
struct cstl_guarded_ptr G[3];
cstl_unique_ptr_t U[3];
cstl_shared_ptr_t S[3], SX[4];     // SX: helper co-owners ([3]: the valid counterpart in weak_from/lock calls)
cstl_weak_ptr_t W[3], WX[4];
cstl_array_t A[3], AX[4];
char g_buf[64];
char *g_ext;                        // external array buffer (harness allocation)
std::vector<void *> g_heap;         // heap blocks holding stray copies

void init_all()
{
    for (int i = 0; i < 3; i++) {
        cstl_guarded_ptr_init(&G[i]);
        cstl_unique_ptr_init(&U[i]);
        cstl_shared_ptr_init(&S[i]);
        cstl_weak_ptr_init(&W[i]);
        cstl_array_init(&A[i]);
    }
    for (int i = 0; i < 4; i++) { cstl_shared_ptr_init(&SX[i]); cstl_weak_ptr_init(&WX[i]); cstl_array_init(&AX[i]); }
}

// put object #idx of the given kind into the given state (well-formed use of the API: must never abort)
void setup(int kind, int idx, int state, int helper)
{
    switch (kind) {
    case K_GUARDED:
        LIB(cstl_guarded_ptr_set(&G[idx], state ? (void *)g_buf : nullptr));
        break;
    case K_UNIQUE:
        if (state) LIB(cstl_unique_ptr_alloc(&U[idx], 1100 + idx, state == 1 ? clr_cb : nullptr, nullptr));
        break;
    case K_SHARED:
        if (state) LIB(cstl_shared_ptr_alloc(&S[idx], 1200 + idx, clr_cb));
        if (state == 2) LIB(cstl_shared_ptr_share(&S[idx], &SX[helper]));
        if (state == 3) LIB(cstl_weak_ptr_from(&WX[helper], &S[idx]));
        break;
    case K_WEAK:
        if (state) {
            LIB(cstl_shared_ptr_alloc(&SX[helper], 1300 + idx, clr_cb));
            LIB(cstl_weak_ptr_from(&W[idx], &SX[helper]));
            if (state == 2) LIB(cstl_shared_ptr_reset(&SX[helper]));
        }
        break;
    case K_ARRAY:
        if (state == 1) LIB(cstl_array_alloc(&A[idx], 8, 4));
        if (state == 2) { LIB(cstl_array_alloc(&AX[helper], 10, 4)); LIB(cstl_array_slice(&AX[helper], 2, 7, &A[idx])); }
        if (state == 3) LIB(cstl_array_set(&A[idx], g_ext, 6, 4));
        break;
    }
}

void *obj_addr(int kind, int idx)
{
    switch (kind) {
    case K_GUARDED: return &G[idx];
    case K_UNIQUE: return &U[idx];
    case K_SHARED: return &S[idx];
    case K_WEAK: return &W[idx];
    default: return &A[idx];
    }
}
size_t obj_size(int kind)
{
    switch (kind) {
    case K_GUARDED: return sizeof G[0];
    case K_UNIQUE: return sizeof U[0];
    case K_SHARED: return sizeof S[0];
    case K_WEAK: return sizeof W[0];
    default: return sizeof A[0];
    }
}

// observation of an original: must be identical before and after the aborted call on its copy
std::vector<long> observe(int kind, int idx)
{
    std::vector<long> o;
    switch (kind) {
    case K_GUARDED: { void *p; LIB(p = cstl_guarded_ptr_get(&G[idx])); o.push_back((long)(uintptr_t)p); break; }
    case K_UNIQUE: { void *p; LIB(p = cstl_unique_ptr_get(&U[idx])); o.push_back((long)(uintptr_t)p); break; }
    case K_SHARED: {
        void *p; bool u;
        LIB(p = cstl_shared_ptr_get(&S[idx]));
        LIB(u = cstl_shared_ptr_unique(&S[idx]));
        o.push_back((long)(uintptr_t)p);
        o.push_back(u);
        break;
    }
    case K_WEAK: {
        // a weak pointer is observed by locking it into a scratch owner
        cstl_shared_ptr_t t;
        void *p;
        cstl_shared_ptr_init(&t);
        LIB(cstl_weak_ptr_lock(&W[idx], &t));
        LIB(p = cstl_shared_ptr_get(&t));
        LIB(cstl_shared_ptr_reset(&t));
        o.push_back((long)(uintptr_t)p);
        break;
    }
    case K_ARRAY: {
        size_t n; void *d;
        LIB(n = cstl_array_size(&A[idx]));
        LIB(d = cstl_array_data(&A[idx]));
        o.push_back((long)n);
        o.push_back((long)(uintptr_t)d);
        if (n) { void *e; LIB(e = cstl_array_at(&A[idx], n - 1)); o.push_back((long)(uintptr_t)e); }
        break;
    }
    }
    return o;
}

// the call under test: `x` is the object in the tested position (the stray copy), `y` a valid object of the same kind
void call(int kind, int entry, int pos, void *x, void *y)
{
    cstl_shared_ptr_t *sx = (cstl_shared_ptr_t *)x, *sy = (cstl_shared_ptr_t *)y;
    switch (kind) {
    case K_GUARDED: {
        auto *gx = (struct cstl_guarded_ptr *)x, *gy = (struct cstl_guarded_ptr *)y;
        switch (entry) {
        case 0: (void)cstl_guarded_ptr_get(gx); break;
        case 1: (void)cstl_guarded_ptr_get_const(gx); break;
        case 2: cstl_guarded_ptr_copy(gy, gx); break;
        case 3: if (pos == 0) cstl_guarded_ptr_swap(gx, gy); else cstl_guarded_ptr_swap(gy, gx); break;
        }
        break;
    }
    case K_UNIQUE: {
        auto *ux = (cstl_unique_ptr_t *)x, *uy = (cstl_unique_ptr_t *)y;
        switch (entry) {
        case 0: (void)cstl_unique_ptr_get(ux); break;
        case 1: (void)cstl_unique_ptr_get_const(ux); break;
        case 2: { cstl_xtor_func_t *f; void *p; (void)cstl_unique_ptr_release(ux, &f, &p); break; }
        case 3: cstl_unique_ptr_reset(ux); break;
        case 4: cstl_unique_ptr_alloc(ux, g_huge_alloc ? SIZE_MAX - 4096 : 1150, nullptr, nullptr); break;
        case 5: if (pos == 0) cstl_unique_ptr_swap(ux, uy); else cstl_unique_ptr_swap(uy, ux); break;
        }
        break;
    }
    case K_SHARED:
        switch (entry) {
        case 0: (void)cstl_shared_ptr_get(sx); break;
        case 1: (void)cstl_shared_ptr_get_const(sx); break;
        case 2: (void)cstl_shared_ptr_unique(sx); break;
        case 3: cstl_shared_ptr_reset(sx); break;
        case 4: cstl_shared_ptr_alloc(sx, g_huge_alloc ? SIZE_MAX - 4096 : 1250, nullptr); break;
        case 5: if (pos == 0) cstl_shared_ptr_share(sx, sy); else cstl_shared_ptr_share(sy, sx); break;
        case 6: if (pos == 0) cstl_shared_ptr_swap(sx, sy); else cstl_shared_ptr_swap(sy, sx); break;
        case 7: cstl_weak_ptr_from(&WX[3], sx); break;
        case 8: cstl_weak_ptr_lock(&WX[3], sx); break;
        }
        break;
    case K_WEAK:
        switch (entry) {
        case 0: cstl_weak_ptr_reset(sx); break;
        case 1: cstl_weak_ptr_from(sx, &SX[3]); break;
        case 2: cstl_weak_ptr_lock(sx, &SX[3]); break;
        case 3: if (pos == 0) cstl_weak_ptr_swap(sx, sy); else cstl_weak_ptr_swap(sy, sx); break;
        }
        break;
    case K_ARRAY: {
        auto *ax = (cstl_array_t *)x, *ay = (cstl_array_t *)y;
        switch (entry) {
        case 0: (void)cstl_array_data(ax); break;
        case 1: (void)cstl_array_data_const(ax); break;
        case 2: (void)cstl_array_at(ax, 0); break;
        case 3: (void)cstl_array_at_const(ax, 0); break;
        case 4: cstl_array_reset(ax); break;
        case 5: if (g_huge_alloc) cstl_array_alloc(ax, SIZE_MAX / 8, 16); else cstl_array_alloc(ax, 3, 4); break;
        case 6: cstl_array_set(ax, g_ext, 6, 4); break;
        case 7: { void *b; cstl_array_release(ax, &b); break; }
        case 8: if (pos == 0) cstl_array_slice(ax, 0, 0, ay); else cstl_array_slice(ay, 0, 0, ax); break;
        case 9: if (pos == 0) cstl_array_unslice(ax, ay); else cstl_array_unslice(ay, ax); break;
        case 10: cstl_array_slice(ax, 0, 0, ax); break;
        case 11: cstl_array_unslice(ax, ax); break;
        }
        break;
    }
    }
}
} // namespace

void vf_run(const uint8_t *data, size_t len)
{
    Cursor cur(data, len);
    int kind = cur.u8() % NKINDS;
    int state = cur.u8() % NSTATES[kind];
    int entry = cur.u8() % NENT[kind];
    int pos = cur.u8() % 2;
    uint8_t mb = cur.u8();
    int method = mb % 3;
    // variants of the call itself: allocating entry points asked for something that cannot be satisfied (the guard must be
    // consulted before the outcome of the allocation is known), two-object entry points given the SAME stray copy twice
    g_huge_alloc = (mb / 3) & 1;
    bool alias = ((mb / 3) & 2) != 0;
    int ostate = cur.u8();
    const Entry &en = ENT[kind][entry];
    if (en.nargs == 1) pos = 0;
    // a guarded-copy destination / empty-slice target etc. are not "reading, transferring or releasing" positions:
    // they are not in the table (guarded_ptr_copy's dst is documented as overwritten regardless of its state)
    for (void *p : g_heap) free(p);
    g_heap.clear();
    if (!g_ext) g_ext = (char *)malloc(6 * 4);
    g_clr_calls = 0;
    g_cleared.clear();
    init_all();
    g_cur_op = "setup";
    TRACE("kind=%s state=%s entry=%s position=%d copy=%s", KN[kind], SN[kind][state], en.name, pos, MN[method]);
    // well-formed prefix: the object under test is #0, the other argument #2 (both set up through the API)
    setup(kind, 0, state, 0);
    int ost = ostate % NSTATES[kind];
    // the other argument must be able to serve the call when the stray copy is NOT the problem:
    // slice/unslice need a non-empty source
    if (kind == K_ARRAY && (entry == 8 || entry == 9) && pos == 1 && ost == 0) ost = 1;
    setup(kind, 2, ost, 1);
    bool special = false;   // the call has a valid counterpart object of another kind (SX[3] / WX[3])
    if (kind == K_SHARED && (entry == 7 || entry == 8)) { LIB(cstl_shared_ptr_alloc(&SX[3], 1290, clr_cb)); LIB(cstl_weak_ptr_from(&WX[3], &SX[3])); LIB(cstl_shared_ptr_reset(&SX[3])); special = true; }
    if (kind == K_WEAK && (entry == 1 || entry == 2)) { LIB(cstl_shared_ptr_alloc(&SX[3], 1390, clr_cb)); special = true; }
    // a few extra well-formed operations driven by the noise bytes (moves with the provided functions never abort)
    while (cur.remaining() >= 1) {
        uint8_t b = cur.u8();
        switch (kind) {
        // each object is used WHILE it sits in the place the provided function moved it to (a move that kept the
        // old self-address would abort here), then moved back
        case K_GUARDED: {
            struct cstl_guarded_ptr t, t2;
            cstl_guarded_ptr_init(&t);
            LIB(cstl_guarded_ptr_swap(&G[0], &t));
            LIB((void)cstl_guarded_ptr_get(&t)); LIB((void)cstl_guarded_ptr_get(&G[0]));
            if (b & 2) { LIB(cstl_guarded_ptr_copy(&t2, &t)); LIB((void)cstl_guarded_ptr_get(&t2)); LIB((void)cstl_guarded_ptr_get_const(&t)); }
            LIB(cstl_guarded_ptr_swap(&t, &G[0]));
            LIB((void)cstl_guarded_ptr_get(&G[0]));
            break;
        }
        case K_UNIQUE: {
            cstl_unique_ptr_t t;
            cstl_unique_ptr_init(&t);
            LIB(cstl_unique_ptr_swap(&U[0], &t));
            LIB((void)cstl_unique_ptr_get(&t)); LIB((void)cstl_unique_ptr_get(&U[0]));
            LIB(cstl_unique_ptr_swap(&t, &U[0]));
            LIB((void)cstl_unique_ptr_get(&U[0]));
            break;
        }
        case K_SHARED: {
            cstl_shared_ptr_t t;
            cstl_shared_ptr_init(&t);
            if (b & 1) { LIB(cstl_shared_ptr_share(&S[0], &t)); LIB((void)cstl_shared_ptr_get(&t)); LIB((void)cstl_shared_ptr_unique(&t)); LIB(cstl_shared_ptr_reset(&t)); }
            else {
                LIB(cstl_shared_ptr_swap(&S[0], &t));
                LIB((void)cstl_shared_ptr_get(&t)); LIB((void)cstl_shared_ptr_get(&S[0])); LIB((void)cstl_shared_ptr_unique(&t));
                LIB(cstl_shared_ptr_swap(&t, &S[0]));
            }
            LIB((void)cstl_shared_ptr_get(&S[0]));
            break;
        }
        case K_WEAK: {
            cstl_weak_ptr_t t;
            cstl_shared_ptr_t l;
            cstl_weak_ptr_init(&t);
            cstl_shared_ptr_init(&l);
            LIB(cstl_weak_ptr_swap(&W[0], &t));
            LIB(cstl_weak_ptr_lock(&t, &l)); LIB(cstl_shared_ptr_reset(&l));
            LIB(cstl_weak_ptr_lock(&W[0], &l)); LIB(cstl_shared_ptr_reset(&l));
            LIB(cstl_weak_ptr_swap(&t, &W[0]));
            LIB(cstl_weak_ptr_lock(&W[0], &l)); LIB(cstl_shared_ptr_reset(&l));
            break;
        }
        case K_ARRAY: {
            cstl_array_t t;
            cstl_array_init(&t);
            if (state) {
                LIB(cstl_array_unslice(&A[0], &t));
                LIB((void)cstl_array_size(&t)); LIB((void)cstl_array_data(&t));
                if (b & 2) { LIB(cstl_array_slice(&t, 0, 0, &t)); LIB((void)cstl_array_data(&t)); }
                LIB(cstl_array_reset(&t));
            }
            LIB((void)cstl_array_size(&A[0])); LIB((void)cstl_array_data(&A[0]));
            break;
        }
        }
        CNT("prefix_ops");
    }
    std::vector<long> before = observe(kind, 0);
    size_t live_before = lib_live_count();
    int clr_before = g_clr_calls;
    // make the stray copy
    void *orig = obj_addr(kind, 0), *stray = nullptr;
    size_t sz = obj_size(kind);
    switch (method) {
    case 0: {   // struct assignment into another (initialised) object
        stray = obj_addr(kind, 1);
        switch (kind) {
        case K_GUARDED: G[1] = G[0]; break;
        case K_UNIQUE: U[1] = U[0]; break;
        case K_SHARED: S[1] = S[0]; break;
        case K_WEAK: W[1] = W[0]; break;
        case K_ARRAY: A[1] = A[0]; break;
        }
        break;
    }
    case 1:
        stray = malloc(sz);
        g_heap.push_back(stray);
        memcpy(stray, orig, sz);
        break;
    case 2:     // relocate within the array of objects: element 1 becomes a bitwise copy of element 0
        memmove((char *)orig + sz, orig, sz);
        stray = (char *)orig + sz;
        break;
    }
    g_cur_op = en.name;
    void *other = obj_addr(kind, 2);
    // whatever the aborting call itself allocated is its own business (nothing is promised about an aborting call)
    g_record_events = true;
    events_clear();
    if (alias && en.nargs == 2) { other = stray; CNT("class.alias.same_stray_twice"); }
    if (g_huge_alloc) CNT("class.alloc.unsatisfiable_variant");
    bool aborted = may_abort([&] { call(kind, entry, pos, stray, other); });
    g_record_events = false;
    std::vector<void *> born;
    for (auto &e : *g_events) if (e.kind == 'm' || e.kind == 'r') born.push_back(e.p);
    TRACE("call on the stray copy -> %s", aborted ? "abort" : "returned normally");
    cnt_dyn(std::string("class.kind.") + KN[kind]);
    cnt_dyn(std::string("class.method.") + std::to_string(method));
    if (state == 0) CNT("class.state.empty"); else CNT("class.state.nonempty");
    CHECK(aborted, "C20.stray.abort", "%s on a bitwise copy (%s) of a %s object in state '%s' returned normally", en.name, MN[method], KN[kind],
          SN[kind][state]);
    // the stray copy is never touched again; the original must answer exactly as before
    g_cur_op = "original after the aborted call";
    std::vector<long> after = observe(kind, 0);
    CHECK(before == after, "C20.original.works", "the original %s object answers differently after the aborted call on its copy", KN[kind]);
    // (the aborted call may legitimately have dropped what its OTHER argument held; the original's memory is untouched)
    if ((kind == K_UNIQUE || kind == K_SHARED) && !before.empty() && before[0]) {
        void *mem = (void *)(uintptr_t)before[0];
        CHECK(std::find(g_cleared.begin(), g_cleared.end(), mem) == g_cleared.end() && lib_is_live(mem), "C20.original.works",
              "the memory owned by the original was cleared or freed by the aborted call on its copy");
    }
    (void)clr_before;
    // the other argument of the aborted call is abandoned (the property promises nothing about it): release its
    // resources outside the library, then reset every original and audit
    (void)live_before;      // (what an aborting call leaves allocated is not part of the statement)
    g_cur_op = "final reset of the originals";
    switch (kind) {
    case K_GUARDED: break;
    case K_UNIQUE: LIB(cstl_unique_ptr_reset(&U[0])); break;
    case K_SHARED: LIB(cstl_shared_ptr_reset(&S[0])); break;
    case K_WEAK: LIB(cstl_weak_ptr_reset(&W[0])); break;
    case K_ARRAY: LIB(cstl_array_reset(&A[0])); break;
    }
    if (en.nargs == 1) {
        // the second object was not part of the call: it is reset like every other original
        switch (kind) {
        case K_GUARDED: break;
        case K_UNIQUE: LIB(cstl_unique_ptr_reset(&U[2])); break;
        case K_SHARED: LIB(cstl_shared_ptr_reset(&S[2])); break;
        case K_WEAK: LIB(cstl_weak_ptr_reset(&W[2])); break;
        case K_ARRAY: LIB(cstl_array_reset(&A[2])); break;
        }
    }
    for (int i = 0; i < 3; i++) { LIB(cstl_shared_ptr_reset(&SX[i])); LIB(cstl_weak_ptr_reset(&WX[i])); LIB(cstl_array_reset(&AX[i])); }
    // whatever the abandoned other argument(s) of the aborted call still own is the only thing that may be left
    size_t left = lib_live_count();
    for (void *p : born) if (lib_is_live(p) && left) left--;
    // how many blocks one owning object of a kind holds is the implementation's layout (one for a unique pointer, two for a
    // shared pointer or an array on the pinned tree; an array that keeps its elements in a block of their own holds three):
    // it is measured once per process on a scratch object, not assumed
    static size_t per_obj[8];
    static bool per_obj_known[8];
    if (!per_obj_known[kind]) {
        size_t b0 = lib_live_count();
        cstl_unique_ptr_t pu; cstl_shared_ptr_t ps; cstl_array_t pa;
        switch (kind) {
        case K_UNIQUE: LIB(cstl_unique_ptr_init(&pu)); LIB(cstl_unique_ptr_alloc(&pu, 1100, nullptr, nullptr)); break;
        case K_SHARED: case K_WEAK: LIB(cstl_shared_ptr_init(&ps)); LIB(cstl_shared_ptr_alloc(&ps, 1200, nullptr)); break;
        case K_ARRAY: LIB(cstl_array_init(&pa)); LIB(cstl_array_alloc(&pa, 8, 4)); break;
        default: break;
        }
        per_obj[kind] = lib_live_count() - b0;
        switch (kind) {
        case K_UNIQUE: LIB(cstl_unique_ptr_reset(&pu)); break;
        case K_SHARED: case K_WEAK: LIB(cstl_shared_ptr_reset(&ps)); break;
        case K_ARRAY: LIB(cstl_array_reset(&pa)); break;
        default: break;
        }
        per_obj_known[kind] = true;
    }
    size_t other_max = en.nargs == 2 ? per_obj[kind] : 0;
    if (special) other_max += per_obj[kind] > 2 ? per_obj[kind] : 2;
    CHECK(left <= other_max, "C20.original.reset", "after resetting the originals %zu library blocks are live (the abandoned argument can account for at most %zu)",
          left, other_max);
    lib_release_all();
    g_nontrivial = state != 0 && (en.nargs == 2 ? pos == 1 : true);
    if (en.nargs == 2 && pos == 1) CNT("class.second_argument");
}

void vf_gen(Rng &r, std::vector<uint8_t> &out)
{
    for (int i = 0; i < 6; i++) out.push_back(r.byte());
    size_t n = r.below(6);
    for (size_t i = 0; i < n; i++) out.push_back(r.byte());
}

bool vf_scope(const std::string &name, Scope &s)
{
    // "table": every (kind, state, entry, position, method, other state); one record = one whole case
    if (name != "table") return false;
    s.header = {};
    for (int k = 0; k < NKINDS; k++) for (int st = 0; st < NSTATES[k]; st++) for (int e = 0; e < NENT[k]; e++)
        for (int pos = 0; pos < (ENT[k][e].nargs == 2 ? 2 : 1); pos++) for (int m = 0; m < 12; m++)
            for (int os = 0; os < (ENT[k][e].nargs == 2 ? NSTATES[k] : 1); os++)
                s.alphabet.push_back({(uint8_t)k, (uint8_t)st, (uint8_t)e, (uint8_t)pos, (uint8_t)m, (uint8_t)os});
    s.prune = false;
    s.max_depth = 1;
    return true;
}

int vf_custom(int, char **) { fprintf(stderr, "unknown engine\n"); return 2; }
