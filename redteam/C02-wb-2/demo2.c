/*
 * C02 demo 2: "... the longest root-to-leaf path never exceeds 2*log2(n+1)
 * for n held elements, so find, insert and erase stay logarithmic."
 *
 * A find, an insert or an erase descends one root-to-leaf path, so none of
 * them may need more than 2*log2(n+1) comparisons (+1 for the final look at a
 * neighbour) in a tree of n elements.  The demo fills a red-black tree with
 * elements of which many share a key (a timer queue whose deadlines collide, a
 * multiset), then counts the calls of the comparison function made by every
 * single find / erase / insert and compares with that bound.
 */
#include <stdio.h>
#include <stdlib.h>
#include <stddef.h>
#include <math.h>
#include "cstl/rbtree.h"

struct item { int key; struct cstl_rbtree_node rn; };

static unsigned long ncmp;
static int cmp(const void *a, const void *b, void *p)
{
    (void)p;
    ncmp++;
    return ((const struct item *)a)->key - ((const struct item *)b)->key;
}

static int over(const char *what, int key, unsigned long used, size_t n)
{
    const double bound = 2 * log2((double)n + 1) + 1;
    if ((double)used > bound) {
        printf("FAIL: %s of key %d in a tree of %zu elements needed %lu comparisons; "
               "a logarithmic operation needs at most 2*log2(n+1)+1 = %.1f\n", what, key, n, used, bound);
        return 1;
    }
    return 0;
}

int main(void)
{
    enum { KEYS = 8, PER = 2500, N = KEYS * PER };
    static struct item it[N], extra[KEYS];
    struct cstl_rbtree t;
    struct item probe;
    unsigned long worst = 0;
    size_t mn, mx;
    int i, k;

    cstl_rbtree_init(&t, cmp, NULL, offsetof(struct item, rn));
    for (i = 0; i < N; i++) {
        it[i].key = i % KEYS;
        ncmp = 0;
        cstl_rbtree_insert(&t, &it[i], NULL);
        if (over("insert", it[i].key, ncmp, cstl_rbtree_size(&t))) return 1;
    }
    cstl_rbtree_height(&t, &mn, &mx);
    if ((double)mx > 2 * log2((double)N + 1)) { printf("FAIL: height %zu for %d elements\n", mx, N); return 1; }

    for (k = 0; k < KEYS; k++) {
        probe.key = k;
        ncmp = 0;
        if (cstl_rbtree_find(&t, &probe, NULL) == NULL) { printf("FAIL: key %d not found\n", k); return 1; }
        if (ncmp > worst) worst = ncmp;
        if (over("find", k, ncmp, cstl_rbtree_size(&t))) return 1;
    }
    /* drain half of the tree by key, as a timer queue would */
    for (i = 0; i < N / 2; i++) {
        size_t n = cstl_rbtree_size(&t);
        probe.key = i % KEYS;
        ncmp = 0;
        if (cstl_rbtree_erase(&t, &probe) == NULL) { printf("FAIL: erase of key %d found nothing\n", probe.key); return 1; }
        if (ncmp > worst) worst = ncmp;
        if (over("erase", probe.key, ncmp, n)) return 1;
    }
    /* hinted insert: find the place, then insert there */
    for (k = 0; k < KEYS; k++) {
        const void *par = NULL;
        extra[k].key = k;
        ncmp = 0;
        (void)cstl_rbtree_find(&t, &extra[k], &par);
        cstl_rbtree_insert(&t, &extra[k], (void *)par);
        if (ncmp > worst) worst = ncmp;
        if (over("find + hinted insert", k, ncmp, cstl_rbtree_size(&t))) return 1;
    }
    printf("PASS: every find/insert/erase on up to %d elements (%d per key) stayed logarithmic "
           "(worst single find/erase: %lu comparisons; height %zu)\n", N, PER, worst, mx);
    return 0;
}
