/*
 * C12 demo 1: lists built with the library exactly as `make b` ships it
 * (build/libcstl.a) are compared with a reference sequence after push, sort,
 * concat and reverse: size, front, back, forward traversal and backward
 * traversal must agree, and sort must yield an ordered permutation of the
 * same elements.
 */
#include <stdio.h>
#include <stdlib.h>
#include <stddef.h>
#include "cstl/dlist.h"

struct item { int key; int seen; struct cstl_dlist_node ln; };

static int cmp(const void *a, const void *b, void *p)
{
    (void)p;
    return ((const struct item *)a)->key - ((const struct item *)b)->key;
}

struct walk { struct item *v[64]; size_t n; };
static int visit(void *e, void *p)
{
    struct walk *w = p;
    if (w->n == 64) return 1;
    w->v[w->n++] = e;
    return 0;
}

/* the list must hold exactly the n items of ref: in that order, or (sorted != 0) as an ordered permutation */
static int check(struct cstl_dlist *l, struct item **ref, size_t n, int sorted, const char *when)
{
    struct walk f = { {0}, 0 }, r = { {0}, 0 };
    size_t i;

    if (cstl_dlist_size(l) != n) {
        printf("FAIL: %s: size %zu, reference %zu\n", when, cstl_dlist_size(l), n);
        return 1;
    }
    cstl_dlist_foreach(l, visit, &f, CSTL_DLIST_FOREACH_DIR_FWD);
    cstl_dlist_foreach(l, visit, &r, CSTL_DLIST_FOREACH_DIR_REV);
    if (f.n != n || r.n != n) {
        printf("FAIL: %s: forward traversal yields %zu, backward %zu elements, reference %zu\n", when, f.n, r.n, n);
        return 1;
    }
    for (i = 0; i < n; i++) {
        if (f.v[i] != r.v[n - 1 - i]) { printf("FAIL: %s: backward traversal is not the mirror image\n", when); return 1; }
    }
    if (n > 0 && (cstl_dlist_front(l) != f.v[0] || cstl_dlist_back(l) != f.v[n - 1])) {
        printf("FAIL: %s: front/back disagree with the traversal\n", when);
        return 1;
    }
    if (!sorted) {
        for (i = 0; i < n; i++) if (f.v[i] != ref[i]) { printf("FAIL: %s: position %zu differs from the reference\n", when, i); return 1; }
    } else {
        for (i = 0; i < n; i++) ref[i]->seen = 0;
        for (i = 0; i < n; i++) f.v[i]->seen++;
        for (i = 0; i < n; i++) if (ref[i]->seen != 1) { printf("FAIL: %s: not a permutation of the same elements\n", when); return 1; }
        for (i = 1; i < n; i++) if (f.v[i - 1]->key > f.v[i]->key) { printf("FAIL: %s: out of order at %zu\n", when, i); return 1; }
    }
    return 0;
}

int main(void)
{
    static const int keys[] = { 5, 3, 1, 4, 2, 2, 7, 0, 6, 3, 9, 8 };
    enum { N = sizeof keys / sizeof keys[0] };
    static struct item it[N], more[3];
    struct item *ref[N + 3];
    struct cstl_dlist l, m;
    size_t i, n;

    for (n = 0; n <= N; n++) {
        char when[64];
        cstl_dlist_init(&l, offsetof(struct item, ln));
        for (i = 0; i < n; i++) { it[i].key = keys[i]; cstl_dlist_push_back(&l, &it[i]); ref[i] = &it[i]; }
        snprintf(when, sizeof when, "after %zu x push_back", n);
        if (check(&l, ref, n, 0, when)) return 1;
        cstl_dlist_sort(&l, cmp, NULL);
        snprintf(when, sizeof when, "after sort of %zu elements", n);
        if (check(&l, ref, n, 1, when)) return 1;
    }
    /* l now holds all N items, sorted; append three more through concat and sort again */
    cstl_dlist_init(&m, offsetof(struct item, ln));
    for (i = 0; i < 3; i++) { more[i].key = 4 - (int)i; cstl_dlist_push_front(&m, &more[i]); ref[N + i] = &more[i]; }
    cstl_dlist_concat(&l, &m);
    if (cstl_dlist_size(&l) != N + 3 || cstl_dlist_size(&m) != 0) { printf("FAIL: after concat: sizes %zu/%zu\n", cstl_dlist_size(&l), cstl_dlist_size(&m)); return 1; }
    cstl_dlist_reverse(&l);
    cstl_dlist_sort(&l, cmp, NULL);
    if (check(&l, ref, N + 3, 1, "after concat + reverse + sort")) return 1;
    printf("PASS: lists of 0..%d elements agree with the reference after push/sort/concat/reverse\n", N + 3);
    return 0;
}
