// C12 (dlist equals a reference sequence in both directions) and the dlist part
// of C15 (clear hands over each element exactly once, list reusable).
//
// Case layout: 5 header bytes (lists, keys idx, max-live idx, profile, flags)
// followed by 3-byte op records (op, a, b). a: list = a % lists, aux = a / lists.
#include "common/verif.hpp"
extern "C" {
#include "cstl/dlist.h"
}
using namespace vf;

const char *vf_harness_name() { return "dlist"; }

namespace {

struct Elem {
    int id;
    int key;
    int cleared;            // times handed to the clear callback
    uint32_t guard_lo;      // payload around the node: the library must leave it alone
    struct cstl_dlist_node node;
    uint32_t guard_hi;
    int key_copy;
    size_t slot;            // index in Inst::all (O(1) removal)
    struct cstl_dlist_node node2;   // "mixed offsets" cases: list 1 threads its elements through this member
    uint32_t guard3;
};
const uint32_t GUARD_LO = 0xA5C3F00Du, GUARD_HI = 0x5A3C0FF1u;

enum Op { PUSH_F, PUSH_B, POP_F, POP_B, INSERT, ERASE, REVERSE, SORT, CONCAT, SWAP, FIND,
          FOREACH_STOP, FOREACH_ERASE, CLEAR, AUDIT, NOPS };
const char *OPN[] = {"push_front", "push_back", "pop_front", "pop_back", "insert", "erase",
                     "reverse", "sort", "concat", "swap", "find", "foreach_stop",
                     "foreach_erase", "clear", "audit"};

// weight profiles (swarm): index by header byte
const uint8_t PROFILES[][NOPS] = {
    //                  pf pb of ob in er rv so cc sw fi fs fe cl au
    /* uniform      */ {1, 1, 1, 1, 1, 1, 1, 1, 1, 1, 1, 1, 1, 1, 1},
    /* grow         */ {6, 6, 1, 1, 5, 1, 2, 2, 2, 2, 1, 1, 1, 0, 1},
    /* shrink       */ {2, 2, 4, 4, 1, 4, 1, 1, 1, 1, 1, 1, 2, 1, 1},
    /* structural   */ {5, 5, 1, 1, 3, 1, 5, 3, 5, 5, 1, 1, 1, 0, 0},
    /* no clear     */ {4, 4, 1, 1, 4, 1, 2, 2, 2, 2, 2, 2, 1, 0, 1},
    /* C15 fill     */ {4, 4, 1, 1, 4, 1, 1, 1, 1, 1, 1, 0, 1, 2, 0},
    /* short lists  */ {3, 3, 2, 2, 1, 2, 6, 1, 4, 4, 1, 1, 1, 0, 0},
    /* scale        */ {0, 200, 3, 3, 0, 0, 0, 0, 0, 0, 0, 0, 0, 0, 0},
};
const int PROFILE_SCALE = 7;
const int NPROFILES = sizeof PROFILES / sizeof PROFILES[0];
const int KEYS[] = {1, 2, 3, 5, 8};
const int MAXLIVE[] = {1000000, 2, 3, 4, 5, 6, 8, 12};

void *g_cmp_priv_expected;
// any negative / zero / positive int is a valid comparison result: the plain difference, +-1, and values that do not
// fit a short or a char (sort op byte, bits 1-2)
int g_cmp_mag;
static int cmp_scale(int d) { return g_cmp_mag == 1 ? (d < 0 ? -2000000000 : d > 0 ? 2000000000 : 0) : g_cmp_mag == 2 ? (d > 0) - (d < 0) : g_cmp_mag == 3 ? d * 300 : d; }
int cmp_asc(const void *a, const void *b, void *p)
{
    CHECK_NOTHROW(p == g_cmp_priv_expected, "C12.sort.priv", "compare priv pointer changed");
    return cmp_scale(((const Elem *)a)->key - ((const Elem *)b)->key);
}
int cmp_desc(const void *a, const void *b, void *p)
{
    CHECK_NOTHROW(p == g_cmp_priv_expected, "C12.sort.priv", "compare priv pointer changed");
    return cmp_scale(((const Elem *)b)->key - ((const Elem *)a)->key);
}
int cmp_find(const void *a, const void *b, void *p)
{
    CHECK_NOTHROW(p == g_cmp_priv_expected, "C12.find.priv", "compare priv pointer changed");
    return ((const Elem *)a)->key - ((const Elem *)b)->key;
}

struct Inst {
    const char *tag;
    bool primary;                 // counters / non-trivial flags only from the primary instance
    struct cstl_dlist dl[3];
    std::vector<Elem *> model[3];
    std::vector<Elem *> all;      // every element allocated & still owned by us
    int nlists, next_id;
    size_t off[3];                // which node member each list object links (exchanged by swap)

    void init(const char *t, int n, bool prim, bool mixed = false)
    {
        tag = t;
        primary = prim;
        nlists = n;
        next_id = 0;
        for (int i = 0; i < 3; i++) {
            model[i].clear();
            off[i] = (mixed && i == 1) ? offsetof(Elem, node2) : offsetof(Elem, node);
            memset(&dl[i], 0xA5, sizeof dl[i]);      // init must set every field itself
            cstl_dlist_init(&dl[i], off[i]);
        }
    }
    Elem *mk(int key)
    {
        Elem *e = (Elem *)malloc(sizeof *e);
        e->id = next_id++;
        e->key = key;
        e->cleared = 0;
        e->guard_lo = GUARD_LO;
        e->guard_hi = GUARD_HI;
        e->key_copy = ~key;
        e->node.n = (struct cstl_dlist_node *)0x5a5a5a5a5a5a5a5aull;
        e->node.p = (struct cstl_dlist_node *)0x5a5a5a5a5a5a5a5aull;
        e->node2.n = e->node2.p = (struct cstl_dlist_node *)0x5a5a5a5a5a5a5a5aull;
        e->guard3 = GUARD_HI;
        e->slot = all.size();
        all.push_back(e);
        return e;
    }
    void kill(Elem *e)
    {
        size_t i = e->slot;
        if (i < all.size() && all[i] == e) { all[i] = all.back(); all[i]->slot = i; all.pop_back(); }
        memset(e, 0xDD, sizeof *e);
        free(e);
    }
    void destroy()
    {
        for (Elem *e : all) free(e);
        all.clear();
    }
    size_t live() const { return model[0].size() + model[1].size() + model[2].size(); }
};
#define CNTA(name) do { if (in.primary) CNT(name); } while (0)

std::vector<Elem *> g_scratch[2];   // reused visit logs (no allocation per traversal)
struct VisitCtx {
    std::vector<Elem *> &seen;
    size_t limit;       // fail deterministically after this many visits
    size_t stop_at;     // 1-based index at which to return stop_val (0: never)
    int stop_val;
    bool overflow;
    VisitCtx(int slot, size_t lim, size_t sa, int sv)
        : seen(g_scratch[slot]), limit(lim), stop_at(sa), stop_val(sv), overflow(false)
    {
        seen.clear();
        seen.reserve(lim + 1);
    }
};
// a visitor may itself traverse or search the list (read-only): the outer traversal must be unaffected, the inner one complete
struct NestedWalk { struct cstl_dlist *l; VisitCtx *outer; size_t at; bool done; size_t inner_seen; int inner_rv; int dir; } g_nested;
int count_cb(void *, void *priv) { (*(size_t *)priv)++; return 0; }
int visit_cb(void *obj, void *priv)
{
    VisitCtx *c = (VisitCtx *)priv;
    if (c->seen.size() >= c->limit) { c->overflow = true; return 77; }
    c->seen.push_back((Elem *)obj);
    if (g_nested.l && g_nested.outer == c && !g_nested.done && c->seen.size() == g_nested.at) {
        g_nested.done = true;
        g_nested.inner_seen = 0;        // library call from within the visitor, in the other direction
        g_nested.inner_rv = cstl_dlist_foreach(g_nested.l, count_cb, &g_nested.inner_seen, (cstl_dlist_foreach_dir_t)g_nested.dir);
    }
    if (c->stop_at && c->seen.size() == c->stop_at) return c->stop_val;
    return 0;
}

// visitor that erases-and-frees the visited element for a generated subset
struct EraseCtx {
    Inst *in;
    struct cstl_dlist *l;
    const std::vector<Elem *> *expect;   // elements in visiting order
    uint8_t mask;
    size_t visits;
    bool overflow, mismatch;
};
inline bool sel(uint8_t mask, size_t i) { return (mask >> (i & 7)) & 1; }
int erase_cb(void *obj, void *priv)
{
    EraseCtx *c = (EraseCtx *)priv;
    if (c->visits >= c->expect->size()) { c->overflow = true; return 77; }
    Elem *e = (Elem *)obj;
    if (e != (*c->expect)[c->visits]) { c->mismatch = true; return 78; }   // do not touch it
    size_t i = c->visits++;
    if (sel(c->mask, i)) {
        cstl_dlist_erase(c->l, e);          // library call from inside the visitor
        HarnessScope hs;
        c->in->kill(e);                     // poison + free
    }
    return 0;
}

// clear callback: counts per address (in the harness, never inside the element, so
// a second hand-over of a freed element is a clause and not a harness fault),
// then takes ownership: poison 0xDD + free
struct ClearCtx { Inst *in; std::vector<Elem *> *expect; std::vector<char> *done; size_t calls; bool twice, foreign;
                  std::unordered_map<Elem *, size_t> *index; };
ClearCtx *g_clear_ctx;
void clear_cb(void *obj, void *priv)
{
    HarnessScope hs;
    ClearCtx *c = g_clear_ctx;
    (void)priv;
    c->calls++;
    Elem *e = (Elem *)obj;
    size_t idx = c->expect->size();
    auto it = c->index->find(e);
    if (it != c->index->end()) idx = it->second;
    if (idx == c->expect->size()) { c->foreign = true; return; }   // not an element of this list: do not touch
    if ((*c->done)[idx]) { c->twice = true; return; }              // already handed over (and freed)
    (*c->done)[idx] = 1;
    e->cleared++;
    c->in->kill(e);
}

// observations made by an op; compared between the cleared list and a fresh twin
typedef std::vector<long> Obs;

bool g_sparse_skip;     // scale runs: the O(n) audit runs only every 2048th op (and in the epilogue)
void audit(Inst &in, int li, Obs *obs, const char *pfx)
{
    if (g_sparse_skip && !obs) return;
    struct cstl_dlist *l = &in.dl[li];
    std::vector<Elem *> &m = in.model[li];
    size_t sz;
    void *fr, *bk;
    LIB(sz = cstl_dlist_size(l));
    LIB(fr = cstl_dlist_front(l));
    LIB(bk = cstl_dlist_back(l));
    VisitCtx vf_(0, m.size() + 1, 0, 0), vr(1, m.size() + 1, 0, 0);
    int rvf, rvr;
    bool nest = m.size() >= 2 && m.size() <= 2000 && (m.size() & 1) == 0;       // every other audit of a list with >= 2 elements
    g_nested = NestedWalk{nest ? l : nullptr, &vf_, 1 + m.size() / 2, false, 0, 0, CSTL_DLIST_FOREACH_DIR_REV};
    LIB(rvf = cstl_dlist_foreach(l, visit_cb, &vf_, CSTL_DLIST_FOREACH_DIR_FWD));
    bool done1 = g_nested.done; size_t seen1 = g_nested.inner_seen; int rv1 = g_nested.inner_rv;
    g_nested = NestedWalk{nest ? l : nullptr, &vr, 1 + m.size() / 3, false, 0, 0, CSTL_DLIST_FOREACH_DIR_FWD};
    LIB(rvr = cstl_dlist_foreach(l, visit_cb, &vr, CSTL_DLIST_FOREACH_DIR_REV));
    bool done2 = g_nested.done; size_t seen2 = g_nested.inner_seen; int rv2 = g_nested.inner_rv;
    g_nested.l = nullptr;
    if (nest) {
        if (in.primary) CNT("class.walk.nested");
        char ncl[64];
        snprintf(ncl, sizeof ncl, "%s.seq", pfx);
        CHECK(done1 && done2 && rv1 == 0 && rv2 == 0 && seen1 == m.size() && seen2 == m.size(), ncl,
              "%s L%d a traversal started from inside a visit saw %zu / %zu of %zu elements", in.tag, li, seen1, seen2, m.size());
    }
    if (obs) {
        obs->push_back((long)sz);
        obs->push_back(fr ? ((Elem *)fr == (vf_.seen.empty() ? nullptr : vf_.seen.front()) ? 1 : 2) : 0);
        obs->push_back(bk ? ((Elem *)bk == (vf_.seen.empty() ? nullptr : vf_.seen.back()) ? 1 : 2) : 0);
        obs->push_back(rvf);
        obs->push_back((long)vf_.seen.size());
        obs->push_back(vf_.overflow);
        obs->push_back(rvr);
        obs->push_back((long)vr.seen.size());
        obs->push_back(vr.overflow);
    }
    char cl[64];
    snprintf(cl, sizeof cl, "%s.size", pfx);
    CHECK(sz == m.size(), cl, "%s L%d size %zu, reference %zu", in.tag, li, sz, m.size());
    snprintf(cl, sizeof cl, "%s.front", pfx);
    CHECK(fr == (m.empty() ? nullptr : m.front()), cl, "%s L%d front mismatch", in.tag, li);
    snprintf(cl, sizeof cl, "%s.back", pfx);
    CHECK(bk == (m.empty() ? nullptr : m.back()), cl, "%s L%d back mismatch", in.tag, li);
    snprintf(cl, sizeof cl, "%s.fwd", pfx);
    CHECK(!vf_.overflow, cl, "%s L%d forward traversal visits more than %zu elements", in.tag, li, m.size());
    CHECK(rvf == 0, cl, "%s L%d forward foreach returned %d with a visitor that never stops", in.tag, li, rvf);
    CHECK(vf_.seen.size() == m.size(), cl, "%s L%d forward traversal yields %zu elements, reference %zu", in.tag, li,
          vf_.seen.size(), m.size());
    for (size_t i = 0; i < m.size(); i++)
        CHECK(vf_.seen[i] == m[i], cl, "%s L%d forward traversal position %zu differs from the reference", in.tag, li, i);
    snprintf(cl, sizeof cl, "%s.rev", pfx);
    CHECK(!vr.overflow, cl, "%s L%d backward traversal visits more than %zu elements", in.tag, li, m.size());
    CHECK(rvr == 0, cl, "%s L%d backward foreach returned %d with a visitor that never stops", in.tag, li, rvr);
    CHECK(vr.seen.size() == m.size(), cl, "%s L%d backward traversal yields %zu elements, reference %zu", in.tag, li,
          vr.seen.size(), m.size());
    for (size_t i = 0; i < m.size(); i++)
        CHECK(vr.seen[i] == m[m.size() - 1 - i], cl,
              "%s L%d backward traversal position %zu is not the mirror of the reference", in.tag, li, i);
    // the elements of the sequence are still the reference's elements: nothing
    // outside the embedded node was overwritten
    snprintf(cl, sizeof cl, "%s.payload", pfx);
    for (size_t i = 0; i < m.size(); i++)
        CHECK(m[i]->guard_lo == GUARD_LO && m[i]->guard_hi == GUARD_HI && m[i]->guard3 == GUARD_HI && m[i]->key_copy == ~m[i]->key &&
              (in.off[li] == offsetof(Elem, node) ? m[i]->node2.n : m[i]->node.n) == (struct cstl_dlist_node *)0x5a5a5a5a5a5a5a5aull, cl,
              "%s L%d element at position %zu was overwritten outside its list node", in.tag, li, i);
}

std::string seq_str(const std::vector<Elem *> &m)
{
    std::string s = "[";
    for (size_t i = 0; i < m.size(); i++) {
        char b[32];
        snprintf(b, sizeof b, "%se%d(k%d)", i ? "," : "", m[i]->id, m[i]->key);
        s += b;
    }
    return s + "]";
}

// canonical implementation state, read from the public struct (state
// identification for G1 only; never used in an oracle clause): forward key
// chain through h.n, backward key chain through h.p, size and offset fields
std::string peek_state(Inst &in)
{
    std::string s;
    for (int li = 0; li < in.nlists; li++) {
        struct cstl_dlist *l = &in.dl[li];
        size_t bound = in.live() + 2, n = 0;
        s += "L";
        for (struct cstl_dlist_node *c = l->h.n; c && c != &l->h && n < bound; c = c->n, n++)
            s += (char)('a' + ((Elem *)((char *)c - in.off[li]))->key);
        s += "|";
        n = 0;
        for (struct cstl_dlist_node *c = l->h.p; c && c != &l->h && n < bound; c = c->p, n++)
            s += (char)('a' + ((Elem *)((char *)c - in.off[li]))->key);
        char b[64];
        snprintf(b, sizeof b, "|s%zu|o%zu;", (size_t)l->size, (size_t)l->off);
        s += b;
    }
    return s;
}

struct CaseCtx {
    bool c15;
    bool teardown;
    bool nt_small;              // C12: reverse on length 2/3, or swap/concat with an operand of length 0..3
    bool nt_big;                // C12: reverse/swap/concat with an operand of length >= 4
    bool cleared3[3];           // C15: list struct i was cleared while holding >= 3 elements
    bool nt_reuse;              // C15: an element was added to such a list afterwards
};

inline int other_list(int li, uint8_t b, int nl) { return (li + 1 + (b % (nl - 1))) % nl; }

// apply one op to an instance
void apply(Inst &in, CaseCtx &cx, int op, uint8_t a, uint8_t b, int K, size_t maxlive, bool audit_all, Obs *obs)
{
    const char *pfx = "C12";
    int nl = in.nlists;
    int li = a % nl;
    unsigned aux = a / nl;
    struct cstl_dlist *l = &in.dl[li];
    std::vector<Elem *> &m = in.model[li];
    int key = b % K;
    int si = -1;                // second list touched by the op
    g_cur_op = OPN[op];
    if (g_replay_mode == 1) TRACE("> %s %s L%d aux=%u arg=%u", in.tag, OPN[op], li, aux, b);
    switch (op) {
    case PUSH_F:
    case PUSH_B: {
        if (in.live() >= maxlive) { CNTA("noop.maxlive"); TRACE("%s %s noop (max live)", in.tag, OPN[op]); return; }
        Elem *e = in.mk(key);
        if (op == PUSH_F) { LIB(cstl_dlist_push_front(l, e)); m.insert(m.begin(), e); }
        else { LIB(cstl_dlist_push_back(l, e)); m.push_back(e); }
        TRACE("%s L%d.%s e%d(k%d)", in.tag, li, OPN[op], e->id, key);
        if (in.primary && cx.cleared3[li]) cx.nt_reuse = true;
        break;
    }
    case POP_F:
    case POP_B: {
        void *r;
        if (op == POP_F) LIB(r = cstl_dlist_pop_front(l)); else LIB(r = cstl_dlist_pop_back(l));
        TRACE("%s L%d.%s -> %s (n=%zu)", in.tag, li, OPN[op], r ? "elem" : "NULL", m.size());
        if (obs) obs->push_back(r ? 1 : 0);
        if (m.empty()) {
            if (op == POP_F) CNTA("class.pop_front_empty"); else CNTA("class.pop_back_empty");
            CHECK(r == nullptr, "C12.pop.empty", "%s on an empty list returned non-NULL", OPN[op]);
        } else {
            Elem *e = op == POP_F ? m.front() : m.back();
            CHECK(r == e, "C12.pop.ret", "%s returned a pointer that is not the %s element", OPN[op],
                  op == POP_F ? "first" : "last");
            if (op == POP_F) m.erase(m.begin()); else m.pop_back();
            in.kill(e);
            if (m.empty()) CNTA("class.pop_to_empty");
        }
        break;
    }
    case INSERT: {
        if (m.empty() || in.live() >= maxlive) { CNTA("noop.insert"); TRACE("%s insert noop", in.tag); return; }
        size_t pos = ((size_t)(b / K) + 37u * aux) % m.size();
        Elem *e = in.mk(key);
        LIB(cstl_dlist_insert(l, m[pos], e));
        TRACE("%s L%d.insert after e%d <- e%d(k%d) pos=%zu/%zu", in.tag, li, m[pos]->id, e->id, key, pos, m.size());
        if (pos + 1 == m.size()) CNTA("class.insert.after_back"); else CNTA("class.insert.inner");
        m.insert(m.begin() + pos + 1, e);
        if (in.primary && cx.cleared3[li]) cx.nt_reuse = true;
        break;
    }
    case ERASE: {
        if (m.empty()) { CNTA("noop.erase"); TRACE("%s erase noop", in.tag); return; }
        size_t pos = ((size_t)b + 256u * aux) % m.size();
        Elem *e = m[pos];
        TRACE("%s L%d.erase e%d pos=%zu/%zu", in.tag, li, e->id, pos, m.size());
        LIB(cstl_dlist_erase(l, e));
        if (m.size() == 1) CNTA("class.erase.only");
        else if (pos == 0) CNTA("class.erase.front");
        else if (pos + 1 == m.size()) CNTA("class.erase.back");
        else CNTA("class.erase.inner");
        m.erase(m.begin() + pos);
        in.kill(e);
        break;
    }
    case REVERSE:
        TRACE("%s L%d.reverse (n=%zu)", in.tag, li, m.size());
        LIB(cstl_dlist_reverse(l));
        std::reverse(m.begin(), m.end());
        if (in.primary) {
            switch (m.size()) {
            case 0: CNT("class.reverse.len0"); break;
            case 1: CNT("class.reverse.len1"); break;
            case 2: CNT("class.reverse.len2"); break;
            case 3: CNT("class.reverse.len3"); break;
            default: if (m.size() & 1) CNT("class.reverse.len4p_odd"); else CNT("class.reverse.len4p_even");
            }
            if (m.size() == 2 || m.size() == 3) cx.nt_small = true;
            if (m.size() >= 4) cx.nt_big = true;
        }
        break;
    case SORT: {
        g_cmp_priv_expected = &in;
        g_cmp_mag = (b >> 1) & 3;
        TRACE("%s L%d.sort %s (n=%zu)", in.tag, li, (b & 1) ? "desc" : "asc", m.size());
        LIB(cstl_dlist_sort(l, (b & 1) ? cmp_desc : cmp_asc, &in));
        // sort need not be stable: take the order from the list itself, but
        // demand an ordered permutation of the same elements
        VisitCtx vc(0, m.size() + 1, 0, 0);
        int rv;
        LIB(rv = cstl_dlist_foreach(l, visit_cb, &vc, CSTL_DLIST_FOREACH_DIR_FWD));
        (void)rv;
        if (obs) obs->push_back((long)vc.seen.size());
        CHECK(!vc.overflow && vc.seen.size() == m.size(), "C12.sort.perm", "sort changed the number of elements (%zu -> %zu%s)",
              m.size(), vc.seen.size(), vc.overflow ? "+" : "");
        {
            std::vector<Elem *> x = vc.seen, y = m;
            std::sort(x.begin(), x.end());
            std::sort(y.begin(), y.end());
            CHECK(x == y, "C12.sort.perm", "sort result is not a permutation of the same elements");
            for (size_t i = 1; i < vc.seen.size(); i++) {
                int d = vc.seen[i - 1]->key - vc.seen[i]->key;
                if (b & 1) d = -d;
                CHECK(d <= 0, "C12.sort.order", "sort result out of order at %zu", i);
            }
        }
        m = vc.seen;
        if (m.size() >= 2) CNTA("class.sort.len2p");
        break;
    }
    case CONCAT: {
        if (nl < 2 || (aux & 7) == 7) {
            // d == s is outside the documented domain (the header says nothing about appending a list to itself;
            // only the current code happens to ignore it): a counted no-op, never executed (DESIGN.md 4.1)
            TRACE("%s L%d.concat noop (self-concat is outside the domain)", in.tag, li);
            CNTA("noop.concat_self");
            break;
        }
        si = other_list(li, b, nl);
        if (in.off[li] != in.off[si]) { CNTA("noop.concat_mixed_offsets"); TRACE("%s concat noop (the two lists link different members)", in.tag); si = -1; break; }
        std::vector<Elem *> &ms = in.model[si];
        TRACE("%s L%d.concat L%d (%zu += %zu)", in.tag, li, si, m.size(), ms.size());
        LIB(cstl_dlist_concat(l, &in.dl[si]));
        if (in.primary) {
            if (ms.empty() && m.empty()) CNT("class.concat.both_empty");
            else if (ms.empty()) CNT("class.concat.src_empty");
            else if (m.empty()) CNT("class.concat.dst_empty");
            else CNT("class.concat.both_nonempty");
            if (m.size() <= 3 || ms.size() <= 3) cx.nt_small = true;
            if (m.size() >= 4 || ms.size() >= 4) cx.nt_big = true;
        }
        m.insert(m.end(), ms.begin(), ms.end());
        ms.clear();
        break;
    }
    case SWAP: {
        if (nl < 2) {
            // "over one or more lists": with one list the only swap there is exchanges the list with itself, and the
            // reference sequence stays what it was (unlike self-concat, whose meaning the header leaves open)
            TRACE("%s L%d.swap L%d (itself, %zu)", in.tag, li, li, m.size());
            LIB(cstl_dlist_swap(l, l));
            CNTA(m.empty() ? "class.swap.self_empty" : "class.swap.self_nonempty");
            break;
        }
        si = other_list(li, b, nl);
        std::vector<Elem *> &ms = in.model[si];
        TRACE("%s L%d.swap L%d (%zu <-> %zu)", in.tag, li, si, m.size(), ms.size());
        LIB(cstl_dlist_swap(l, &in.dl[si]));
        if (in.primary) {
            if (ms.empty() && m.empty()) CNT("class.swap.empty_empty");
            else if (m.empty()) CNT("class.swap.empty_nonempty");
            else if (ms.empty()) CNT("class.swap.nonempty_empty");
            else CNT("class.swap.nonempty_nonempty");
            if (m.size() <= 3 || ms.size() <= 3) cx.nt_small = true;
            if (m.size() >= 4 || ms.size() >= 4) cx.nt_big = true;
        }
        m.swap(ms);
        std::swap(in.off[li], in.off[si]);      // the list objects exchange everything, the member they link included
        if (in.primary && in.off[li] != in.off[si]) CNT("class.swap.mixed_offsets");
        break;
    }
    case FIND: {
        bool rev = aux & 1;
        Elem probe;
        memset(&probe, 0, sizeof probe);
        probe.id = -1;
        probe.key = key;
        Elem *want = nullptr;
        if (!rev) { for (size_t i = 0; i < m.size() && !want; i++) if (m[i]->key == key) want = m[i]; }
        else { for (size_t i = m.size(); i-- > 0 && !want;) if (m[i]->key == key) want = m[i]; }
        g_cmp_priv_expected = &cx;
        void *r;
        LIB(r = cstl_dlist_find(l, &probe, cmp_find, &cx,
                                rev ? CSTL_DLIST_FOREACH_DIR_REV : CSTL_DLIST_FOREACH_DIR_FWD));
        TRACE("%s L%d.find k%d %s -> %s (expected %s, n=%zu)", in.tag, li, key, rev ? "REV" : "FWD",
              r ? "elem" : "NULL", want ? "elem" : "NULL", m.size());
        if (obs) obs->push_back(r ? 1 : 0);
        if (want) CNTA("class.find.hit"); else CNTA("class.find.miss");
        CHECK(r == want, "C12.find", "find(k%d,%s) did not return %s", key, rev ? "REV" : "FWD",
              want ? "the first match in that direction" : "NULL for an absent key");
        break;
    }
    case FOREACH_STOP: {
        bool rev = aux & 1;
        size_t n = m.empty() ? 0 : 1 + (size_t)(b >> 3) % m.size();
        int v = 1 + (b & 3) * 1000003 * ((b & 4) ? -1 : 1);
        VisitCtx vc(0, m.size() + 1, n, v);
        int rv;
        LIB(rv = cstl_dlist_foreach(l, visit_cb, &vc, rev ? CSTL_DLIST_FOREACH_DIR_REV : CSTL_DLIST_FOREACH_DIR_FWD));
        TRACE("%s L%d.foreach %s stop@%zu val=%d -> %d (n=%zu)", in.tag, li, rev ? "REV" : "FWD", n, v, rv, m.size());
        if (obs) { obs->push_back(rv); obs->push_back((long)vc.seen.size()); }
        CHECK(!vc.overflow, "C12.foreach.stop", "foreach visited more elements than the list holds");
        if (n == 0) CHECK(rv == 0 && vc.seen.empty(), "C12.foreach.stop", "foreach on empty list visited something");
        else {
            CHECK(rv == v, "C12.foreach.stop", "foreach returned %d, visitor stopped with %d", rv, v);
            CHECK(vc.seen.size() == n, "C12.foreach.stop", "foreach made %zu visits, expected stop at %zu", vc.seen.size(), n);
            for (size_t i = 0; i < n; i++)
                CHECK(vc.seen[i] == (rev ? m[m.size() - 1 - i] : m[i]), "C12.foreach.stop", "foreach prefix differs at %zu", i);
            if (n == m.size()) CNTA("class.foreach_stop.at_last"); else CNTA("class.foreach_stop.before_last");
        }
        break;
    }
    case FOREACH_ERASE: {
        bool rev = aux & 1;
        std::vector<Elem *> order = m;
        if (rev) std::reverse(order.begin(), order.end());
        std::vector<Elem *> rest;
        size_t nsel = 0;
        bool consecutive = false;
        for (size_t i = 0; i < order.size(); i++) {
            if (sel(b, i)) { nsel++; if (i && sel(b, i - 1)) consecutive = true; }
            else rest.push_back(order[i]);
        }
        if (rev) std::reverse(rest.begin(), rest.end());
        EraseCtx ec{&in, l, &order, b, 0, false, false};
        TRACE("%s L%d.foreach_erase %s mask=0x%02x erases %zu of %zu", in.tag, li, rev ? "REV" : "FWD", b, nsel, m.size());
        int rv;
        LIB(rv = cstl_dlist_foreach(l, erase_cb, &ec, rev ? CSTL_DLIST_FOREACH_DIR_REV : CSTL_DLIST_FOREACH_DIR_FWD));
        if (obs) { obs->push_back(rv); obs->push_back((long)ec.visits); obs->push_back(ec.overflow); obs->push_back(ec.mismatch); }
        if (in.primary && !order.empty()) {
            if (nsel == 0) CNT("class.foreach_erase.none");
            else if (nsel == order.size()) CNT("class.foreach_erase.all");
            else CNT("class.foreach_erase.some");
            if (consecutive) CNT("class.foreach_erase.consecutive");
            if (sel(b, 0)) CNT("class.foreach_erase.first_visited");
            if (sel(b, order.size() - 1)) CNT("class.foreach_erase.last_visited");
        }
        CHECK(!ec.mismatch, "C12.foreach.erase", "visit %zu handed an element that is not the next one in that direction", ec.visits);
        CHECK(!ec.overflow, "C12.foreach.erase", "foreach visited more elements than the list holds");
        CHECK(ec.visits == order.size(), "C12.foreach.erase", "foreach made %zu visits over %zu elements", ec.visits, order.size());
        CHECK(rv == 0, "C12.foreach.erase", "foreach returned %d with a visitor that never stops", rv);
        m = rest;     // the audit demands exactly the complement
        break;
    }
    case CLEAR: {
        std::vector<Elem *> expect = m;
        std::vector<char> done(expect.size(), 0);
        std::unordered_map<Elem *, size_t> index;
        for (size_t i = 0; i < expect.size(); i++) index.emplace(expect[i], i);
        ClearCtx cc{&in, &expect, &done, 0, false, false, &index};
        g_clear_ctx = &cc;
        size_t n = m.size();
        m.clear();
        TRACE("%s L%d.clear (n=%zu)", in.tag, li, n);
        LIB(cstl_dlist_clear(l, clear_cb));
        g_clear_ctx = nullptr;
        CHECK(!cc.twice, "C15.dlist.once", "clear handed the same element to the callback twice");
        CHECK(!cc.foreign, "C15.dlist.once", "clear callback received an object that is not an element of the list");
        CHECK(cc.calls == n, "C15.dlist.once", "clear made %zu callbacks for %zu elements", cc.calls, n);
        size_t sz;
        LIB(sz = cstl_dlist_size(l));
        CHECK(sz == 0, g_prop == "C15" ? "C15.dlist.empty" : "C12.size", "size %zu after clear", sz);
        if (in.primary && !cx.teardown) {
            if (n >= 3) { cx.cleared3[li] = true; CNT("class.clear.len3p"); }
            else CNT("class.clear.len0_2");
        }
        break;
    }
    case AUDIT:
        TRACE("%s audit L%d=%s", in.tag, li, seq_str(m).c_str());
        break;
    }
    if (audit_all) {
        for (int i = 0; i < nl; i++) audit(in, i, obs, pfx);
    } else {
        audit(in, li, obs, pfx);
        if (si >= 0) audit(in, si, obs, pfx);
    }
}

Inst A, B;
} // namespace

void vf_run(const uint8_t *data, size_t len)
{
    A.destroy();
    B.destroy();
    Cursor cur(data, len);
    int nl = 1 + cur.u8() % 3;
    int K = KEYS[cur.u8() % 5];
    size_t maxlive = MAXLIVE[cur.u8() % 8];
    int prof = cur.u8() % NPROFILES;
    uint8_t flags = cur.u8();
    bool audit_all = flags & 1;
    bool mixed = (flags & 2) && nl >= 2;
    CaseCtx cx{};
    cx.c15 = g_prop == "C15";
    A.init("A", nl, true, mixed);
    B.init("B", nl, false, mixed);
    bool twin = false;          // C15: after the first clear every op also runs on a fresh twin
    std::vector<uint8_t> tab;
    for (int o = 0; o < NOPS; o++) for (int k = 0; k < PROFILES[prof][o]; k++) tab.push_back((uint8_t)o);
    TRACE("header lists=%d keys=%d maxlive=%zu profile=%d audit_all=%d", nl, K, maxlive, prof, (int)audit_all);
    size_t nops = 0;
    bool state_marked = false;
    const bool scale = cur.remaining() / 3 > 5000;
    g_sparse_skip = false;
    while (cur.remaining() >= 3) {
        uint8_t o = cur.u8(), a = cur.u8(), b = cur.u8();
        g_sparse_skip = scale && ((nops + 1) % 2048) != 0;
        if (o == 0xFE) {                // MARK: state snapshot for G1 before the trailer
            if (g_want_state) { g_state = peek_state(A); state_marked = true; }
            continue;
        }
        int op = tab[o % tab.size()];
        nops++;
        const bool first_clear = op == CLEAR && cx.c15 && !twin;
        const char *fc_abandon = nullptr;
        if (first_clear) {
            // the audit right after the clear belongs to the comparison with the fresh twin (built below): a
            // front/back/traversal mismatch of the just-cleared list must not be dropped as "another property's clause"
            try { apply(A, cx, op, a, b, K, maxlive, audit_all, nullptr); } catch (const Abandon &x) { fc_abandon = x.clause; }
        } else if (!twin) {
            apply(A, cx, op, a, b, K, maxlive, audit_all, nullptr);
        } else {
            // the cleared list and the fresh twin must be indistinguishable: same
            // observations, and a reference-model mismatch on one of them only is
            // a difference too
            static Obs oa, ob;
            oa.clear();
            ob.clear();
            const char *ab_a = nullptr, *ab_b = nullptr;
            try { apply(A, cx, op, a, b, K, maxlive, audit_all, &oa); } catch (const Abandon &x) { ab_a = x.clause; }
            try { apply(B, cx, op, a, b, K, maxlive, audit_all, &ob); } catch (const Abandon &x) { ab_b = x.clause; }
            g_cur_op = OPN[op];
            CHECK(oa == ob && !ab_a == !ab_b, "C15.dlist.reuse",
                  "after clear the list behaves differently from a fresh one (op %s%s%s)", OPN[op],
                  ab_a ? ", cleared list fails " : (ab_b ? ", twin fails " : ""), ab_a ? ab_a : (ab_b ? ab_b : ""));
            if (ab_a) throw Abandon{ab_a};
        }
        if (op == CLEAR && cx.c15 && !twin) {
            // from now on compare against a freshly initialised twin. Only the
            // cleared list is empty; rebuild the twin's other lists from the model.
            twin = true;
            for (int i = 0; i < nl; i++) {
                if (B.off[i] != A.off[i]) { B.off[i] = A.off[i]; cstl_dlist_init(&B.dl[i], B.off[i]); }   // (swaps moved the offsets around)
                for (Elem *e : A.model[i]) {
                    Elem *t = B.mk(e->key);
                    t->id = e->id;
                    LIB(cstl_dlist_push_back(&B.dl[i], t));
                    B.model[i].push_back(t);
                }
            }
            B.next_id = A.next_id;
            TRACE("twin B created (fresh list, other lists rebuilt)");
            static Obs oa, ob;
            oa.clear();
            ob.clear();
            const char *ab_a = fc_abandon, *ab_b = nullptr;
            if (!ab_a) try { for (int i = 0; i < nl; i++) audit(A, i, &oa, "C12"); } catch (const Abandon &x) { ab_a = x.clause; }
            try { for (int i = 0; i < nl; i++) audit(B, i, &ob, "C12"); } catch (const Abandon &x) { ab_b = x.clause; }
            g_cur_op = "clear";
            CHECK((ab_a || oa == ob) && !ab_a == !ab_b, "C15.dlist.reuse",
                  "right after clear the list differs from a freshly initialised one%s%s", ab_a ? ": it fails " : (ab_b ? ": the twin fails " : ""),
                  ab_a ? ab_a : (ab_b ? ab_b : ""));
            if (ab_a) throw Abandon{ab_a};
        }
    }
    g_sparse_skip = false;
    if (scale && !twin) {
        // epilogue of a scale run: the O(n) operations on a list of ~10^5 elements, each followed by the two-way audit
        for (int op2 : {(int)REVERSE, (int)PUSH_B, (int)SORT, (int)POP_B, (int)PUSH_F, (int)FIND})
            apply(A, cx, op2, 0, 3, K, maxlive, true, nullptr);
        if (nl > 1) { apply(A, cx, CONCAT, 0, 0, K, maxlive, true, nullptr); apply(A, cx, SWAP, 0, 0, K, maxlive, true, nullptr); apply(A, cx, REVERSE, 1, 0, K, maxlive, true, nullptr); }
        CNT("class.scale_run");
    }
    // final audit of every list
    g_cur_op = "final audit";
    for (int i = 0; i < nl; i++) audit(A, i, nullptr, "C12");
    if (twin) for (int i = 0; i < nl; i++) audit(B, i, nullptr, "C12");
    if (g_want_state && !state_marked) g_state = peek_state(A);
    // teardown: clear everything through the library with the freeing callback
    cx.teardown = true;
    for (int i = 0; i < nl; i++) {
        apply(A, cx, CLEAR, (uint8_t)i, 0, K, maxlive, false, nullptr);
        if (twin) apply(B, cx, CLEAR, (uint8_t)i, 0, K, maxlive, false, nullptr);
    }
    CHECK(A.all.empty(), "C15.dlist.once", "%zu elements were never handed to the clear callback", A.all.size());
    if (cx.c15) g_nontrivial = cx.nt_reuse;
    else g_nontrivial = cx.nt_small && cx.nt_big;
    CNTN("ops", nops);
}

void vf_gen(Rng &r, std::vector<uint8_t> &out)
{
    bool c15 = g_prop == "C15";
    out.push_back(r.byte());                     // lists
    out.push_back(r.byte());                     // keys
    out.push_back(r.chance(3, 4) ? 0 : r.byte()); // max live: mostly unbounded
    if (c15) out.push_back(r.chance(1, 2) ? 5 : r.byte());
    else out.push_back(r.byte());                // profile
    out.push_back((uint8_t)((r.chance(1, 4) ? 1 : 0) | (r.chance(1, 4) ? 2 : 0)));       // flags: audit every list after every op; mixed node offsets
    size_t n = r.chance(2, 3) ? 1 + r.below(12) : 1 + r.below(200);
    if (!c15 && r.chance(1, 30000)) { n = 70000 + r.below(70000); out[2] = 0; out[3] = PROFILE_SCALE; out[4] = 0; }   // scale run
    for (size_t i = 0; i < n; i++) { out.push_back(r.byte() % 251); out.push_back(r.byte()); out.push_back(r.byte()); }
}

bool vf_scope(const std::string &name, Scope &s)
{
    // name: "<lists>:<keys idx>:<maxlive idx>:<mode>"  mode: closure | seq<depth>
    // closure: full alphabet (every position / key / direction / erase subset that matters
    // within the max-live bound); seqN: all sequences of length N over a reduced alphabet
    int nl = 1, ki = 0, mi = 3, depth = 5;
    char mode[32] = "closure";
    sscanf(name.c_str(), "%d:%d:%d:%31s", &nl, &ki, &mi, mode);
    if (nl < 1 || nl > 3) return false;
    bool c15 = g_prop == "C15";
    bool seq = !strncmp(mode, "seq", 3);
    s.header = {(uint8_t)(nl - 1), (uint8_t)ki, (uint8_t)mi, 0, 1};
    int K = KEYS[ki % 5];
    size_t ml = MAXLIVE[mi % 8];
    int npos = (int)std::min<size_t>(ml, 6);
    auto A8 = [&](int li, int aux) { return (uint8_t)(li + nl * aux); };
    for (int op = 0; op < NOPS; op++) {
        if (op == AUDIT) continue;
        if (c15 && (op == CLEAR || op == FOREACH_STOP || op == FIND)) continue;
        if (op == SWAP && nl < 2) continue;
        for (int li = 0; li < nl; li++) {
            std::vector<std::pair<int, int>> ab;   // (aux, b)
            switch (op) {
            case PUSH_F: case PUSH_B:
                for (int k = 0; k < (seq ? std::min(K, 2) : K); k++) ab.push_back({0, k});
                break;
            case INSERT:
                if (seq) { ab.push_back({0, 0}); ab.push_back({0, K * 1 + (K > 1)}); }
                else for (int pos = 0; pos < npos - 1 || pos == 0; pos++)
                    for (int k = 0; k < std::min(K, 2); k++) ab.push_back({0, k + K * pos});
                break;
            case ERASE:
                if (seq) ab = {{0, 0}, {0, 1}};
                else for (int pos = 0; pos < npos; pos++) ab.push_back({0, pos});
                break;
            case SORT: ab = {{0, 0}, {0, 2}, {0, 1}}; if (seq) { ab.pop_back(); ab.pop_back(); } break;    // asc, asc with +-2e9 results, desc
            case CONCAT:
                for (int k = 0; k < nl - 1; k++) ab.push_back({0, k});
                break;
            case SWAP: for (int k = 0; k < nl - 1; k++) ab.push_back({0, k}); break;
            case FIND:
                if (seq) break;
                for (int k = 0; k < K; k++) { ab.push_back({0, k}); ab.push_back({1, k}); }
                break;
            case FOREACH_STOP:
                if (seq) break;
                for (int d = 0; d < 2; d++) { ab.push_back({d, 0}); ab.push_back({d, (1 << 3) | 5}); ab.push_back({d, (2 << 3) | 2}); }
                break;
            case FOREACH_ERASE:
                if (seq) { ab = {{0, 0x05}, {1, 0x06}}; break; }
                for (int d = 0; d < 2; d++)
                    for (int mk : {0x00, 0x01, 0x02, 0x03, 0x05, 0x06, 0x0A, 0xFF}) ab.push_back({d, mk});
                break;
            default: ab = {{0, 0}};
            }
            for (auto &p : ab) {
                s.alphabet.push_back({(uint8_t)op, A8(li, p.first), (uint8_t)p.second});
                s.names.push_back(OPN[op]);
            }
        }
    }
    if (seq) { s.prune = false; depth = atoi(mode + 3); s.max_depth = depth; }
    if (c15) {
        // every reachable state gets: clear L0, then a reuse script on the cleared list and a fresh twin
        uint8_t o = A8(0, 0), r1 = A8(0, 1);
        s.trailer = {0xFE, 0, 0,
                     CLEAR, o, 0, PUSH_B, o, 1, PUSH_F, o, 0, INSERT, o, (uint8_t)K, PUSH_B, o, 2,
                     FIND, r1, 1, ERASE, o, 1, REVERSE, o, 0, POP_B, o, 0, PUSH_B, o, 1, INSERT, o, 0,
                     FOREACH_ERASE, r1, 0x02, SORT, o, 0, CONCAT, o, 0, SWAP, o, 0, PUSH_F, o, 1,
                     POP_F, o, 0, CLEAR, o, 0, POP_B, o, 0, PUSH_B, o, 0,
                     // second list (lists == 1: L0 again): clear it too, so the max-live bound
                     // cannot turn all the pushes above into no-ops, and refill both
                     CLEAR, 1, 0, PUSH_B, 1, 1, PUSH_B, o, 0, PUSH_F, 1, 0, PUSH_B, o, 1, CONCAT, o, 0,
                     REVERSE, o, 0, POP_B, o, 0};
    }
    return true;
}

int vf_custom(int, char **) { fprintf(stderr, "unknown engine\n"); return 2; }
