#!/bin/sh
# run from the worktree root: sh _seed/run_demo1.sh
# builds the library the way it is shipped (make b) and links the demonstration against it
make b >/dev/null 2>&1 || { echo "FAIL: make b failed"; exit 1; }
gcc -std=gnu99 -Wall -Iinclude _seed/demo1.c build/libcstl.a -lm -lpthread -o _seed/demo1.bin \
    || { echo "FAIL: demonstration does not compile"; exit 1; }
./_seed/demo1.bin
rc=$?
if [ $rc -ne 0 ] && [ $rc -ne 1 ]; then echo "FAIL: demonstration crashed (exit status $rc)"; exit 1; fi
exit $rc
