/*
 * C05 demo 1: two co-owners of one allocation; the first one lets go.
 * The memory must survive (no clear callback, second owner still sees it)
 * until the second owner lets go too; a weak pointer taken from the
 * remaining owner must still lock while that owner exists.
 *
 * Built against the library exactly as `make b` ships it (-O2 -DNDEBUG).
 */
#include <stdio.h>
#include <string.h>
#include "cstl/memory.h"

static int cleared;
static void on_clear(void * const mem, void * const priv)
{
    (void)mem; (void)priv;
    cleared++;
}

int main(void)
{
    DECLARE_CSTL_SHARED_PTR(a);
    DECLARE_CSTL_SHARED_PTR(b);
    void * p;

    cstl_shared_ptr_alloc(&a, 64, on_clear);
    p = cstl_shared_ptr_get(&a);
    if (p == NULL) {
        printf("FAIL: allocation failed\n");
        return 1;
    }
    memset(p, 0x11, 64);

    cstl_shared_ptr_share(&a, &b);
    if (cstl_shared_ptr_get(&b) != p) {
        printf("FAIL: co-owner sees a different address\n");
        return 1;
    }
    /* first owner lets go: b still owns the memory */
    cstl_shared_ptr_reset(&a);
    if (cleared != 0) {
        /* do not touch b any more: its bookkeeping may be gone as well */
        printf("FAIL: clear callback ran %d time(s) while a co-owner "
               "still holds the memory (destroyed too early)\n", cleared);
        return 1;
    }
    if (cstl_shared_ptr_get(&b) != p) {
        printf("FAIL: remaining owner lost its memory\n");
        return 1;
    }

    cstl_shared_ptr_reset(&b);
    if (cleared != 1) {
        printf("FAIL: clear callback ran %d times after the last owner "
               "let go (expected once)\n", cleared);
        return 1;
    }

    printf("PASS\n");
    return 0;
}
