#!/usr/bin/env python3
"""notes/sensitivity.md from seeded/*/meta.json and mutants/RESULTS.txt"""
import json, glob, os, re
V = os.path.dirname(os.path.dirname(os.path.abspath(__file__)))
rows = []
for m in sorted(glob.glob(os.path.join(V, 'seeded', '*', 'meta.json'))) + sorted(glob.glob(os.path.join(V, 'redteam', '*', 'meta.json'))):
    d = json.load(open(m))
    sid = os.path.basename(os.path.dirname(m))
    notes = d.get('needs_to_manifest', '')
    first = ''
    for l in notes.splitlines():
        l = l.strip().lstrip('#').strip()
        if len(l) > 25:
            first = l
            break
    first = re.sub(r'[|`*]', '', first)[:150]
    dets = []
    for p, c in sorted(d.get('checks', {}).items()):
        cl = re.search(r'clause=(\S+)', c.get('detail', ''))
        eng = re.search(r'found by (\S+?)[;-]', c.get('detail', ''))
        dets.append('%s %s: %s%s' % (p, c.get('tier'), 'caught' if c.get('detected') else 'MISSED', (' (%s%s)' % (cl.group(1), ', ' + eng.group(1) if eng else '')) if cl else ''))
    rnd = d.get('round') or ''
    kind = 'white-box red team' if 'red team' in rnd else 'adversarial (told what is covered)' if rnd.startswith('adversarial') else 'independent'
    rows.append((sid, d.get('property'), kind, d.get('suite_with_change', '?').replace('Checks: ', ''), first, '; '.join(dets)))
out = ['# Seeded changes (seeded/: produced by sub-agents that saw only the property text) and red-team changes (redteam/: producers could read /verif)', '',
       'The last column is the FINAL result, after the repairs described in DESIGN.md section 7; what was missed at first is recorded there.', '',
       '| id | property | round | suite with change | what it needs (from the producer\'s notes) | our checks |', '|---|---|---|---|---|---|']
for r in rows:
    out.append('| %s | %s | %s | %s | %s | %s |' % r)
res = os.path.join(V, 'mutants', 'RESULTS.txt')
if os.path.exists(res):
    out += ['', '# Own mutants (mutants/*.diff, quick tier)', '', '```'] + [l.rstrip() for l in open(res)] + ['```']
open(os.path.join(V, 'notes', 'sensitivity.md'), 'w').write('\n'.join(out) + '\n')
print('%d seeded rows' % len(rows))
