/*
 * C15 / red team round 2, change 2 -- demonstration
 *
 * A cstl_map used as a set of names: every entry has a heap-allocated key and
 * no value (val == NULL).  A second map stores a value for some entries only.
 * cstl_map_clear() must invoke the callback exactly once for every contained
 * entry (that is where the client frees its keys) and for nothing else, and
 * leave the map empty.
 */
#include <stdio.h>
#include <stdlib.h>
#include <string.h>

#include "cstl/map.h"

static int failures;
#define FAILF(...) do { printf("  violated: " __VA_ARGS__); printf("\n"); failures++; } while (0)

static int cmp_str(const void * const a, const void * const b, void * const p)
{
    (void)p;
    return strcmp(a, b);
}

static char * dupstr(const char * const s)
{
    char * const d = malloc(strlen(s) + 1);
    strcpy(d, s);
    return d;
}

#define MAXN 8
struct handed {
    int n;
    char names[MAXN][16];
};

static void release(void * const e, void * const p)
{
    cstl_map_iterator_t * const i = e;
    struct handed * const h = p;

    if (h->n < MAXN) {
        strncpy(h->names[h->n], i->key, sizeof(h->names[0]) - 1);
        h->names[h->n][sizeof(h->names[0]) - 1] = '\0';
    }
    h->n++;
    free((void *)i->key);
    free(i->val);
}

static int was_handed(const struct handed * const h, const char * const name)
{
    int i, c = 0;
    for (i = 0; i < h->n && i < MAXN; i++) {
        if (strcmp(h->names[i], name) == 0) {
            c++;
        }
    }
    return c;
}

static void check(const char * const what, cstl_map_t * const m,
                  const char * const * const names, const int n)
{
    struct handed h;
    int i;

    memset(&h, 0, sizeof(h));
    cstl_map_clear(m, release, &h);
    if (h.n != n) {
        FAILF("%s: clear made %d callback(s) for %d contained entries", what, h.n, n);
    }
    for (i = 0; i < n; i++) {
        const int c = was_handed(&h, names[i]);
        if (c != 1) {
            FAILF("%s: entry \"%s\" was handed to the callback %d time(s) (its key is %s)",
                  what, names[i], c, c == 0 ? "leaked" : "freed twice");
        }
    }
    if (cstl_map_size(m) != 0) {
        FAILF("%s: size %zu after clear", what, cstl_map_size(m));
    }
}

int main(void)
{
    static const char * const set_names[] = { "delta", "alpha", "echo", "bravo", "charlie" };
    static const char * const mixed_names[] = { "one", "two", "three", "four" };
    cstl_map_t set, mixed;
    int i;

    /* 1. the map as a set: keys only */
    cstl_map_init(&set, cmp_str, NULL);
    for (i = 0; i < 5; i++) {
        if (cstl_map_insert(&set, dupstr(set_names[i]), NULL, NULL) != 0) {
            FAILF("insert failed");
        }
    }
    printf("set of 5 names (no values), then clear:\n");
    check("set", &set, set_names, 5);

    /* 2. values for some entries only */
    cstl_map_init(&mixed, cmp_str, NULL);
    for (i = 0; i < 4; i++) {
        int * v = NULL;
        if (i % 2 == 0) {
            v = malloc(sizeof(*v));
            *v = i;
        }
        if (cstl_map_insert(&mixed, dupstr(mixed_names[i]), v, NULL) != 0) {
            FAILF("insert failed");
        }
    }
    printf("map of 4 names, two of them without a value, then clear:\n");
    check("mixed map", &mixed, mixed_names, 4);

    if (failures != 0) {
        printf("FAIL: %d violation(s): clear did not hand every contained entry to the callback exactly once\n",
               failures);
        return 1;
    }
    printf("PASS: every contained entry reached the callback exactly once, maps empty\n");
    return 0;
}
