// C06: reference counting under every interleaving. src/memory.c is compiled
// against shadow <stdatomic.h>/<sched.h> (../shim) so that every atomic step,
// every interposed malloc/free, the entry of the clear callback and every
// memory touch of a thread script first returns control to a deterministic
// scheduler driven by the generated schedule. Threads are fibres.
//
// case bytes: [T][4 x thread block: cfg, len, op0..op3][schedule bytes...]
//   schedule byte b at a decision point with n runnable fibres picks index b % n
//   of the list [current fibre if runnable, then the others ascending]; when the
//   bytes run out the current fibre continues.
#include "common/verif.hpp"
extern "C" {
#include "cstl/memory.h"
}
#include <ucontext.h>
extern "C" {
void __sanitizer_start_switch_fiber(void **fake_stack_save, const void *bottom, size_t size);
void __sanitizer_finish_switch_fiber(void *fake_stack_save, const void **bottom_old, size_t *size_old);
}
using namespace vf;

const char *vf_harness_name() { return "c06"; }

namespace {
const int MAXT = 4, NSH = 3, NWK = 2;
const size_t STACK = 256 * 1024;
enum ScriptOp { O_SHARE, O_RESET, O_WEAK_FROM, O_LOCK, O_WEAK_RESET, O_UNIQUE, NSOPS };
const char *SOPN[] = {"share", "reset", "weak_from", "lock", "weak_reset", "unique"};
enum CurKind { K_NONE, K_SHARE, K_RESET, K_WEAK_FROM, K_LOCK, K_WEAK_RESET, K_UNIQUE };

struct Obj { cstl_shared_ptr_t sp; bool is_owner; bool busy; };

struct Fibre {
    ucontext_t ctx;
    char *stack;
    void *fake;                 // ASan fake stack handle
    bool done, started, parked;
    bool wait_locks;            // inside the clear callback, waiting until no other thread is inside a lock operation
    volatile int *park_addr;
    int saved_in_lib;
    int id;
    uint8_t len, ops[4];
    Obj S[NSH];
    cstl_weak_ptr_t W[NWK];
    bool w_set[NWK];
    bool w_busy[NWK];
    int cur_kind;
    uint64_t hist;              // hash of everything this fibre observed so far
    // lock oracle
    bool lock_active, lock_after_destroy;
    std::set<Obj *> lock_stable;
    // unique() oracle: other references (owner objects / weak slots) held and not operated on during the whole call
    bool uniq_active, uniq_disturbed;
    std::set<const void *> uniq_stable;
    int steps;
};

Fibre F[MAXT];
int T;
ucontext_t sched_ctx;
void *sched_fake;
const void *sched_bottom;
size_t sched_size;
int cur = -1;                   // running fibre, -1 = scheduler
// shared-state shadow
void *g_book, *g_managed;
size_t g_managed_sz;
int g_clr_count, g_managed_frees, g_book_frees;
bool g_destroy_started;
std::map<size_t, size_t> g_atoms;   // offset within the bookkeeping block -> last value
// schedule
const uint8_t *g_sched;
size_t g_sched_n, g_sched_i;
struct Decision { uint8_t choice, n; };
std::vector<Decision> g_dtrace;
bool g_cut;                     // DFS: state already visited -> stop this run
std::unordered_set<uint64_t> *g_visited;
size_t g_prefix_len;
int g_total_steps;
bool g_nt_preempt;              // a preemption inside lock / reset happened
int g_preemptions, g_parks;
bool g_has_clr;
// "stall" schedules (header bit 6, random schedules only): no fibre is ever parked, and the first time a thread finds the
// lock flag taken, its holder is not scheduled for the next few thousand decisions -- a preempted holder, which a spin
// lock must simply outwait (a lock that gives up after a bounded number of retries comes back empty although an owner exists)
bool g_clr_waits;       // scenario flag (header bit 5, random schedules only)
bool g_stall_mode;
int g_flag_holder = -1, g_stall_victim = -1, g_stall_left = 0;
bool g_stall_used;

uint64_t hmix(uint64_t h, uint64_t v) { h ^= v + 0x9E3779B97F4A7C15ull + (h << 6) + (h >> 2); return h * 0xff51afd7ed558ccdull; }

uint64_t state_hash()
{
    uint64_t h = 1469598103934665603ull;
    for (int t = 0; t < T; t++) {
        h = hmix(h, F[t].hist);
        h = hmix(h, (F[t].done ? 1 : 0) | (F[t].parked ? 2 : 0) | (F[t].lock_active ? 4 : 0) | (F[t].lock_after_destroy ? 8 : 0));
        h = hmix(h, F[t].lock_stable.size());
        h = hmix(h, F[t].uniq_stable.size() * 4 + (F[t].uniq_active ? 2 : 0) + (F[t].uniq_disturbed ? 1 : 0));
    }
    for (auto &kv : g_atoms) { h = hmix(h, kv.first); h = hmix(h, kv.second); }
    h = hmix(h, (uint64_t)g_clr_count * 64 + g_managed_frees * 8 + g_book_frees + (g_destroy_started ? 4096 : 0));
    return h;
}

void switch_to_sched()
{
    Fibre &f = F[cur];
    f.saved_in_lib = in_lib;
    __sanitizer_start_switch_fiber(f.done ? nullptr : &f.fake, sched_bottom, sched_size);
    swapcontext(&f.ctx, &sched_ctx);
    const void *b; size_t s;
    __sanitizer_finish_switch_fiber(f.fake, &b, &s);
    in_lib = f.saved_in_lib;
}

// a yield point inside a fibre: returns when the scheduler resumes this fibre
void yield_point(const char *what, uint64_t tag)
{
    if (cur < 0) return;        // setup / teardown run outside the scheduler
    Fibre &f = F[cur];
    f.steps++;
    (void)what;
    f.hist = hmix(f.hist, tag);
    switch_to_sched();
}

void check_book_addr(const volatile void *p, const char *what)
{
    if (cur < 0) return;
    int s = in_lib; in_lib = 0;
    bool ok = g_book && lib_is_live(g_book) && (uintptr_t)p >= (uintptr_t)g_book && (uintptr_t)p < (uintptr_t)g_book + 256;
    if (!ok) verif_fail("C06.book.use_after_free", "%s touches bookkeeping memory %p that is not inside the live bookkeeping block", what, (void *)p);
    in_lib = s;
}
size_t off_of(const volatile void *p) { return g_book ? (size_t)((uintptr_t)p - (uintptr_t)g_book) : 0; }
} // namespace

extern "C" {
// the shim's atomic macros (../shim/stdatomic.h) perform the step themselves; these are the hooks around it
void vfs_pre(int kind, const volatile void *p, size_t sz)
{
    static const char *KN[] = {"", "fetch_add", "fetch_sub", "fetch_or", "fetch_and", "fetch_xor", "exchange", "load", "store",
                               "compare_exchange", "test_and_set", "flag_clear"};
    (void)sz;
    if (cur >= 0) {
        // a spin lock need not call sched_yield: a second test_and_set on the flag this fibre has just lost, with no
        // other atomic step in between and the flag still set, is a pure retry -- the fibre is parked until the
        // flag changes (otherwise the unfair schedule that always picks the spinner would look like a livelock)
        Fibre &f = F[cur];
        if (!g_stall_mode && kind == 10 && f.park_addr == (volatile int *)p && *f.park_addr) { f.parked = true; g_parks++; }
        else f.park_addr = nullptr;
    }
    yield_point(KN[kind % 12], 0x10 + (uint64_t)kind);
    if (g_book && cur >= 0) check_book_addr(p, KN[kind % 12]);
}
void vfs_post(const volatile void *p, size_t sz, unsigned long long observed, unsigned long long now)
{
    (void)sz;
    if (g_book) g_atoms[off_of(p)] = (size_t)now;
    if (cur >= 0) F[cur].hist = hmix(F[cur].hist, observed);
}
void vfs_flag_lost(const volatile void *f)
{
    if (cur < 0) return;
    if (g_stall_mode) {
        if (!g_stall_used && g_flag_holder >= 0 && g_flag_holder != cur) { g_stall_used = true; g_stall_victim = g_flag_holder; g_stall_left = 3000; }
        return;                                                // never parked: the loser really spins
    }
    F[cur].park_addr = (volatile int *)f;       // lost the race: the coming sched_yield parks this fibre
}
void vfs_flag_won(const volatile void *) { if (cur >= 0) g_flag_holder = cur; }
void vfs_flag_cleared(const volatile void *f)
{
    g_flag_holder = -1;
    // wake fibres parked on this flag
    for (int t = 0; t < T; t++) if (F[t].parked && (const volatile void *)F[t].park_addr == f) { F[t].parked = false; F[t].park_addr = nullptr; }
}
int vfs_sched_yield(void)
{
    if (cur >= 0) {
        Fibre &f = F[cur];
        // sound stutter reduction: a fibre that failed test_and_set and yields is parked until the flag changes
        if (f.park_addr && *f.park_addr) { f.parked = true; g_parks++; }
        else f.park_addr = nullptr;
        yield_point("sched_yield", 0x17);
    }
    return 0;
}
}

namespace {
// "cleared / freed only when no owner remains": an owner object that no operation is working on right now holds
// its reference throughout, so the memory must not be destroyed under it
void no_stable_owner(const char *what)
{
    for (int t = 0; t < T; t++)
        for (auto &o : F[t].S)
            if (o.is_owner && !o.busy)
                verif_fail("C06.clear.owner_remains", "%s while thread %d still holds an owning shared pointer (slot %d) that no operation is touching",
                           what, t, (int)(&o - F[t].S));
}
void alloc_hook(char kind, void *p, size_t sz)
{
    // called by the interposer (in_lib already 0) before a library malloc / free is performed
    if (kind == 'f') {
        if (cur >= 0) {
            int s = in_lib;
            yield_point("free", 0x21);
            in_lib = s;
        }
        if (p == g_managed) { g_managed_frees++; g_destroy_started = true; if (T > 0) no_stable_owner("the managed memory is freed"); }
        else if (p == g_book) { g_book_frees++; }
    } else {
        (void)sz;
        if (cur >= 0) { int s = in_lib; yield_point("malloc", 0x22); in_lib = s; }
    }
}
void clr_cb(void *ptr, void *)
{
    HarnessScope hs;
    g_destroy_started = true;
    if (cur >= 0) yield_point("clear_cb", 0x23);
    if (cur >= 0 && g_clr_waits) {
        // a user's clear function may need something another thread holds while that thread is inside weak_ptr_lock (say a
        // registry mutex): it waits until no other thread is in the middle of a lock. Under a correct library those locks
        // can always finish without this thread; if they cannot (they spin on a flag this thread holds), nobody can run.
        F[cur].wait_locks = true;
        yield_point("clear_cb waits", 0x24);
        F[cur].wait_locks = false;
    }
    g_clr_count++;
    if (T > 0) no_stable_owner("the clear callback runs");
    if (ptr != g_managed) verif_fail("C06.clear.ptr", "clear callback received %p, the managed memory is %p", ptr, g_managed);
    if (!lib_is_live(g_managed)) verif_fail("C06.clear.after_free", "clear callback runs after the memory was freed");
}

int g_opseq[MAXT];
void op_begin(Fibre &f, Obj *o, int kind)
{
    f.cur_kind = kind;
    // the code between two yield points is deterministic, so a fibre's local state is determined by
    // which operation of its script it is in, what its objects hold, and what the atomic steps of
    // THIS operation returned so far: restart the observation hash per operation
    f.hist = hmix(1000 + f.id, (uint64_t)++g_opseq[f.id]);
    for (auto &x : f.S) f.hist = hmix(f.hist, x.is_owner ? 3 : 1);
    for (int k = 0; k < NWK; k++) f.hist = hmix(f.hist, f.w_set[k] ? 5 : 2);
    f.hist = hmix(f.hist, (uint64_t)kind * 131 + (o ? (uint64_t)(o - f.S) : 9));
    if (o) {
        o->busy = true;
        // an operation starts on o: it no longer counts as "held throughout" for locks in progress
        for (int t = 0; t < T; t++) if (F[t].lock_active) F[t].lock_stable.erase(o);
    }
    // any operation of another thread that starts while a unique() call is in progress may add or drop a reference
    for (int t = 0; t < T; t++) if (F[t].uniq_active && &F[t] != &f) {
        F[t].uniq_disturbed = true;
        if (o) F[t].uniq_stable.erase(o);
    }
}
void weak_begin(Fibre &f, int k)
{
    f.w_busy[k] = true;
    for (int t = 0; t < T; t++) if (F[t].uniq_active && &F[t] != &f) F[t].uniq_stable.erase(&f.W[k]);
}
void weak_end(Fibre &f, int k) { f.w_busy[k] = false; }
void op_end(Fibre &f, Obj *o)
{
    f.cur_kind = K_NONE;
    if (o) {
        o->busy = false;
        const void *g;
        int s = in_lib;
        LIB(g = cstl_shared_ptr_get_const(&o->sp));
        in_lib = s;
        o->is_owner = g != nullptr;
    }
}
Obj *first_owner(Fibre &f) { for (auto &o : f.S) if (o.is_owner) return &o; return nullptr; }
Obj *free_slot(Fibre &f, Obj *not_this) { for (auto &o : f.S) if (!o.is_owner && &o != not_this) return &o; for (auto &o : f.S) if (&o != not_this) return &o; return &f.S[0]; }

void touch(Fibre &f, Obj *o, const char *when)
{
    void *m;
    LIB(m = cstl_shared_ptr_get(&o->sp));
    if (!m) return;
    if (m != g_managed) verif_fail("C06.lock.ptr", "locked owner yields %p, the managed memory is %p", m, g_managed);
    if (!lib_is_live(g_managed) || g_destroy_started)
        verif_fail("C06.lock.live", "thread %d holds an owner obtained by lock, but the memory is %s (%s)", f.id,
                   lib_is_live(g_managed) ? "being destroyed" : "freed", when);
    memset(m, 0x40 + f.id, 16);     // ASan checks the access itself
}

void do_op(Fibre &f, int op, uint8_t arg)
{
    switch (op) {
    case O_SHARE: {
        Obj *src = first_owner(f);
        if (!src) { CNT("noop.share"); return; }
        Obj *dst = free_slot(f, src);
        op_begin(f, dst, K_SHARE);
        LIB(cstl_shared_ptr_share(&src->sp, &dst->sp));
        op_end(f, dst);
        break;
    }
    case O_RESET: {
        Obj *o = first_owner(f);
        if (!o) { CNT("noop.reset"); return; }
        op_begin(f, o, K_RESET);
        LIB(cstl_shared_ptr_reset(&o->sp));
        op_end(f, o);
        break;
    }
    case O_WEAK_FROM: {
        Obj *src = first_owner(f);
        if (!src) { CNT("noop.weak_from"); return; }
        int k = arg % NWK;
        op_begin(f, nullptr, K_WEAK_FROM);
        weak_begin(f, k);
        LIB(cstl_weak_ptr_from(&f.W[k], &src->sp));
        f.w_set[k] = true;
        weak_end(f, k);
        op_end(f, nullptr);
        break;
    }
    case O_LOCK: {
        int k = arg % NWK;
        if (!f.w_set[k]) k = (k + 1) % NWK;
        if (!f.w_set[k]) { CNT("noop.lock"); return; }
        Obj *dst = (arg & 4) ? &f.S[(arg >> 3) % NSH] : free_slot(f, nullptr);
        op_begin(f, dst, K_LOCK);
        // oracle bookkeeping at the start of the lock
        f.lock_active = true;
        f.lock_after_destroy = g_destroy_started;
        f.lock_stable.clear();
        for (int t = 0; t < T; t++) for (auto &o : F[t].S) if (o.is_owner && !o.busy && &o != dst) f.lock_stable.insert(&o);
        LIB(cstl_weak_ptr_lock(&f.W[k], &dst->sp));
        f.lock_active = false;
        op_end(f, dst);
        bool got = dst->is_owner;
        if (got) CNT("class.lock.owner"); else CNT("class.lock.failed");
        if (!f.lock_stable.empty() && !got)
            verif_fail("C06.lock.must_succeed", "thread %d: lock failed although an owner was held during the whole lock", f.id);
        if (f.lock_after_destroy && got)
            verif_fail("C06.lock.must_fail", "thread %d: lock yielded an owner although destruction of the memory had begun before the lock started", f.id);
        f.lock_stable.clear();
        if (got) {
            touch(f, dst, "right after lock");
            yield_point("touch", 0x31);
            touch(f, dst, "later, before its reset");
            op_begin(f, dst, K_RESET);
            LIB(cstl_shared_ptr_reset(&dst->sp));
            op_end(f, dst);
        }
        break;
    }
    case O_WEAK_RESET: {
        int k = arg % NWK;
        op_begin(f, nullptr, K_WEAK_RESET);
        weak_begin(f, k);
        LIB(cstl_weak_ptr_reset(&f.W[k]));
        f.w_set[k] = false;
        weak_end(f, k);
        op_end(f, nullptr);
        break;
    }
    case O_UNIQUE: {
        Obj *o = first_owner(f);
        if (!o) { CNT("noop.unique"); return; }
        f.cur_kind = K_UNIQUE;
        f.hist = hmix(2000 + f.id, (uint64_t)++g_opseq[f.id]);
        // references other than o itself that are held and not being operated on right now
        f.uniq_stable.clear();
        size_t others_any = 0;
        for (int t = 0; t < T; t++) {
            for (auto &x : F[t].S) if (&x != o) { if (x.is_owner || x.busy) others_any++; if (x.is_owner && !x.busy) f.uniq_stable.insert(&x); }
            for (int k = 0; k < NWK; k++) { if (F[t].w_set[k] || F[t].w_busy[k]) others_any++; if (F[t].w_set[k] && !F[t].w_busy[k]) f.uniq_stable.insert(&F[t].W[k]); }
        }
        bool others_busy_op = false;
        for (int t = 0; t < T; t++) if (&F[t] != &f && F[t].cur_kind != K_NONE) others_busy_op = true;
        f.uniq_disturbed = others_busy_op;
        f.uniq_active = true;
        bool u;
        LIB(u = cstl_shared_ptr_unique(&o->sp));
        f.uniq_active = false;
        f.cur_kind = K_NONE;
        if (u) CNT("class.unique.true"); else CNT("class.unique.false");
        if (!f.uniq_stable.empty() && u)
            verif_fail("C06.unique.must_be_false", "thread %d: unique() returned true although another shared or weak reference was held during the whole call", f.id);
        if (others_any == 0 && !f.uniq_disturbed && !u)
            verif_fail("C06.unique.must_be_true", "thread %d: unique() returned false although no other reference existed during the call", f.id);
        f.uniq_stable.clear();
        break;
    }
    }
}

void fibre_main(int id)
{
    // first entry: learn the scheduler's (main) stack bounds for the switches back
    __sanitizer_finish_switch_fiber(nullptr, &sched_bottom, &sched_size);
    Fibre &f = F[id];
    in_lib = 0;
    yield_point("start", 0x01);
    for (int i = 0; i < f.len; i++) do_op(f, f.ops[i] % NSOPS, f.ops[i] / NSOPS);
    // every thread finally lets go of everything it holds
    for (auto &o : f.S) if (o.is_owner) { op_begin(f, &o, K_RESET); LIB(cstl_shared_ptr_reset(&o.sp)); op_end(f, &o); }
    for (int k = 0; k < NWK; k++) if (f.w_set[k]) { op_begin(f, nullptr, K_WEAK_RESET); weak_begin(f, k); LIB(cstl_weak_ptr_reset(&f.W[k])); f.w_set[k] = false; weak_end(f, k); op_end(f, nullptr); }
    f.done = true;
    switch_to_sched();
    abort();    // never resumed
}
void fibre_entry(int id) { fibre_main(id); }

// returns false when the run was cut (DFS pruning)
bool run_scheduler()
{
    int last = -1;
    for (;;) {
        std::vector<int> runnable;
        bool unfinished = false;
        for (int t = 0; t < T; t++) if (!F[t].done) {
            unfinished = true;
            bool blocked = F[t].parked;
            if (F[t].wait_locks) for (int u = 0; u < T; u++) if (u != t && !F[u].done && F[u].cur_kind == K_LOCK) blocked = true;
            if (!blocked) runnable.push_back(t);
        }
        if (!unfinished) return true;
        if (g_stall_left > 0) {
            g_stall_left--;
            auto it = std::find(runnable.begin(), runnable.end(), g_stall_victim);
            if (it != runnable.end() && runnable.size() > 1) runnable.erase(it);
            else g_stall_left = 0;          // nobody else can run: the stall is over
            if (g_stall_left == 0) g_stall_mode = false;     // from here on the ordinary rules (parking) apply again
        }
        if (runnable.empty())
            verif_fail("C06.liveness.deadlock", "every unfinished thread waits (for the lock flag, or in its clear function for a lock operation of another thread to finish): no thread can make progress");
        if (++g_total_steps > (g_stall_mode ? 60000 : 20000))
            verif_fail("C06.liveness.steps", "scenario did not terminate within 20000 scheduling steps");
        // order: current fibre first if runnable
        std::vector<int> order;
        if (last >= 0 && std::find(runnable.begin(), runnable.end(), last) != runnable.end()) order.push_back(last);
        for (int t : runnable) if (t != last || order.empty() || order[0] != last) if (std::find(order.begin(), order.end(), t) == order.end()) order.push_back(t);
        int pick = 0;
        if (order.size() > 1) {
            size_t di = g_dtrace.size();
            if (g_visited && di >= g_prefix_len) {
                uint64_t h = hmix(state_hash(), (uint64_t)last + 7);
                if (!g_visited->insert(h).second) { g_cut = true; return false; }
            }
            if (g_sched_i < g_sched_n) pick = g_sched[g_sched_i++] % order.size();
            g_dtrace.push_back({(uint8_t)pick, (uint8_t)order.size()});
        }
        int next = order[pick];
        if (last >= 0 && next != last && !F[last].done && !F[last].parked) {
            g_preemptions++;
            if (F[last].cur_kind == K_LOCK || F[last].cur_kind == K_RESET) g_nt_preempt = true;
        }
        last = next;
        cur = next;
        __sanitizer_start_switch_fiber(&sched_fake, F[next].stack, STACK);
        swapcontext(&sched_ctx, &F[next].ctx);
        __sanitizer_finish_switch_fiber(sched_fake, nullptr, nullptr);
        cur = -1;
        in_lib = 0;
    }
}

char *g_stacks[MAXT];

void setup_scenario(Cursor &c)
{
    uint8_t hb = c.u8();
    T = 2 + (hb & 0x1f) % 3;
    g_clr_waits = (hb & 0x20) && !g_visited;
    g_book = g_managed = nullptr;
    g_clr_count = g_managed_frees = g_book_frees = 0;
    g_destroy_started = false;
    g_atoms.clear();
    g_total_steps = 0;
    memset(g_opseq, 0, sizeof g_opseq);
    g_nt_preempt = false;
    g_preemptions = g_parks = 0;
    cur = -1;
    uint8_t cfg[MAXT], len[MAXT], ops[MAXT][4];
    for (int t = 0; t < MAXT; t++) { cfg[t] = c.u8(); len[t] = c.u8(); for (int i = 0; i < 4; i++) ops[t][i] = c.u8(); }
    g_stall_mode = (hb & 0x40) && !g_visited;      // (never under the exhaustive search: its pruning assumes parking)
    g_flag_holder = g_stall_victim = -1;
    g_stall_left = 0;
    g_stall_used = false;
    g_has_clr = !(hb & 0x80);      // memory without a clear callback (what the library's own arrays use) is a scenario too
    // the allocation, made by the main thread before the others start
    cstl_shared_ptr_t root;
    cstl_shared_ptr_init(&root);
    g_managed_sz = 1000;
    g_record_events = true;
    events_clear();
    LIB(cstl_shared_ptr_alloc(&root, g_managed_sz, g_has_clr ? clr_cb : nullptr));
    for (auto &e : *g_events) if (e.kind == 'm') { if (e.sz >= 1000) g_managed = e.p; else g_book = e.p; }
    g_record_events = false;
    if (!g_managed || !g_book) { g_out_of_scope = true; return; }
    // seed the shadow of the atomics from what init stored
    for (int t = 0; t < T; t++) {
        Fibre &f = F[t];
        f.id = t;
        f.done = f.started = f.parked = false;
        f.wait_locks = false;
        f.park_addr = nullptr;
        f.saved_in_lib = 0;
        f.fake = nullptr;
        f.cur_kind = K_NONE;
        f.hist = 77 + t;
        f.lock_active = f.lock_after_destroy = false;
        f.lock_stable.clear();
        f.uniq_active = f.uniq_disturbed = false;
        f.uniq_stable.clear();
        f.w_busy[0] = f.w_busy[1] = false;
        f.steps = 0;
        f.len = 1 + len[t] % 4;
        memcpy(f.ops, ops[t], 4);
        int owners = cfg[t] % 3, weaks = (cfg[t] / 3) % 3;
        for (int i = 0; i < NSH; i++) { cstl_shared_ptr_init(&f.S[i].sp); f.S[i].is_owner = f.S[i].busy = false; }
        for (int k = 0; k < NWK; k++) { cstl_weak_ptr_init(&f.W[k]); f.w_set[k] = false; }
        for (int i = 0; i < owners; i++) { LIB(cstl_shared_ptr_share(&root, &f.S[i].sp)); f.S[i].is_owner = true; }
        for (int k = 0; k < weaks; k++) { LIB(cstl_weak_ptr_from(&f.W[k], &root)); f.w_set[k] = true; }
        if (!g_stacks[t]) g_stacks[t] = (char *)malloc(STACK);
        f.stack = g_stacks[t];
        getcontext(&f.ctx);
        f.ctx.uc_stack.ss_sp = f.stack;
        f.ctx.uc_stack.ss_size = STACK;
        f.ctx.uc_link = nullptr;
        makecontext(&f.ctx, (void (*)())fibre_entry, 1, t);
    }
    LIB(cstl_shared_ptr_reset(&root));     // main lets go before the threads start
}

void final_checks()
{
    CHECK(g_clr_count == (g_has_clr ? 1 : 0), "C06.clear.once", "clear callback ran %d times", g_clr_count);
    CHECK(g_managed_frees == 1, "C06.free.once", "managed memory freed %d times", g_managed_frees);
    CHECK(g_book_frees == 1, "C06.book.once", "bookkeeping block freed %d times", g_book_frees);
    CHECK(lib_live_count() == 0, "C06.leak", "%zu library allocations still live after every thread let go", lib_live_count());
}

std::string scenario_str()
{
    std::string s;
    for (int t = 0; t < T; t++) {
        int ow = 0, wk = 0;
        (void)ow; (void)wk;
        s += "T" + std::to_string(t) + "[";
        for (int i = 0; i < F[t].len; i++) { s += SOPN[F[t].ops[i] % NSOPS]; s += i + 1 < F[t].len ? "," : ""; }
        s += "] ";
    }
    return s;
}

// run one (scenario, schedule); with visited != nullptr: DFS mode with pruning beyond prefix_len decisions
bool run_one(const uint8_t *data, size_t len, std::unordered_set<uint64_t> *visited, size_t prefix_len)
{
    Cursor c(data, len);
    g_alloc_hook = alloc_hook;      // counts frees during setup too; yields only inside fibres
    g_visited = visited;
    setup_scenario(c);
    if (g_out_of_scope) return true;
    g_sched = data + c.i;
    g_sched_n = len > c.i ? len - c.i : 0;
    g_sched_i = 0;
    g_dtrace.clear();
    g_cut = false;
    g_visited = visited;
    g_prefix_len = prefix_len;
    g_alloc_hook = alloc_hook;
    bool complete = run_scheduler();
    g_alloc_hook = nullptr;
    g_visited = nullptr;
    if (!complete) { lib_release_all(); return false; }
    final_checks();
    return true;
}
} // namespace

void vf_run(const uint8_t *data, size_t len)
{
    run_one(data, len, nullptr, 0);
    if (g_out_of_scope) return;
    if (g_dtrace.size() && g_dtrace.size() < 300 && g_dtrace.size() > 0 && vf::g_trace) {
        std::string s;
        for (auto &d : g_dtrace) s += std::to_string(d.choice) + "/" + std::to_string(d.n) + " ";
        TRACE("scenario threads=%d %s", T, scenario_str().c_str());
        TRACE("schedule decisions (choice/alternatives): %s", s.c_str());
        TRACE("preemptions=%d parked_on_flag=%d clear=%d managed_frees=%d book_frees=%d", g_preemptions, g_parks, g_clr_count, g_managed_frees, g_book_frees);
    } else if (vf::g_trace) {
        TRACE("scenario threads=%d %s; %zu decisions, preemptions=%d parked=%d", T, scenario_str().c_str(), g_dtrace.size(), g_preemptions, g_parks);
    }
    g_nontrivial = g_nt_preempt;
    CNTN("decisions", g_dtrace.size());
    CNTN("preemptions", g_preemptions);
    CNTN("class.parked_on_flag", g_parks);
    cnt_dyn("class.threads." + std::to_string(T));
}

void vf_gen(Rng &r, std::vector<uint8_t> &out)
{
    // random scenario + PCT-like schedule (mostly "continue", a few preemptions)
    out.push_back((uint8_t)(r.below(31) | (r.chance(1, 4) ? 0x80 : 0) | (r.chance(1, 25) ? 0x40 : 0) | (r.chance(1, 5) ? 0x20 : 0)));      // threads; 1 in 4 without a clear callback; 1 in 25 with a stalled lock holder
    for (int t = 0; t < MAXT; t++) {
        out.push_back(r.byte());
        out.push_back(r.byte());
        for (int i = 0; i < 4; i++) {
            // bias towards lock / reset
            uint8_t op = r.chance(1, 2) ? (uint8_t)(r.chance(1, 2) ? O_LOCK : O_RESET) : (uint8_t)r.below(NSOPS);   // (unique among them)
            out.push_back((uint8_t)(op + NSOPS * r.below(50)));
        }
    }
    size_t n = 20 + r.below(200);
    int density = 2 + (int)r.below(10);
    for (size_t i = 0; i < n; i++) out.push_back(r.below((uint32_t)density) == 0 ? r.byte() : 0);
}

bool vf_scope(const std::string &, Scope &) { return false; }

namespace {
// G5a: every schedule of one scenario by stateless DFS with visited-state pruning
struct DfsResult { uint64_t schedules, cut, nontrivial, max_decisions, states; };
DfsResult dfs_scenario(const std::vector<uint8_t> &scen, std::unordered_set<uint64_t> &hashes, uint64_t cap, bool prune,
                       std::vector<uint8_t> *sample)
{
    DfsResult R{0, 0, 0, 0, 0};
    std::unordered_set<uint64_t> visited;
    std::vector<Decision> prefix;
    std::vector<uint8_t> c;
    for (;;) {
        c = scen;
        for (auto &d : prefix) c.push_back(d.choice);
        g_cur.put(c.data(), c.size());
        case_reset();
        bool complete = run_one(c.data(), c.size(), prune ? &visited : nullptr, prefix.size());
        R.schedules++;
        if (!complete) R.cut++;
        else {
            if (g_nt_preempt) {
                R.nontrivial++;
                std::vector<uint8_t> full = scen;
                for (auto &d : g_dtrace) full.push_back(d.choice);
                if (hashes.size() < HASH_CAP) hashes.insert(fnv64(full.data(), full.size()));
                if (sample && sample->empty()) *sample = full;
            }
        }
        if (g_dtrace.size() > R.max_decisions) R.max_decisions = g_dtrace.size();
        // backtrack
        prefix = g_dtrace;
        while (!prefix.empty() && prefix.back().choice + 1 >= prefix.back().n) prefix.pop_back();
        if (prefix.empty()) break;
        prefix.back().choice++;
        if (R.schedules >= cap) break;
    }
    R.states = visited.size();
    return R;
}

void put_thread(std::vector<uint8_t> &s, int owners, int weaks, const std::vector<int> &ops)
{
    s.push_back((uint8_t)(owners + 3 * weaks));
    s.push_back((uint8_t)(ops.empty() ? 0 : ops.size() - 1));
    for (int i = 0; i < 4; i++) s.push_back(i < (int)ops.size() ? (uint8_t)ops[i] : 0);
}

int engine_g5a(const std::string &catalogue, uint64_t cap, const std::string &outdir, const std::string &tag, unsigned part, unsigned nparts)
{
    double t0 = now_s();
    g_cur.open(outdir + "/cur-g5a-" + tag + ".case");
    std::vector<std::vector<uint8_t>> scen;
    // op codes with argument: LOCK into a free slot (arg 0), LOCK into slot0 even if occupied (arg 4)
    const int LOCKF = O_LOCK, LOCKO = O_LOCK + NSOPS * 4;
    std::vector<std::vector<int>> scripts1 = {{O_RESET}, {LOCKF}, {O_SHARE}, {O_WEAK_FROM}, {O_WEAK_RESET}, {LOCKO}, {O_UNIQUE}};
    std::vector<std::vector<int>> scripts2 = {{O_RESET}, {LOCKF}, {LOCKF, LOCKF}, {O_SHARE, O_RESET}, {O_RESET, LOCKF}, {LOCKF, O_WEAK_RESET},
                                              {O_WEAK_FROM, O_RESET}, {LOCKO}, {O_SHARE, O_RESET, O_RESET}, {O_WEAK_RESET}, {O_RESET, O_RESET},
                                              {O_UNIQUE}, {O_UNIQUE, O_RESET}, {O_SHARE, O_UNIQUE}};
    auto cfgs = std::vector<std::pair<int, int>>{{1, 0}, {0, 1}, {1, 1}, {2, 0}, {0, 2}, {2, 1}};
    if (catalogue == "two") {
        for (auto &c0 : cfgs) for (auto &c1 : cfgs) for (auto &s0 : scripts2) for (auto &s1 : scripts2) {
            std::vector<uint8_t> s;
            s.push_back(0);   // T = 2
            put_thread(s, c0.first, c0.second, s0);
            put_thread(s, c1.first, c1.second, s1);
            put_thread(s, 0, 0, {});
            put_thread(s, 0, 0, {});
            scen.push_back(s);
        }
    } else if (catalogue == "two-small") {
        auto cf = std::vector<std::pair<int, int>>{{1, 0}, {0, 1}, {1, 1}};
        for (auto &c0 : cf) for (auto &c1 : cf) for (auto &s0 : scripts2) for (auto &s1 : scripts2) {
            std::vector<uint8_t> s;
            s.push_back(0);
            put_thread(s, c0.first, c0.second, s0);
            put_thread(s, c1.first, c1.second, s1);
            put_thread(s, 0, 0, {});
            put_thread(s, 0, 0, {});
            scen.push_back(s);
        }
    } else if (catalogue == "two-all") {
        // every script of length <= 2 over the seven operations, for both threads, in every small configuration
        std::vector<std::vector<int>> all2;
        for (auto &a : scripts1) all2.push_back(a);
        for (auto &a : scripts1) for (auto &b : scripts1) all2.push_back({a[0], b[0]});
        auto cf = std::vector<std::pair<int, int>>{{1, 0}, {0, 1}, {1, 1}};
        for (auto &c0 : cf) for (auto &c1 : cf) for (auto &s0 : all2) for (auto &s1 : all2) {
            if (c0.first + c1.first == 0) continue;      // nobody owns anything: nothing to destroy
            std::vector<uint8_t> s;
            s.push_back(0);
            put_thread(s, c0.first, c0.second, s0);
            put_thread(s, c1.first, c1.second, s1);
            put_thread(s, 0, 0, {});
            put_thread(s, 0, 0, {});
            scen.push_back(s);
        }
    } else if (catalogue == "three") {
        // last owner resets || two lockers; locker + sharer + resetter; ...
        auto cf3 = std::vector<std::vector<std::pair<int, int>>>{
            {{1, 0}, {0, 1}, {0, 1}}, {{1, 1}, {0, 1}, {1, 0}}, {{1, 0}, {1, 1}, {0, 1}}, {{0, 1}, {0, 1}, {0, 1}}, {{1, 1}, {1, 1}, {1, 1}}};
        for (auto &cf : cf3) for (auto &s0 : scripts1) for (auto &s1 : scripts1) for (auto &s2 : scripts1) {
            for (int noclr = 0; noclr < 2; noclr++) {
                std::vector<uint8_t> s;
                s.push_back((uint8_t)(1 | (noclr ? 0x80 : 0)));   // T = 3; with and without a clear callback
                put_thread(s, cf[0].first, cf[0].second, s0);
                put_thread(s, cf[1].first, cf[1].second, s1);
                put_thread(s, cf[2].first, cf[2].second, s2);
                put_thread(s, 0, 0, {});
                scen.push_back(s);
            }
        }
    } else if (catalogue == "four") {
        std::vector<std::vector<int>> sc = {{O_RESET}, {LOCKF}, {O_WEAK_RESET}};
        auto cf4 = std::vector<std::vector<std::pair<int, int>>>{{{1, 0}, {0, 1}, {0, 1}, {0, 1}}, {{1, 1}, {1, 1}, {0, 1}, {0, 1}}};
        for (auto &cf : cf4) for (auto &s0 : sc) for (auto &s1 : sc) for (auto &s2 : sc) for (auto &s3 : sc) {
            std::vector<uint8_t> s;
            s.push_back(2);   // T = 4
            put_thread(s, cf[0].first, cf[0].second, s0);
            put_thread(s, cf[1].first, cf[1].second, s1);
            put_thread(s, cf[2].first, cf[2].second, s2);
            put_thread(s, cf[3].first, cf[3].second, s3);
            scen.push_back(s);
        }
    } else { fprintf(stderr, "unknown catalogue\n"); return 2; }
    std::unordered_set<uint64_t> hashes;
    uint64_t total = 0, cut = 0, nontriv = 0, maxdec = 0, states = 0, capped = 0;
    std::vector<uint8_t> sample, sample2;
    size_t mine = 0;
    for (size_t i = 0; i < scen.size(); i++) {
        if (i % nparts != part) continue;
        mine++;
        DfsResult r = dfs_scenario(scen[i], hashes, cap, true, sample.empty() ? &sample : (i == scen.size() / 2 ? &sample2 : nullptr));
        total += r.schedules; cut += r.cut; nontriv += r.nontrivial; states += r.states;
        if (r.max_decisions > maxdec) maxdec = r.max_decisions;
        if (r.schedules >= cap) capped++;
    }
    std::vector<uint8_t> none;
    g_cur.put(none.data(), 0);
    std::vector<Sample> samples;
    if (!sample.empty()) samples.push_back(take_sample(sample));
    if (!sample2.empty()) samples.push_back(take_sample(sample2));
    if (samples.empty() && !scen.empty()) samples.push_back(take_sample(scen[0]));
    char extra[400];
    snprintf(extra, sizeof extra,
             "\"scope\":\"catalogue %s\",\"scenarios\":%zu,\"schedules_cut_by_visited_state\":%llu,\"states\":%llu,"
             "\"max_decisions\":%llu,\"exhaustive\":%s,\"scenarios_capped\":%llu",
             catalogue.c_str(), mine, (unsigned long long)cut, (unsigned long long)states, (unsigned long long)maxdec,
             capped ? "false" : "true", (unsigned long long)capped);
    write_stats(outdir + "/stats-g5a-" + tag, "g5a-dfs", total, nontriv, hashes, samples, now_s() - t0, extra);
    return 0;
}
} // namespace

int vf_custom(int argc, char **argv)
{
    // g5a <catalogue> <per-scenario cap> <outdir> <tag>
    // g5a <catalogue> <per-scenario schedule cap> <outdir> <tag> [<part> <nparts>]
    if (argc >= 5 && !strcmp(argv[0], "g5a"))
        return engine_g5a(argv[1], strtoull(argv[2], 0, 0), argv[3], argv[4], argc >= 7 ? (unsigned)atoi(argv[5]) : 0,
                          argc >= 7 ? (unsigned)atoi(argv[6]) : 1);
    fprintf(stderr, "unknown engine\n");
    return 2;
}
