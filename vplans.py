"""Per-property plans for vcheck: which harnesses, engines, scopes and budgets."""
import os

# hdr = header bytes, rec = bytes per op record (used by the shrinker)
HARNESS = {
    'slist': dict(src=['h_slist.cpp'], hdr=5, rec=3),
    'tree': dict(src=['h_tree.cpp', 'h_static_init.c'], hdr=5, rec=3),
    'heap': dict(src=['h_heap.cpp', 'h_static_init.c'], hdr=4, rec=3),
    'map': dict(src=['h_map.cpp'], hdr=5, rec=3),
    'hash': dict(src=['h_hash.cpp', 'h_static_init.c'], hdr=7, rec=4, ldflags=['-Wl,--allow-multiple-definition']),
    'mem': dict(src=['h_mem.cpp'], hdr=4, rec=3),
    'c06t': dict(src=['h_c06t.cpp'], hdr=0, rec=0, lib_only=['memory', 'common']),
    'stray': dict(src=['h_stray.cpp'], hdr=6, rec=1),
    'dlist': dict(src=['h_dlist.cpp'], hdr=5, rec=3),
    'vector': dict(src=['h_vector.cpp', 'h_static_init.c'], hdr=6, rec=5),
    'string': dict(src=['h_string.cpp', 'h_string_adapter.c'], deps=['h_string_adapter.h'], hdr=4, rec=6),
    'sort': dict(src=['h_sort.cpp'], hdr=10, rec=3),
    'array': dict(src=['h_array.cpp'], hdr=5, rec=7),
    # memory.c compiled against the shadow <stdatomic.h>/<sched.h>; hdr = T + 4 thread blocks of 6 bytes; rec = 1 schedule byte
    'c06': dict(src=['h_c06.cpp'], hdr=25, rec=1, shim='shim', libtag='shim', lib_only=['memory', 'common']),
}

def rel_share(ctx, harness, variant, workers):
    if variant != 'asan' or not ctx['exes'].get((harness, 'rel')):
        return 0
    return workers // 4 if workers >= 8 else (1 if workers >= 3 else 0)

def g2_jobs(harness, cases_per_worker, workers=16, variant='asan', tagx=''):
    def mk(ctx, Job):
        n = max(1, int(cases_per_worker * ctx['budget']))
        jobs = []
        # quick tier: a share of the workers runs against the shipped configuration of the tree (gcc -O2 -DNDEBUG)
        nrel = rel_share(ctx, harness, variant, workers)
        for w in range(workers):
            var = 'rel' if w >= workers - nrel else variant
            exe = ctx['exes'][(harness, var)]
            wid = ctx.get('next_wid', 0)      # unique per run: names the cur-/stats- files and keys the PRNG stream
            ctx['next_wid'] = wid + 1
            jobs.append(Job('g2-%s-%s%s-%d' % (harness, var, tagx, w),
                            [exe, '--prop', ctx['prop']] + HARNESS[harness].get('replay_args', []) +
                            ['g2', str(ctx['seed']), str(wid), str(n), ctx['outdir']],
                            ctx['outdir'], cur=os.path.join(ctx['outdir'], 'cur-g2-%d.case' % wid),
                            harness=harness, exe=exe, prop=ctx['prop']))
        return jobs
    return mk

def g1_jobs(harness, scopes, cap, variant='asan'):
    def mk(ctx, Job):
        jobs = []
        todo = [(i, sc, variant) for i, sc in enumerate(scopes)]
        if rel_share(ctx, harness, variant, 16) and scopes:
            todo.append((len(scopes), scopes[0], 'rel'))       # the first scope again on the shipped configuration
        for i, sc, var in todo:
            exe = ctx['exes'][(harness, var)]
            tag = '%s-%s-%d' % (harness, var, i)
            jobs.append(Job('g1-' + tag,
                            [exe, '--prop', ctx['prop']] + HARNESS[harness].get('replay_args', []) +
                            ['g1', sc, str(cap), ctx['outdir'], tag],
                            ctx['outdir'], cur=os.path.join(ctx['outdir'], 'cur-g1-%s.case' % tag),
                            harness=harness, exe=exe, prop=ctx['prop']))
        return jobs
    return mk

def g7_jobs(harness, scripts_per_worker, workers=16, pair_max=12, variant='asan'):
    def mk(ctx, Job):
        n = max(1, int(scripts_per_worker * ctx['budget']))
        jobs = []
        nrel = rel_share(ctx, harness, variant, workers)
        for w in range(workers):
            var = 'rel' if w >= workers - nrel else variant
            exe = ctx['exes'][(harness, var)]
            wid = ctx.get('next_wid', 0)
            ctx['next_wid'] = wid + 1
            jobs.append(Job('g7-%s-%s-%d' % (harness, var, w),
                            [exe, '--prop', ctx['prop']] + HARNESS[harness].get('replay_args', []) +
                            ['g7', str(ctx['seed']), str(wid), str(n), ctx['outdir'], str(pair_max)],
                            ctx['outdir'], cur=os.path.join(ctx['outdir'], 'cur-g7-%d.case' % wid),
                            harness=harness, exe=exe, prop=ctx['prop']))
        return jobs
    return mk

def custom_jobs(harness, name, args, variant='asan'):
    """a harness-specific engine: <exe> --prop P <args...> ; args may contain {out}"""
    def mk(ctx, Job):
        exe = ctx['exes'][(harness, variant)]
        a = [x.format(out=ctx['outdir']) for x in args]
        return [Job('%s-%s' % (name, harness), [exe, '--prop', ctx['prop']] + a, ctx['outdir'],
                    cur=os.path.join(ctx['outdir'], 'cur-%s.case' % name), harness=harness, exe=exe, prop=ctx['prop'])]
    return mk

def sort_scopes(thorough):
    sc = []
    big, small = (9, 7) if thorough else (7, 5)
    qbig, qsmall = (5, 4) if thorough else (4, 0)
    k = 0
    for entry in (0, 1, 2):
        for es in range(8):
            main = es in (0, 2, 5)
            L = big if main else small
            for sel in range(9):
                if sel == 8 and entry == 0:
                    continue
                if not main and sel not in (0, 2, 3, 8):
                    continue
                flags = (k % 2) * 1 + ((k // 2) % 2) * 4 + (0x20 if entry == 2 else 0)
                k += 1
                sc.append('arr:%d:%d:%d:%d:%d' % (entry, es, sel, L, flags))
            ql = qbig if main else qsmall
            if ql:
                sc.append('qr:%d:%d:%d:%d' % (entry, es, ql, 0x20 if entry == 2 else 0))
    return sc

def g3_jobs(harness, runs, workers=12, max_len=600):
    """libFuzzer campaign (thorough tier). Each worker is an independent libFuzzer
    process on a shared corpus directory seeded from seeds/<prop>/corpus."""
    def mk(ctx, Job):
        exe = ctx['exes'].get((harness, 'fuzz'))
        if not exe:
            return []       # the tree's headers are not valid C++: no libFuzzer build (see vcheck build_harness)
        corpus = os.path.join(ctx['outdir'], 'corpus', harness)
        os.makedirs(corpus, exist_ok=True)
        sd = os.path.join(ctx['verif'], 'seeds', ctx['prop'], 'corpus')
        if os.path.isdir(sd):
            for f in os.listdir(sd):
                if f.startswith(harness + '__'):
                    with open(os.path.join(sd, f), 'rb') as s, open(os.path.join(corpus, f), 'wb') as d:
                        d.write(s.read())
        n = max(1000, int(runs * ctx['budget']))
        seed = ctx['seed'] if ctx['seed'] != 0 else 1
        jobs = []
        for w in range(workers):
            env = dict(VERIF_PROP=ctx['prop'], VERIF_OUT=ctx['outdir'], VERIF_WORKER='%s%d' % (harness, w))
            jobs.append(Job('g3-%s-%d' % (harness, w),
                            [exe, '-runs=%d' % n, '-seed=%d' % (seed * 100 + w + 1), '-max_len=%d' % max_len,
                             '-use_value_profile=1', '-reload=1', '-print_final_stats=1', '-timeout=1200',
                             '-rss_limit_mb=3000', '-artifact_prefix=%s/art-%s%d-' % (ctx['outdir'], harness, w), corpus],
                            ctx['outdir'], cur=os.path.join(ctx['outdir'], 'cur-g3-%s%d.case' % (harness, w)),
                            env=env, harness=harness, exe=exe, prop=ctx['prop']))
        return jobs
    return mk

def g3_stats(harness):
    """turn libFuzzer logs into a stats file for the evidence merge"""
    import re, json, glob
    def fn(ctx):
        execs = 0
        cov = 0
        corpus = 0
        for lp in glob.glob(os.path.join(ctx['outdir'], 'log-g3-%s-*.txt' % harness)):
            t = open(lp, errors='replace').read()
            m = re.search(r'stat::number_of_executed_units:\s*(\d+)', t)
            if m:
                execs += int(m.group(1))
            for m in re.finditer(r'cov: (\d+) ft: (\d+) corp: (\d+)', t):
                cov = max(cov, int(m.group(1)))
                corpus = max(corpus, int(m.group(3)))
        with open(os.path.join(ctx['outdir'], 'stats-g3-%s.json' % harness), 'w') as f:
            json.dump(dict(engine='g3-libfuzzer', harness=harness, prop=ctx['prop'], evaluations=execs, nontrivial=0,
                           distinct_nontrivial=0, edge_coverage=cov, corpus=corpus,
                           note='coverage-guided; non-trivial cases not counted for this engine'), f)
        return None
    return fn

COMMON_ASSUME = [
    'clang 14 AddressSanitizer reports every heap out-of-bounds / use-after-free it can see (redzones, quarantine)',
    'library built from /repo working tree with -O1 -g, asserts enabled; thorough tier adds -O2 -DNDEBUG',
    'generators stay inside the documented domain (DESIGN.md section 4)',
]

def plan(prop, tier, seed, budget):
    q = tier == 'quick'
    P = {}
    if prop == 'C13':
        P = dict(
            level='exploration',
            builds=[('slist', 'asan')] + ([] if q else [('slist', 'rel'), ('slist', 'fuzz')]),
            jobs=[g1_jobs('slist', ['1:1:5:closure', '2:1:3:closure', '1:1:0:seq4', '2:0:0:seq3'] if q else
                          ['1:2:6:closure', '2:1:5:closure', '3:1:3:closure', '1:1:0:seq5', '2:1:0:seq4'], 200000 if q else 3000000),
                  g2_jobs('slist', 200000 if q else 1500000)] +
                 ([] if q else [g2_jobs('slist', 60000, variant='rel'), g3_jobs('slist', 400000)]),
            py=[] if q else [g3_stats('slist')],
            rule='case = byte-coded history over 1-3 slists (push_front/back, insert_after, erase_after, pop_front '
                 '(also on empty), reverse, sort, concat, swap, foreach-with-stop, clear); oracle = reference sequence '
                 'audited (size, front, back, full traversal) after every op. Non-trivial: the history contains a '
                 'push_back immediately after one of {erase of the last element, reverse, sort, concat, swap, pop to '
                 'empty} (followed by the audit) and has >= 3 ops. Distinct = distinct case byte strings (FNV-64).',
            assumptions=COMMON_ASSUME,
        )
    elif prop == 'C01':
        sc = ['%d:8:%d:3' % (k, c) for k in (1, 2) for c in range(4)] + ['1:8:0:3:seq4', '2:8:0:3:seq4', '1:9:0:8', '2:9:0:8'] if q else \
             ['%d:8:%d:3' % (k, c) for k in (1, 2) for c in range(4)] + ['1:9:0:4', '2:9:0:4', '1:8:0:6', '2:8:0:6',
                                                                          '1:8:0:3:seq5', '2:8:0:3:seq5', '1:8:0:3:seq6', '2:8:0:3:seq6']
        P = dict(
            level='exploration',
            builds=[('tree', 'asan')] + ([] if q else [('tree', 'rel'), ('tree', 'fuzz')]),
            jobs=[g1_jobs('tree', sc, 200000 if q else 3000000), g2_jobs('tree', 12000 if q else 120000)] +
                 ([] if q else [g2_jobs('tree', 12000, variant='rel'), g3_jobs('tree', 300000)]),
            py=[] if q else [g3_stats('tree')],
            rule='case = byte-coded history driving a cstl_bintree and a cstl_rbtree with the same operations (insert, '
                 'hinted insert via find, find, erase, walk with stop, clear, height) over key universes of 1..1000 keys and '
                 'four comparison functions; oracle = reference multiset per comparison class with pointer identity against '
                 'the element pool, size after every op, full audit (both walks with PRE/MID/POST/LEAF bracket check and '
                 'order, find of every key) after every op in short histories / G1 and every 8th op otherwise. In a quarter of the '
                 'generated cases the comparison function is re-entrant (finds and walks another tree while comparing). '
                 'Non-trivial: >= 1 insert of a key already held, >= 1 erase of a node with two children, >= 1 audit walk '
                 'over >= 3 elements. Distinct = distinct case byte strings (FNV-64).',
            assumptions=COMMON_ASSUME,
        )
    elif prop == 'C02':
        sc = ['2:8:0:3', '2:2:0:5', '2:8:1:3', '2:9:0:8'] if q else ['2:8:0:7', '2:3:0:5', '2:9:0:5', '2:8:3:6', '2:2:0:7']
        P = dict(
            level='exploration',
            builds=[('tree', 'asan')] + ([] if q else [('tree', 'rel'), ('tree', 'fuzz')]),
            jobs=[g1_jobs('tree', sc, 200000 if q else 3000000), g2_jobs('tree', 30000 if q else 200000)] +
                 ([] if q else [g2_jobs('tree', 15000, variant='rel'), g3_jobs('tree', 300000)]),
            py=[] if q else [g3_stats('tree')],
            rule='case = byte-coded insert / hinted insert / erase history on a cstl_rbtree (heavy key duplication); oracle = '
                 'walk over the public node fields after every insert and erase: root black with NULL parent, no red node '
                 'with a red child, equal black count on every root-to-NULL path, child->parent back links, node count == '
                 'size, and 2^h <= (n+1)^2 for h = cstl_rbtree_height max and for the measured longest path. G1 = closure '
                 'over every reachable shape+colouring in the scope. Non-trivial: >= 1 erase whose spliced-out node was '
                 'black in a tree of >= 4 nodes and >= 1 insert under a red would-be parent. Distinct = distinct case bytes.',
            assumptions=COMMON_ASSUME + ['the colour and link fields read by the oracle are the public struct members of rbtree.h'],
        )
    elif prop == 'C07':
        P = dict(
            level='exploration',
            builds=[('heap', 'asan')] + ([] if q else [('heap', 'rel'), ('heap', 'fuzz')]),
            jobs=[g1_jobs('heap', ['2:0:4', '2:1:4', '2:2:3', '1:0:5', '2:0:0:seq6'] if q else
                          ['2:0:6', '2:1:6', '3:0:5', '1:0:6', '2:0:0:seq9', '3:2:0:seq7'], 200000 if q else 3000000),
                  g2_jobs('heap', 180000 if q else 1200000),
                  custom_jobs('heap', 'scale', ['scale', '22' if q else '25', '{out}'])] +
                 ([] if q else [g2_jobs('heap', 60000, variant='rel'), g3_jobs('heap', 400000),
                                custom_jobs('heap', 'scale-rel', ['scale', '24', '{out}'], variant='rel')]),
            py=[] if q else [g3_stats('heap')],
            rule='case = byte-coded push/pop/get/clear history with priorities from 1..1000 values (ties by design) and three '
                 'comparison functions; oracle = reference multiset with pointer identity: get/pop return a held element '
                 'comparing >= every held element, pop removes exactly it, NULL iff empty, size; plus a walk over the public '
                 'links: occupied positions are exactly 1..n (complete, left-filled), parent >= child, back links. '
                 'Scale run: one heap grown through every size up to 2^22+1 (thorough 2^25+1) with a dip of three pops at every '
                 'power of two, then drained, so push and pop happen at every size (counting oracle, shape walk at the top). '
                 'Non-trivial: >= 1 push after a pop and >= 1 pop from a heap of >= 4 elements with a tie at the top. '
                 'Distinct = distinct case bytes.',
            assumptions=COMMON_ASSUME,
        )
    elif prop == 'C08':
        P = dict(
            level='exploration',
            builds=[('map', 'asan')] + ([] if q else [('map', 'rel'), ('map', 'fuzz')]),
            jobs=[g1_jobs('map', ['3:0:0:seq4', '4:0:5', '4:1:5', '3:2:3'] if q else
                          ['3:0:0:seq5', '4:0:7', '4:1:7', '4:2:5', '3:1:0:seq4'], 200000 if q else 3000000),
                  g2_jobs('map', 130000 if q else 1500000)] +
                 ([] if q else [g2_jobs('map', 60000, variant='rel'), g3_jobs('map', 400000)]),
            py=[] if q else [g3_stats('map')],
            rule='case = byte-coded history of insert (with/without iterator), find, erase by key (with/without iterator), '
                 'erase by iterator, clear (callback / NULL) on a cstl_map whose keys are pointers to harness cells (several '
                 'cells per value, three comparison functions incl. modulo classes); oracle = reference map class -> stored '
                 '(key pointer, value pointer): return codes 0/1/-1, iterator contents, end iterators, size, and allocation '
                 'accounting (one node per entry, none after clear). In a quarter of the generated cases the comparison function is '
                 're-entrant: every comparison looks a present and an absent key up in another map. Non-trivial: >= 1 re-insert of an existing key with '
                 'another cell, >= 1 successful erase, and a non-ascending insertion order. Distinct = distinct case bytes.',
            assumptions=COMMON_ASSUME,
        )
    elif prop in ('C03', 'C04', 'C19'):
        if prop == 'C03':
            sc = ['1:3:0,1,2:0,3', '2:2:0,1,2,4:0,3'] if q else ['1:4:0,1,2:0,3', '2:3:0,1,2,4:0,3', '1:3:0,1,2,3:0,1,3', '3:3:1,3:0,3']
            rule = ('case = byte-coded history over 1-2 cstl_hash tables: resize (bucket counts 1..64, seven hash functions or NULL, '
                    'also while a rehash is pending), rehash, shrink_to_fit, insert (duplicate keys by design), find without / with an '
                    'accepting / rejecting visitor, erase of a live object, erase of an object that is not in the table, swap; oracle = '
                    'membership model keyed by element address: size after every op; find non-NULL iff the key is live and the result '
                    'is a live element with that key; every offered object live, right key, offered once; reject-all offers exactly '
                    'the model set; every case ends with a reject-all audit of every key. Non-trivial: >= 1 insert and >= 1 erase while '
                    'a rehash is pending, >= 1 resize issued while pending, >= 2 live objects sharing a key at a visitor find.')
        elif prop == 'C04':
            sc = ['1:3:0,1,2:0,3:fc', '1:3:0,1,2:0,3:cl', '1:3:0,1,2:0,3:fx', '1:3:0,1,2:0,3:fe'] if q else \
                 ['1:4:0,1,2:0,3:fc', '1:4:0,1,2:0,3:cl', '1:3:0,1,2:0,3:fx', '1:3:0,1,2:0,3:fe', '2:3:0,1,2,4:0,3:fc', '2:3:0,1,2,4:0,3:cl']
            rule = ('case = the C03 history language plus foreach (stop at n-th / erase-and-free a subset of the visited elements), '
                    'foreach_const (stop), clear (callback that frees, or NULL on an empty table) followed by further resize/insert/find, '
                    'issued at any moment including right after a resize and after 0..B keyed ops of a grow or shrink; oracle = per-address '
                    'visit counters: every live element exactly once and nothing else, stop value returned after exactly n distinct live '
                    'elements, erase-in-callback leaves exactly the complement, clear callback once per live element, size 0, bucket array '
                    'released, table usable again after a fresh resize (continues under the model). G1: closure over all table states of '
                    'the scope x {foreach_const, foreach, foreach(erase), clear+reuse}. Non-trivial: an enumeration/clear while a grow is '
                    'pending with an element already relocated beyond the old bucket count AND one while a shrink is pending.')
        else:
            sc = ['3:3:0,2,4:0,1', '3:4:0,1,3:0,3', '3:4:0,1,3,5:0,1,3'] if q else ['3:4:0,1,3,5:0,1,3', '4:5:0,1,2,3,5:0,3', '4:6:0,1,3,5:0,1,3', '5:6:1,3,7:0,3']
            rule = ('case = hash history with UNIQUE keys and logging hash functions (every call appends (function, k, m) to a per-op log); '
                    'oracle = (1) after every satisfiable resize(n,f): cstl_hash_load == size/n; (2) a keyed op while a rehash is pending '
                    'logs the lookup under the current and under the requested geometry, then only relocation calls into the requested '
                    'geometry whose elements came from at most 3 distinct buckets (the model tracks each element\'s physical bucket); '
                    '(3) from the (B+1)-th keyed op after the resize was accepted (B = bucket count then) and after any forced completion '
                    'every keyed op logs exactly one call (k, n, most recently requested function). Non-trivial: a resize issued while '
                    'another is pending, >= 4 non-empty buckets at a resize, both a grow and a shrink.')
        P = dict(
            level='exploration',
            builds=[('hash', 'asan')] + ([] if q else [('hash', 'rel'), ('hash', 'fuzz')]),
            jobs=[g1_jobs('hash', sc, 200000 if q else (1200000 if prop == 'C19' else 3000000)), g2_jobs('hash', (200000 if prop == 'C04' else 100000 if prop == 'C19' else 150000) if q else 1200000)] +
                 ([] if q else [g2_jobs('hash', 60000, variant='rel'), g3_jobs('hash', 400000)]),
            py=[] if q else [g3_stats('hash')],
            rule=rule + ' Distinct = distinct case bytes.',
            assumptions=COMMON_ASSUME + ['rehash-pending statistics are read from the public struct fields (counters only)'],
        )
    elif prop == 'C05':
        P = dict(
            level='exploration',
            builds=[('mem', 'asan')] + ([] if q else [('mem', 'rel'), ('mem', 'fuzz')]),
            jobs=[g1_jobs('mem', ['2:2:1:seq4', '3:2:1:closure', '2:1:1:seq5'] if q else
                          ['2:2:1:seq5', '3:2:2:closure', '4:3:1:closure', '2:1:1:seq6', '3:1:0:seq5'], 200000 if q else 4000000),
                  g2_jobs('mem', 250000 if q else 2500000)] +
                 ([] if q else [g2_jobs('mem', 250000, variant='rel'), g3_jobs('mem', 400000)]),
            py=[] if q else [g3_stats('mem')],
            rule='case = byte-coded history over pools of 1-4 shared, 1-3 weak and 1-3 unique pointer objects at fixed addresses: '
                 'alloc (into empty or occupied objects), share, swap, reset, get, unique, weak_from, weak_lock (into empty or occupied '
                 'owners), weak_swap, weak_reset, unique alloc/get/release/swap/reset; oracle = ownership model predicting, per operation, '
                 'the exact ordered list of events observed during that operation (clear callback, free of the managed block, free of the '
                 'bookkeeping block, mallocs) via link-time malloc/free interposition, plus after every op: get() of every co-owner, '
                 'unique(), memory still allocated; end of case: every pointer reset and no library allocation left. G1 = all sequences to '
                 'a depth over 2 shared + 2 weak + 1 unique objects (unpruned) and closure pruned on the MODEL state (flagged: hidden '
                 'state could hide behind that pruning). Non-trivial: >= 1 lock of an expired weak pointer, >= 1 re-targeting of an '
                 'occupied pointer that destroys an allocation, >= 1 swap between owners of different allocations. Distinct = case bytes.',
            assumptions=COMMON_ASSUME + ['the bookkeeping block is any library allocation below 1000 bytes, managed blocks are 1000+serial bytes'],
        )
    elif prop == 'C12':
        P = dict(
            level='exploration',
            builds=[('dlist', 'asan')] + ([] if q else [('dlist', 'rel'), ('dlist', 'fuzz')]),
            jobs=[g1_jobs('dlist', ['1:1:5:closure', '2:1:4:closure', '3:1:3:closure', '1:1:0:seq4', '2:1:0:seq3'] if q else
                          ['1:2:6:closure', '2:2:5:closure', '3:1:5:closure', '1:1:0:seq5', '2:1:0:seq4', '3:1:6:closure'],
                          200000 if q else 3000000),
                  g2_jobs('dlist', 300000 if q else 1500000)] +
                 ([] if q else [g2_jobs('dlist', 100000, variant='rel'), g3_jobs('dlist', 400000)]),
            py=[] if q else [g3_stats('dlist')],
            rule='case = byte-coded history over 1-3 cstl_dlist lists: push/pop at both ends (pops also on empty), insert after the '
                 'i-th element, erase, reverse, sort (asc/desc), concat (two distinct lists; a list concatenated onto itself is not documented and not generated), swap, find in both directions, '
                 'foreach with stop, foreach whose callback erases and frees a subset of the visited elements, clear; oracle = reference '
                 'sequence per list audited after every op: size, front, back, forward traversal == sequence, backward traversal == '
                 'mirror, element payload guard words. Non-trivial: during the case some reverse on a list of length 2-3 or swap/concat '
                 'with an operand of length 0-3, AND some reverse/swap/concat with an operand of length >= 4 (each followed by the audit '
                 'with its backward traversal). Distinct = distinct case bytes.',
            assumptions=COMMON_ASSUME,
        )
    elif prop == 'C09':
        P = dict(
            level='exploration',
            builds=[('vector', 'asan')] + ([] if q else [('vector', 'rel'), ('vector', 'fuzz')]),
            jobs=[custom_jobs('vector', 'argtable', ['argtable-all', '1', '{out}']),
                  custom_jobs('vector', 'huge', ['huge', str(seed), '{out}', 'h']), g2_jobs('vector', 40000 if q else 350000)] +
                 ([] if q else [g1_jobs('vector', ['argtable:%d:%d:1:2:1' % (e, b) for e in range(9) for b in range(3)], 3000000),
                                g2_jobs('vector', 50000, variant='rel'), g3_jobs('vector', 300000)]),
            py=[] if q else [g3_stats('vector')],
            rule='case = byte-coded history over 1-2 cstl_vector objects (element sizes 1..64, with/without constructor+destructor): '
                 'resize, reserve, shrink_to_fit, clear, swap, sort, reverse, at, write, with sizes/indexes from a symbolic table resolved '
                 'against the model (0,1,2, size+-1, cap+-1, LIMIT/es+-1, 2^32, 2^63, SIZE_MAX/es+-1, SIZE_MAX-1, SIZE_MAX; boundary codes '
                 'rationed to ~20%, predicted aborts mostly on a sacrificial twin); oracle = reference byte vector + allocation '
                 'interposer: cap >= size, data is the one live block and its size >= (cap+1)*es in 128-bit arithmetic, at(i) == data+i*es, '
                 'at aborts iff i >= size, reserve never aborts and is a quiet no-op when unsatisfiable, resize aborts iff growth cannot be '
                 'satisfied, bytes preserved, ctor/dtor exactly once per slot entering/leaving [0,size). G1 = every single op x full '
                 'symbolic table x 9 element sizes x 3 base states (exhaustive); plus an arithmetic-only engine on vectors of 2^31..2^33 elements '
                 '(untouched MAP_NORESERVE mappings). Non-trivial: >= 1 request whose byte count is '
                 'unrepresentable, >= 1 reallocation of a non-empty vector that moved the data, and ctor+dtor enabled.',
            assumptions=COMMON_ASSUME + ['requests above 1 MiB are refused by the interposer ("cannot be satisfied")'],
        )
    elif prop == 'C10':
        d1 = ['%s:%d:1' % (w, b) for w in 'nw' for b in range(15)]
        d2q = ['%s:%d:2' % (w, b) for w in 'nw' for b in range(4)]
        d2 = ['%s:%d:2' % (w, b) for w in 'nw' for b in range(15)]
        d3 = ['%s:%d:3' % (w, b) for w in 'nw' for b in range(7)]
        P = dict(
            level='exploration',
            builds=[('string', 'asan')] + ([] if q else [('string', 'rel'), ('string', 'fuzz')]),
            jobs=[g1_jobs('string', d1 + d2q if q else d1 + d2 + d3, 200000 if q else 3000000),
                  g2_jobs('string', 90000 if q else 1000000)] +
                 ([] if q else [g2_jobs('string', 100000, variant='rel'), g3_jobs('string', 300000)]),
            py=[] if q else [g3_stats('string')],
            rule='case = byte-coded edit history over 2-3 narrow or wide cstl string objects (alphabet a,b,c,NUL,0x7f/0x1F600): set_str, '
                 'insert_ch/str_n/str/obj, append*, erase, substr (dst != src), resize, reserve, clear, swap, at, find_ch, find_str, find, '
                 'compare, compare_str, with pos/count from a symbolic table (0, mid, size-1, size, size+1, SIZE_MAX and neighbours, '
                 'SIZE_MAX-size, SIZE_MAX-pos(+1), LIMIT+-1); oracle = reference std::basic_string: size, str() == reference + NUL, at, abort '
                 'iff pos beyond the end (pos == size: either), counts clamped, unrepresentable/unsatisfiable growth aborts, find/compare '
                 'equal strchr/strstr/strcmp on the reference buffer. G1 = from every base string of <= 3 chars over {a,b}, narrow and wide: '
                 'every single op with the full table, every ordered pair. Non-trivial: >= 1 insert_ch/erase/substr with pos >= 1 and '
                 'count >= SIZE_MAX-size, and >= 1 edit that allocated. Distinct = distinct case bytes.',
            assumptions=COMMON_ASSUME + ['inserting a string into itself is outside the domain (property text)'],
        )
    elif prop == 'C11':
        P = dict(
            level='exploration',
            builds=[('sort', 'asan')] + ([] if q else [('sort', 'rel'), ('sort', 'fuzz')]),
            jobs=[g1_jobs('sort', sort_scopes(not q), 200000 if q else 3000000), g2_jobs('sort', 55000 if q else 600000)] +
                 ([] if q else [g1_jobs('sort', sort_scopes(False), 200000, variant='rel'), g2_jobs('sort', 100000, variant='rel'),
                                g3_jobs('sort', 60000)]),
            py=[] if q else [g3_stats('sort')],
            rule='case = one array (0-8000 elements of 1/2/4/8/3/12/16/24 bytes, key + unique tag bytes) sorted through one entry point '
                 '(raw array in exact-size blocks, vector cap==size, vector cap>size) with one selector (QUICK, QUICK_R, QUICK_M, HEAP, 4, 99, '
                 '-1, 2897234, default wrapper), cstl_swap or a checking swap, scripted rand(); oracle = sorted + byte-multiset equal + callback '
                 'pointer checks, then find on the unsorted input, search on the sorted result for present and absent keys, reverse twice. G1 = '
                 'all arrays up to length 7/9 over a 4-value alphabet per entry point x element size x selector, and for QUICK_R every pivot '
                 'script. Non-trivial: count >= 3 with >= 1 repeated and >= 2 distinct key values. Distinct = distinct case bytes.',
            assumptions=COMMON_ASSUME + ['QUICK/QUICK_R inputs capped at 3000 elements (recursion depth under ASan)'],
        )
    elif prop == 'C14':
        P = dict(
            level='exploration',
            builds=[('array', 'asan')] + ([] if q else [('array', 'rel'), ('array', 'fuzz')]),
            jobs=[g1_jobs('array', ['seq3:%d:16' % k for k in range(16)], 3000000), g2_jobs('array', 140000 if q else 600000)] +
                 ([] if q else [g1_jobs('array', ['cseq4:%d:16' % k for k in range(16)], 3000000),
                                g2_jobs('array', 50000, variant='rel'), g3_jobs('array', 400000)]),
            py=[] if q else [g3_stats('array')],
            rule='case = byte-coded history over 4 cstl_array_t objects and up to 3 harness-owned external buffers: alloc, set, slice (also in '
                 'place), unslice, reset, release, at, data, size, with counts/bounds from a symbolic table (0,1,len+-1, nm-off(+1), nm, '
                 'SIZE_MAX-off(+1), SIZE_MAX, SIZE_MAX/sz(+1), LIMIT/sz+-1) and element sizes up to SIZE_MAX/2+1; oracle = buffer/view model: '
                 'size, at(i) == base+(off+i)*sz inside the live block for i < len and abort otherwise, slice aborts iff empty / end < beg / '
                 'off+end > nm (128-bit), alloc leaves the object empty when the byte count is unrepresentable or the allocation fails, '
                 'per-op allocator events: a buffer is freed exactly in the op that drops its last reference, nothing live at the end. G1 = '
                 'all sequences of depth 3 (thorough: compact alphabet depth 4) over the reduced table. Non-trivial: >= 1 alloc/set on an object '
                 'that is a slice with offset > 0, >= 1 in-place slice, >= 1 bound >= SIZE_MAX-off. Distinct = distinct case bytes.',
            assumptions=COMMON_ASSUME + ['whether the library frees an external buffer after its last user reset it is not asserted (header and code disagree)'],
        )
    elif prop == 'C15':
        hs = [('slist', ['1:1:5:closure', '2:1:3:closure'], ['1:2:6:closure', '2:1:5:closure']),
              ('dlist', ['1:1:5:closure', '2:1:4:closure'], ['1:2:6:closure', '2:2:5:closure']),
              ('tree', ['1:8:0:3', '2:8:0:3', '1:9:0:8', '2:9:0:8'], ['1:8:0:6', '2:8:0:6', '1:9:0:4', '2:9:0:4', '1:4:0:2', '2:4:0:2']),
              ('heap', ['2:0:4'], ['2:0:6', '3:0:5']),
              ('map', ['4:0:5'], ['4:0:7', '4:1:7'])]
        jobs = []
        for h, sq, st in hs:
            jobs.append(g1_jobs(h, sq if q else st, 200000 if q else 3000000))
            jobs.append(g2_jobs(h, 60000 if q else 500000, workers=3))
        P = dict(
            level='exploration',
            builds=[(h, 'asan') for h, _, _ in hs],
            jobs=jobs,
            rule='case = byte-coded fill history on one of bintree, rbtree, heap, dlist, slist, map, then clear with a callback that counts '
                 'per address, overwrites the element with 0xDD and frees it (map: frees the key and value cells), then further operations '
                 'applied both to the cleared container and to a freshly initialised twin; oracle = callback exactly once per contained '
                 'element and for nothing else, ASan (any later touch of a handed-over element is a heap-use-after-free), size 0, and '
                 'identical observable results of cleared container and twin. G1 = clear applied in every reachable state of the small-scope '
                 'closures (trees: up to 8 nodes over 4 keys with duplicates, and EVERY shape of up to 5 nodes (thorough: 6) from scopes whose distinct keys are at least as many as the nodes; heaps <= 9, lists <= 6, maps <= 8 entries). Non-trivial: clear of a container holding '
                 '>= 3 elements (trees: including a node with two children) followed by reuse operations. Distinct = distinct case bytes.',
            assumptions=COMMON_ASSUME,
        )
    elif prop == 'C16':
        hs = ['map', 'vector', 'string', 'hash', 'mem', 'array']
        # the containers that allocate nothing today are driven under the same engine (a script without allocation requests
        # is run once): an allocation added to them later gets its fault sets without anybody remembering to list it here
        hs0 = ['dlist', 'slist', 'tree', 'heap', 'sort']
        jobs = [g7_jobs(h, 2000 if q else 40000, workers=3 if q else 5, pair_max=24) for h in hs] + \
               [g7_jobs(h, 1500 if q else 15000, workers=1 if q else 2, pair_max=24) for h in hs0]
        P = dict(
            level='fault_enumeration',
            builds=[(h, 'asan') for h in hs + hs0],
            jobs=jobs,
            rule='evaluation = (script, fault set): scripts are generated allocation-heavy histories of the map, vector, string/wstring, hash, '
                 'unique/shared/weak pointer and array decoders; a fault-free run counts the script\'s N library allocation requests, then '
                 'the script is re-run with every single ordinal failing, every suffix failing, every pair (N <= 24; longer scripts are rare and get singles and suffixes only) and every triple (N <= 10). '
                 'Oracle = the op that received a failed allocation shows its documented failure (map insert -1 + end iterator; reserve / '
                 'shrink_to_fit / hash resize quietly unchanged; vector and string growth aborts; unique/shared/array alloc leave the object '
                 'empty having dropped the old content), every other op and the rest of the script behave per the container\'s reference '
                 'model, and the final audit finds no live library allocation, no double free, no ASan report. Non-trivial: >= 1 injected '
                 'failure was delivered and >= 3 ops followed it. Distinct = distinct (fault set, script) byte strings.',
            assumptions=COMMON_ASSUME + ['faults are injected at malloc/calloc/realloc of the library only (link-time --wrap)'],
        )
    elif prop == 'C18':
        import c18_clients
        def c18(ctx):
            return c18_clients.run(ctx)
        P = dict(
            level='exploration',
            builds=[],
            jobs=[],
            py=[c18],
            rule='case = a generated C99 client program: an ordered list of public headers (every header alone, every ordered pair, all '
                 'together in several orders; thorough: plus seeded random subsets) x {1, 2 translation units} x {libcstl.a, '
                 'libcstl.so} x {include only, take the address of every function the included headers declare}; compiled with the project\'s '
                 'own CFLAGS against the library built by the project Makefile from the working tree; oracle = compiler, linker and program '
                 'exit status 0, and every declared non-static function is exported by both libraries. Non-trivial: a program with two '
                 'translation units or at least two headers. Distinct = distinct configurations.',
            assumptions=['gcc and the project Makefile (make b) as the build under test', 'only what the project itself makes an error fails a program'],
        )
    elif prop == 'C06':
        def g5a(cat, cap, parts):
            def mk(ctx, Job):
                exe = ctx['exes'][('c06', 'asan')]
                if not exe:
                    return []
                return [Job('g5a-%s-%d' % (cat, k), [exe, '--prop', 'C06', 'g5a', cat, str(cap), ctx['outdir'], '%s%d' % (cat, k), str(k), str(parts)],
                            ctx['outdir'], cur=os.path.join(ctx['outdir'], 'cur-g5a-%s%d.case' % (cat, k)), harness='c06', exe=exe, prop='C06',
                            env=dict(ASAN_OPTIONS=ctx['asan_fibres'])) for k in range(parts)]
            return mk
        def g6(iters, workers):
            def mk(ctx, Job):
                n = max(100, int(iters * ctx['budget']))
                js = []
                for w in range(workers):
                    var = 'tsanrel' if w % 2 else 'tsan'        # half of the threads-under-TSan runs use the shipped configuration
                    exe = ctx['exes'][('c06t', var)]
                    js.append(Job('g6-%s-%d' % (var, w), [exe, 'run', str(ctx['seed']), str(w), str(n), ctx['outdir']], ctx['outdir'],
                                  harness='c06t', exe=exe, prop='C06'))
                return js
            return mk
        def g2c06(n):
            inner = g2_jobs('c06', n)
            def mk(ctx, Job):
                if not ctx['exes'][('c06', 'asan')]:
                    return []
                js = inner(ctx, Job)
                for j in js:
                    j.env = dict(ASAN_OPTIONS=ctx['asan_fibres'])
                return js
            return mk
        P = dict(
            level='exploration',
            builds=[('c06', 'asan'), ('c06t', 'tsan'), ('c06t', 'tsanrel')],
            optional_builds=[('c06', 'asan')],
            jobs=([g5a('two-all', 2000000, 16), g5a('three', 2000, 12), g2c06(100000), g6(5000, 8)] if q else
                  [g5a('two', 2000000, 16), g5a('two-all', 2000000, 16), g5a('three', 200000, 16), g5a('four', 60000, 16), g2c06(1500000), g6(400000, 8)]),
            rule='case = (scenario, schedule): one allocation, 2-4 threads each owning private shared/weak pointer objects (0-2 initial owners, '
                 '0-2 initial weak references) and running a script of 1-4 operations from {share, reset, weak_from, lock (then touch the '
                 'memory, yield, touch again, reset), weak_reset} followed by resetting everything it holds. src/memory.c is compiled against '
                 'shadow <stdatomic.h>/<sched.h>: every atomic step, every library malloc/free, the clear callback entry and every memory touch '
                 'first returns control to a deterministic scheduler that follows the schedule bytes. G5a = EVERY schedule of every scenario of a '
                 'catalogue by stateless DFS with visited-state pruning (two-all: every pair of scripts of length <= 2 over the seven operations in every configuration of 0-1 initial owners and weak references per thread, 25088 scenarios, exhaustive; two: 7056 two-thread scenarios with up to 2 initial references and scripts up to length 3, exhaustive; three/four: 1080/162 '
                 'scenarios up to a per-scenario cap); G5b (g2) = random scenarios with PCT-like random schedules; G6 = the same scenarios on '
                 'real pthreads under ThreadSanitizer. Oracle per schedule: clear once, managed block freed once, bookkeeping freed once, '
                 'nothing live; every atomic step inside the live bookkeeping block; a lock that yields an owner yields live memory until that '
                 'owner\'s reset; lock must succeed when some owner was held throughout it and must fail when destruction had begun before it; '
                 'no deadlock (all unfinished threads parked on the flag) and termination within a step bound; TSan: no data race. '
                 'Non-trivial: a schedule with a preemption inside a lock or a reset (G6: a scenario with a lock in one thread and a reset of '
                 'an owner in another). Distinct = distinct (scenario, schedule decisions).',
            assumptions=['G5 interleaves only at atomics, allocator calls, callbacks and script touches (plain loads/stores are not yield points); '
                         'all atomics are seq_cst in the source', 'visited-state pruning identifies a thread state by the operation it is in, what '
                         'its objects hold and the values its atomic steps of that operation returned',
                         'G6 is nondeterministic: it can miss, not invent, a violation'],
        )
    elif prop == 'C17':
        def c17a(mode, parts):
            def mk(ctx, Job):
                # the arithmetic of the shipped build (gcc -O2) is evaluated as well: every fourth partition
                rel = ctx['exes'].get(('hash', 'rel'))
                js = []
                for k in range(parts):
                    exe = rel if rel and k % 4 == 3 else ctx['exes'][('hash', 'asan')]
                    js.append(Job('c17a-%s-%d%s' % (mode, k, '-rel' if exe is rel else ''),
                                  [exe, '--prop', 'C17', 'c17a', mode, ctx['outdir'], '%s%d' % (mode, k), str(k), str(parts), str(ctx['seed'])],
                                  ctx['outdir'], cur=os.path.join(ctx['outdir'], 'cur-c17a-%s%d.case' % (mode, k)), harness='hash', exe=exe, prop='C17'))
                return js
            return mk
        P = dict(
            level='exploration',
            builds=[('hash', 'asan')] + ([] if q else [('hash', 'rel')]),
            jobs=[c17a('small', 16), c17a('grid', 16), c17a('boundary', 4), g2_jobs('hash', 150000 if q else 1500000)] +
                 ([] if q else [g2_jobs('hash', 150000, variant='rel')]),
            rule='(a) evaluations of cstl_hash_mul(k,m) < m and cstl_hash_div(k,m) == k % m: exhaustive k in [0,2^20) x m in 1..64, k up to '
                 '2^25 x 11 sizes, every k below 2^31 with m = 1 and every k below 2^29 with m = 2^24; EVERY value the scale factor (float)m takes from 2^24 to 2^64 on the float grid, each with the smallest m that '
                 'rounds to it (and m+1), against the keys with the largest fractional part of phi*k and boundary keys; every m below 2^24; '
                 'boundary keys x boundary sizes (2^e-2..2^e+2, SIZE_MAX, Fibonacci numbers) and seeded random 64-bit pairs. Non-trivial: m >= 2. '
                 '(b) hash-table histories (C03 language) whose hash function returns m, m+1, SIZE_MAX or a value >= 2^32 whose low 32 bits would be a valid index, at a generated call ordinal, so the bad '
                 'value arrives during insert, find, erase, rehash, resize, shrink_to_fit, foreach, under current and pending geometry; oracle: '
                 'the library call during which the bad value was returned ends in SIGABRT (not a normal return, not SIGSEGV, not an ASan '
                 'report), and no call aborts when every value is in range. Non-trivial: the bad value was delivered. Distinct (b) = case bytes.',
            assumptions=COMMON_ASSUME + ['float arithmetic of the build under test (clang, x86-64 SSE) is what the grid enumeration evaluates'],
        )
    elif prop == 'C20':
        def c20_disc(ctx):
            import c20_discover
            return c20_discover.run(ctx)
        P = dict(
            level='exploration',
            py=[c20_disc],
            builds=[('stray', 'asan'), ('mem', 'asan'), ('array', 'asan')] + ([] if q else [('stray', 'rel')]),
            jobs=[g1_jobs('stray', ['table'], 100000), g2_jobs('stray', 1500000 if q else 10000000, workers=12),
                  g2_jobs('mem', 150000 if q else 1500000, workers=2), g2_jobs('array', 100000 if q else 1000000, workers=2)] +
                 ([] if q else [g1_jobs('stray', ['table'], 100000, variant='rel')]),
            rule='case = (object kind in {guarded, unique, shared, weak, array}, state in {empty, owning, co-owned, with weak reference, expired, '
                 'slice, external buffer}, entry point (every public function that reads, transfers or releases the pointer, header-inline ones '
                 'included), argument position, copy method in {struct assignment, memcpy to a heap block, memmove within an array of objects}, '
                 'state of the other argument) preceded by a short well-formed prefix; oracle = the call on the stray copy ends in SIGABRT; '
                 'afterwards the ORIGINAL answers get/unique/data/size/at exactly as before, its memory was neither cleared nor freed, and '
                 'resetting the originals leaves nothing live beyond what the abandoned other argument may hold; the prefix (proper use of '
                 'copy/share/swap, with the object USED while it sits where the provided function moved it) never aborts. The converse half '
                 '("objects moved only with the provided functions never abort, throughout the histories of C05 and C14") is additionally run '
                 'on the C05 and C14 history generators (harnesses mem, array) with --prop C20: there only an abort in a well-formed history '
                 '(clause abort.unexpected) or an ASan report is a failure, model clauses of C05/C14 are left to their own checks. '
                 'Functions that take one of the five object types and are NOT in the table (added to the headers later) are discovered from the '
                 'prototypes (gcc -aux-info) and get a generated client program per argument position that must die with SIGABRT on a stray copy. '
                 'G1 = the whole table (810 entries), exhaustive. Non-trivial: stray copy of a non-empty object '
                 '(for two-object entry points: in the second argument position). Distinct = distinct case bytes.',
            assumptions=COMMON_ASSUME + ['functions that only (re)initialise (*_init, guarded_ptr_set, the dst of guarded_ptr_copy) and cstl_array_size are outside the statement'],
        )
    else:
        raise SystemExit('no plan for property %s' % prop)
    # the fault dimension: the property's own clauses also hold when some of the library's allocation requests are refused
    # (C16 decides what a refused request may do; here the container's own promises are judged under the same fault sets)
    if True:
        # the shipped configuration of every harness this plan uses (see VARIANTS['rel'] in vcheck)
        P['builds'] = list(P['builds']) + [(h, 'rel') for (h, v) in P['builds'] if v == 'asan' and h in HARNESS and (h, 'rel') not in P['builds']]
        if (('c06', 'asan') in P.get('optional_builds', [])):
            P['optional_builds'] = list(P['optional_builds']) + [('c06', 'rel')]
    fhs = FAULT_HARNESS.get(prop)
    if fhs:
        for fh in ([fhs] if isinstance(fhs, str) else fhs):
            P['jobs'] = list(P['jobs']) + [g7_jobs(fh, 250 if q else 4000, workers=2 if q else 4, pair_max=12)]
        P['rule'] += (' Fault dimension: generated scripts are also re-run with every single library allocation request refused, every '
                      'suffix refused and every pair (scripts of <= 12 requests), judged by this property\'s own clauses (an operation '
                      'that fails in its documented way leaves the model unchanged).')
    return P

FAULT_HARNESS = {'C03': 'hash', 'C04': 'hash', 'C19': 'hash', 'C05': 'mem', 'C08': 'map', 'C09': 'vector', 'C10': 'string', 'C14': 'array',
                 # containers that never allocate on the pinned tree: the scripts run once each (there is no request to refuse) until
                 # a change makes one of their operations allocate -- then every such request is refused in turn
                 'C01': 'tree', 'C02': 'tree', 'C07': 'heap', 'C17': 'hash', 'C12': 'dlist', 'C13': 'slist', 'C11': 'sort',
                 'C15': ['tree', 'heap', 'dlist', 'slist']}      # (the map's C15 script compares with a twin: not fault-aware)

# ---------------------------------------------------------------- manifest data
ENGINES = [
    dict(name='vcheck', path='vcheck', serves_properties=['C%02d' % i for i in range(1, 21)],
         kind_free_text='python driver: rebuilds library + harness from /repo working tree (ASan, asserts on; thorough adds -O2 -DNDEBUG and '
                        'libFuzzer), runs the engines in parallel, replays regression seeds, shrinks failures out of process (ddmin, same '
                        'clause), prints VIOLATION / KNOWN-FINDING, writes evidence'),
    dict(name='harness-engines', path='harness/common/verif.hpp', serves_properties=['C%02d' % i for i in range(1, 21) if i != 18],
         kind_free_text='shared C++ framework: total byte decoder per container, G1 small-scope closure / all sequences, G2 seeded swarm '
                        'generator, G3 libFuzzer entry, G7 fault-set enumeration, replay; link-time malloc/free interposition, SIGABRT trap, '
                        'own __assert_fail, clause attribution'),
    dict(name='c06-scheduler', path='harness/h_c06.cpp', serves_properties=['C06'],
         kind_free_text='fibres + shadow <stdatomic.h>: deterministic scheduler, exhaustive DFS over schedules with visited-state pruning, '
                        'random/PCT schedules; harness/h_c06t.cpp = real threads under ThreadSanitizer'),
    dict(name='c18-clients', path='c18_clients.py', serves_properties=['C18'],
         kind_free_text='generates client programs (header subsets x order x #TUs x .a/.so x usage), builds them against the Makefile-built library'),
]
NOT_CLAIMED = {}
_T = 'model-based stateful PBT: small-scope closure / all-sequences enumeration + seeded swarm generation + libFuzzer (thorough), reference-model oracle, out-of-process shrinking'
def _mi(level, ref, text, note, technique=_T, engine='vcheck'):
    return dict(engine=engine, level=level, design_ref=ref, technique=technique, text=text, note=note)
_N = 'ASan build of the working tree with asserts (thorough also -O2 -DNDEBUG); generator stays in the documented domain (DESIGN.md section 4); exploration, not proof'
MANIFEST_INFO = {
    'C01': _mi('exploration', '5/C01', 'Histories on bintree+rbtree against a reference multiset with pointer identity; closure over all shapes <= 8-11 nodes per comparison function, long random histories with heavy duplication. No counterexample in the counted space.', _N),
    'C02': _mi('exploration', '5/C02', 'Red-black invariants (root black, no red-red, equal black height, parent links, height bound) walked over the public node fields after every insert/erase; closure over every reachable shape+colouring in small scopes, random histories beyond.', _N + '; reads the public colour/link fields'),
    'C03': _mi('exploration', '5/C03', 'Hash histories with resize-during-resize, duplicate keys, visitors, swap against a membership model keyed by element address; closure over reachable table states in small scopes.', _N),
    'C04': _mi('exploration', '5/C04', 'foreach / foreach_const / clear at every stage of grow and shrink rehashes checked with per-address visit counters; closure over table states x entry points.', _N),
    'C05': _mi('exploration', '5/C05', 'Per-operation event oracle (clear callback, frees, mallocs observed through link-time interposition) against an ownership model over pools of shared/weak/unique pointers; all sequences to depth 4-6, random histories beyond.', _N),
    'C06': _mi('exploration', '5/C06', 'The harness owns the schedule: memory.c compiled against shadow atomics, every schedule of every two-thread scenario of the catalogue (every pair of scripts of <= 2 operations) enumerated (visited-state pruning), 3/4-thread catalogues up to a cap, random schedules, plus real threads under TSan.', 'interleaves at atomics, allocator calls, callbacks, script touches; seq_cst atomics; liveness = termination of bounded scenarios; TSan runs are nondeterministic',
               technique='schedule enumeration (stateless DFS with visited-state pruning) + randomised schedules over generated scenarios, C05 oracle per schedule; TSan real-thread runs'),
    'C07': _mi('exploration', '5/C07', 'Push/pop histories against a reference multiset plus a completeness/heap-order walk over the public links; closure over all heaps <= 9-15 elements, long random interleavings.', _N),
    'C08': _mi('exploration', '5/C08', 'Map histories with pointer-identity of stored key/value cells (iterators from find and from insert) and release-at-clear accounting against a reference map; all sequences to depth 4-5, closure over the underlying tree, random histories.', _N),
    'C09': _mi('exploration', '5/C09', 'Vector histories with boundary/overflowing sizes; block size known from the interposer compared with (cap+1)*elem in 128-bit arithmetic; ctor/dtor counters; abort predicate. Every op x full symbolic table x element sizes enumerated.', _N + '; requests above 1 MiB are refused by the interposer'),
    'C10': _mi('exploration', '5/C10', 'Narrow and wide string edit histories against std::basic_string with symbolic positions/counts; NUL termination; abort predicate; libc differential for find/compare. Every single op and ordered pair from every base string <= 3 chars enumerated.', _N),
    'C11': _mi('exploration', '5/C11', 'All arrays up to length 7/9 over a 4-value alphabet x entry point x element size x selector, every QUICK_R pivot script, adversarial large inputs, and virtual arrays of 2^30..2^33 elements for search/find/reverse (elements reachable only through the callbacks); oracle sorted + byte-multiset equal + callback bounds + search/find/reverse relations.', _N),
    'C12': _mi('exploration', '5/C12', 'Histories over 1-3 dlists against reference sequences audited in both directions after every op; closure over list states and all short sequences.', _N),
    'C13': _mi('exploration', '5/C13', 'Histories over 1-3 slists against reference sequences with size/front/back/traversal audited after every op; push_back right after every structural op by construction.', _N),
    'C14': _mi('exploration', '5/C14', 'Histories over array objects/buffers with boundary bounds against a view/buffer model; addresses checked against live blocks; allocator events per op for lifetime.', _N),
    'C15': _mi('exploration', '5/C15', 'clear with a freeing+poisoning callback applied in every reachable small-scope state of six containers, then the cleared container is compared with a freshly initialised twin under further operations.', _N),
    'C16': _mi('fault_enumeration', '5/C16', 'Generated scripts x fault sets (every single allocation, every suffix, pairs, triples) for map, vector, string, hash, smart pointers, array; documented failure outcome, unchanged contents, continued use, leak audit.', _N + '; faults injected at the library\'s malloc/calloc/realloc only',
               technique='fault-set enumeration over generated operation scripts with a reference-model oracle'),
    'C17': _mi('exploration', '5/C17', 'Built-in hashes evaluated exhaustively on small domains and on the whole float grid of the scale factor with worst-case keys; histories with a hash function that misbehaves at a generated call must abort in that call.', _N,
               technique='exhaustive + boundary + random evaluation of the pure hash functions; stateful PBT with an injected out-of-range hash value'),
    'C18': _mi('exploration', '5/C18', 'Generated client programs (every header alone, ordered pairs, all together; 1 and 2 TUs; .a and .so; include-only and address-of-every-function; each header twice in one TU; each header as a plain C99 client without the private feature-test macro of the library build) built with the project flags against the Makefile-built library.', 'gcc + project Makefile; only compiler/linker/program exit status and exported symbols decide',
               technique='generated client programs (configuration enumeration + seeded sampling) with compile/link/run oracle', engine='vcheck'),
    'C19': _mi('exploration', '5/C19', 'Unique-key hash histories with logging hash functions: load after every resize, per-operation call log must be lookups + relocations from <= 3 buckets, single lookup once finished and after at most B keyed ops.', _N),
    'C20': _mi('exploration', '5/C20', 'Exhaustive table (kind x state x entry point x argument position x copy method) of calls on bitwise copies must abort; original keeps answering; objects moved with the provided functions are used in place and never abort, also throughout generated C05/C14 histories.', _N),
}
