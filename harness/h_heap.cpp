// C07 (the heap always yields a maximum element; the tree stays complete) and
// the heap part of C15.
#include "common/verif.hpp"
extern "C" {
#include "cstl/heap.h"
void vf_static_heap(struct cstl_heap *h, cstl_compare_func_t *cmp, void *priv, size_t off);
}
using namespace vf;

const char *vf_harness_name() { return "heap"; }

namespace {
struct Elem {
    int id, prio, cleared;
    size_t slot;
    struct cstl_heap_node hn;
};
enum Op { PUSH, POP, GET, CLEAR, AUDIT, SWAP, NOPS };
const char *OPN[] = {"push", "pop", "get", "clear", "audit", "swap"};
const uint8_t PROFILES[][NOPS] = {
    {1, 1, 1, 1, 1, 1}, {6, 2, 1, 0, 1, 1}, {3, 4, 1, 0, 1, 0}, {5, 5, 1, 1, 0, 1}, {6, 1, 0, 2, 0, 0}, /* fill */ {14, 1, 1, 0, 0, 0},
};
const int NPROFILES = 6;
const int KEYS[] = {1, 2, 3, 5, 16, 1000};
const size_t MAXLIVE[] = {1000000, 3, 5, 7, 9, 11, 15, 4};

int g_priv_token;   // heap passes the priv given at init
int g_cmp_kind;
int cmp_p(int a, int b)
{
    switch (g_cmp_kind) {
    default:
    case 0: return a - b;
    case 1: return b - a;
    case 2: return a < b ? -2000000000 : a > b ? 2000000000 : 0;
    }
}
// the position of a priority in the order the comparison function induces
long rank_of(int prio) { return g_cmp_kind == 1 ? -(long)prio : (long)prio; }
// "any comparison function" includes one that uses another heap while it compares (priorities derived from a second
// queue). In re-entrant cases (header byte 2, bits 7 and 6) every comparison pushes onto a small heap of its own, asks for
// its top and pops it again.
bool g_reenter;
struct cstl_heap g_aux;
int g_aux_token;
Elem g_aux_e[4];
int aux_cmp(const void *a, const void *b, void *p)
{
    CHECK_NOTHROW(p == &g_aux_token, "C07.cmp.priv", "compare function of the auxiliary heap received a different priv pointer");
    return ((const Elem *)a)->prio - ((const Elem *)b)->prio;
}
void aux_setup()
{
    HarnessScope hs;
    memset(&g_aux, 0xA5, sizeof g_aux);
    cstl_heap_init(&g_aux, aux_cmp, &g_aux_token, offsetof(Elem, hn));
    for (int i = 0; i < 3; i++) {
        memset(&g_aux_e[i], 0x5a, sizeof g_aux_e[i]);
        g_aux_e[i].prio = 10 * (i + 1);
        LIB(cstl_heap_push(&g_aux, &g_aux_e[i]));
    }
}
void aux_use(int x)
{
    HarnessScope hs;
    CNT("class.heap.reentrant_cmp");
    Elem *e = &g_aux_e[3];
    memset(e, 0x5a, sizeof *e);
    e->prio = (x & 1) ? 35 : 5;            // above / below the present top (30)
    const void *g;
    void *r;
    size_t sz;
    LIB(cstl_heap_push(&g_aux, e));
    LIB(g = cstl_heap_get(&g_aux));
    CHECK_NOTHROW(g == ((x & 1) ? (const void *)e : (const void *)&g_aux_e[2]), "C07.top.max", "a heap used from inside the comparison function of another heap did not yield its maximum");
    if (x & 1) { LIB(r = cstl_heap_pop(&g_aux)); CHECK_NOTHROW(r == e, "C07.top.max", "a heap used from inside the comparison function of another heap did not pop its maximum"); }
    else {
        // take everything out and put the three residents back
        void *o[4];
        for (int i = 0; i < 4; i++) LIB(o[i] = cstl_heap_pop(&g_aux));
        CHECK_NOTHROW(o[0] == &g_aux_e[2] && o[1] == &g_aux_e[1] && o[2] == &g_aux_e[0] && o[3] == e, "C07.top.max",
                      "a heap used from inside the comparison function of another heap did not pop in order");
        for (int i = 0; i < 3; i++) LIB(cstl_heap_push(&g_aux, &g_aux_e[i]));
    }
    LIB(sz = cstl_heap_size(&g_aux));
    CHECK_NOTHROW(sz == 3, "C07.size", "auxiliary heap reports size %zu, expected 3", sz);
}
int cmp_cb(const void *a, const void *b, void *p)
{
    // (under C15 a wrong priv after clear is C15's finding: the cleared heap must work like a fresh one)
    CHECK_NOTHROW(p == &g_priv_token, g_prop == "C15" ? "C15.heap.reuse" : "C07.cmp.priv", "compare function received a different priv pointer");
    if (g_reenter) aux_use(((const Elem *)a)->prio ^ ((const Elem *)b)->prio);
    return cmp_p(((const Elem *)a)->prio, ((const Elem *)b)->prio);
}

struct Heap;
struct ClearCtx { Heap *h; std::unordered_set<Elem *> *expect; size_t calls; bool bad; bool keep = false; };
ClearCtx *g_clear_ctx;

struct Heap {
    const char *tag;
    struct cstl_heap h;
    std::unordered_set<Elem *> held;          // elements in the heap (pointer identity)
    std::map<long, size_t> ranks;              // rank (position in the comparison order) -> how many held elements have it
    std::vector<Elem *> all;
    std::vector<Elem *> recycle;             // elements that left the heap (pop / kept by the clear callback) and may be pushed again:
                                             // an element's life is not one stay in one container
    int next_id;
    void init(const char *t)
    {
        tag = t;
        fresh_clear(held);
        ranks.clear();
        recycle.clear();
        next_id = 0;
        memset(&h, 0xA5, sizeof h);      // init must set every field itself (storage that is not zero-filled)
        if ((g_case_hash >> 21) & 1) vf_static_heap(&h, cmp_cb, &g_priv_token, offsetof(Elem, hn));    // CSTL_HEAP_INITIALIZER
        else cstl_heap_init(&h, cmp_cb, &g_priv_token, offsetof(Elem, hn));
    }
    Elem *mk(int prio)
    {
        Elem *e = (Elem *)malloc(sizeof *e);
        memset(e, 0x5a, sizeof *e);
        e->id = next_id++;
        e->prio = prio;
        e->cleared = 0;
        e->slot = all.size();
        all.push_back(e);
        return e;
    }
    void kill(Elem *e)
    {
        // O(1) removal: elements remember their slot in `all`
        size_t i = e->slot;
        if (i < all.size() && all[i] == e) { all[i] = all.back(); all[i]->slot = i; all.pop_back(); }
        memset(e, 0xDD, sizeof *e);
        free(e);
    }
    void destroy() { for (Elem *e : all) free(e); all.clear(); }
    Elem *elem(struct cstl_bintree_node *b) { return (Elem *)((char *)b - offsetof(Elem, hn.bn)); }
};

void clear_cb(void *obj, void *priv)
{
    HarnessScope hs;
    ClearCtx *c = g_clear_ctx;
    c->calls++;
    (void)priv;
    Elem *e = (Elem *)obj;
    if (!c->expect->count(e)) { c->bad = true; return; }    // unknown or already handed over: do not touch
    c->expect->erase(e);
    if (++e->cleared > 1) { c->bad = true; return; }
    if (c->keep && c->h->recycle.size() < 3) c->h->recycle.push_back(e);      // the callee owns it now: here it keeps it for later
    else c->h->kill(e);
}

typedef std::vector<long> Obs;

// shape walk over the public links: positions 1..n occupied exactly, heap order, back links
void shape_rec(Heap &hp, struct cstl_bintree_node *b, struct cstl_bintree_node *parent, uint64_t pos, size_t n,
               size_t &count, uint64_t &maxpos)
{
    if (!b) return;
    count++;
    CHECK(count <= n + 1, "C07.shape.count", "%s links reach more nodes than size() reports (%zu)", hp.tag, n);
    CHECK(b->p == parent, "C07.shape.parent", "%s child's parent link does not point back at its parent", hp.tag);
    CHECK(pos <= n, "C07.shape.complete", "%s node at position %llu in a heap of %zu: the tree is not complete/left-filled",
          hp.tag, (unsigned long long)pos, n);
    if (pos > maxpos) maxpos = pos;
    if (parent)
        CHECK(cmp_p(hp.elem(parent)->prio, hp.elem(b)->prio) >= 0, "C07.shape.order", "%s parent p%d compares less than child p%d",
              hp.tag, hp.elem(parent)->prio, hp.elem(b)->prio);
    shape_rec(hp, b->l, b, pos * 2, n, count, maxpos);
    shape_rec(hp, b->r, b, pos * 2 + 1, n, count, maxpos);
}
void shape_check(Heap &hp)
{
    size_t n = hp.held.size(), count = 0;
    uint64_t maxpos = 0;
    shape_rec(hp, hp.h.bt.root, nullptr, 1, n, count, maxpos);
    CHECK(count == n, "C07.shape.count", "%s links reach %zu nodes, %zu elements are held", hp.tag, count, n);
}
void peek_rec(Heap &hp, struct cstl_bintree_node *b, std::string &s, size_t &budget)
{
    if (!b) { s += '.'; return; }
    if (!budget) { s += '!'; return; }
    budget--;
    s += '(';
    s += std::to_string(hp.elem(b)->prio);
    peek_rec(hp, b->l, s, budget);
    peek_rec(hp, b->r, s, budget);
    s += ')';
}
std::string peek_state(Heap &hp)
{
    std::string s;
    size_t budget = hp.held.size() + 2;
    peek_rec(hp, hp.h.bt.root, s, budget);
    return s + "|" + std::to_string(hp.h.bt.size);
}

struct CaseCtx { bool push_after_pop, pop4ties, popped, clear3, reuse; };

void apply(Heap &hp, CaseCtx &cx, int op, uint8_t a, uint8_t b, int K, size_t maxlive, Obs *obs, bool shape)
{
    g_cur_op = OPN[op];
    if (g_replay_mode == 1) TRACE("> %s %s", hp.tag, OPN[op]);
    switch (op) {
    case PUSH: {
        if (hp.held.size() >= maxlive) { CNT("noop.maxlive"); TRACE("%s push noop", hp.tag); return; }
        int prio = (int)((a | (b << 8)) % (unsigned)K);
        Elem *e;
        if (!hp.recycle.empty() && !obs && ((a ^ b) & 4)) {
            // an element that was in the heap before (popped, or handed back by clear) goes in again, node contents as they were left
            e = hp.recycle.back();
            hp.recycle.pop_back();
            e->prio = prio;
            e->cleared = 0;
            CNT("class.push.reused_element");
        } else e = hp.mk(prio);
        LIB(cstl_heap_push(&hp.h, e));
        hp.held.insert(e);
        hp.ranks[rank_of(prio)]++;
        if (cx.popped) cx.push_after_pop = true;
        TRACE("%s push e%d(p%d) n=%zu", hp.tag, e->id, prio, hp.held.size());
        break;
    }
    case GET:
    case POP: {
        void *r;
        if (op == GET) LIB(r = (void *)cstl_heap_get(&hp.h)); else LIB(r = cstl_heap_pop(&hp.h));
        TRACE("%s %s -> %s n=%zu", hp.tag, OPN[op], r ? "elem" : "NULL", hp.held.size());
        if (obs) obs->push_back(r ? ((Elem *)r)->prio : -1);
        CHECK((r != nullptr) == !hp.held.empty(), "C07.top.iff", "%s %s returned %s on a heap of %zu elements", hp.tag, OPN[op],
              r ? "an element" : "NULL", hp.held.size());
        if (r) {
            auto it = hp.held.find((Elem *)r);
            CHECK(it != hp.held.end(), "C07.top.member", "%s %s returned a pointer that is not an element in the heap", hp.tag, OPN[op]);
            long top = hp.ranks.rbegin()->first, got = rank_of(((Elem *)r)->prio);
            CHECK(got == top, "C07.top.max", "%s %s returned p%d but an element comparing greater is in the heap", hp.tag, OPN[op],
                  ((Elem *)r)->prio);
            size_t ties = hp.ranks.rbegin()->second;
            if (op == POP) {
                if (hp.held.size() >= 4 && ties >= 2) { cx.pop4ties = true; CNT("class.pop_ties4"); }
                hp.held.erase(it);
                if (--hp.ranks[got] == 0) hp.ranks.erase(got);
                if (!obs && hp.recycle.size() < 3 && (b & 2)) hp.recycle.push_back((Elem *)r); else hp.kill((Elem *)r);
                cx.popped = true;
            }
        } else CNT("class.empty_top");
        break;
    }
    case CLEAR: {
        std::unordered_set<Elem *> expect(hp.held.begin(), hp.held.end());
        hp.ranks.clear();
        ClearCtx cc{&hp, &expect, 0, false};
        cc.keep = !obs && (b & 1);
        g_clear_ctx = &cc;
        size_t n = hp.held.size();
        fresh_clear(hp.held);
        LIB(cstl_heap_clear(&hp.h, clear_cb));
        g_clear_ctx = nullptr;
        TRACE("%s clear (n=%zu) callbacks=%zu", hp.tag, n, cc.calls);
        CHECK(!cc.bad, "C15.heap.once", "%s clear callback received an element twice or a foreign object", hp.tag);
        CHECK(cc.calls == n, "C15.heap.once", "%s clear made %zu callbacks for %zu elements", hp.tag, cc.calls, n);
        size_t sz;
        LIB(sz = cstl_heap_size(&hp.h));
        CHECK(sz == 0, g_prop == "C15" ? "C15.heap.empty" : "C07.size", "%s size %zu after clear", hp.tag, sz);
        if (n >= 3) cx.clear3 = true;
        break;
    }
    case AUDIT:
        TRACE("%s audit n=%zu", hp.tag, hp.held.size());
        shape = true;
        break;
    }
    size_t sz;
    LIB(sz = cstl_heap_size(&hp.h));
    if (obs) obs->push_back((long)sz);
    CHECK(sz == hp.held.size(), "C07.size", "%s size %zu, reference %zu", hp.tag, sz, hp.held.size());
    if (shape && (g_prop == "C07" || g_prop.empty())) shape_check(hp);
}

Heap H, HW;
} // namespace

void vf_run(const uint8_t *data, size_t len)
{
    H.destroy();
    HW.destroy();
    Cursor cur(data, len);
    int K = KEYS[cur.u8() % 6];
    g_cmp_kind = cur.u8() % 3;
    uint8_t lb = cur.u8();
    size_t maxlive = MAXLIVE[lb % 8];
    int prof = cur.u8() % NPROFILES;
    bool c15 = g_prop == "C15";
    CaseCtx cx{};
    g_reenter = false;
    if ((lb & 0xC0) == 0xC0 && len < 3000) { aux_setup(); g_reenter = true; }
    H.init("heap");
    HW.init("heap'");
    bool twin = false, swapped = false;
    std::vector<uint8_t> tab;
    for (int o = 0; o < NOPS; o++) for (int k = 0; k < PROFILES[prof][o]; k++) tab.push_back((uint8_t)o);
    TRACE("header prios=%d cmp=%d maxlive=%zu profile=%d", K, g_cmp_kind, maxlive, prof);
    size_t total = cur.remaining() / 3, idx = 0, nops = 0, last_idx = total ? total - 1 : 0;
    for (size_t i = 0; i < total; i++) if (data[cur.i + 3 * i] == 0xFE) { last_idx = i ? i - 1 : 0; break; }
    bool marked = false;
    while (cur.remaining() >= 3) {
        uint8_t o = cur.u8(), a = cur.u8(), b = cur.u8();
        size_t my = idx++;
        if (o == 0xFE) { if (g_want_state) { g_state = peek_state(H); marked = true; } continue; }
        int op = tab[o % tab.size()];
        nops++;
        bool shape = g_want_state ? my >= last_idx : (H.held.size() <= 40 || (H.held.size() <= 2000 ? (my % 16) == 15 : (my % 4096) == 4095));
        Obs oa, ob;
        bool first_clear = c15 && op == CLEAR && !twin;
        if (op == SWAP) {
            // the other heap object (used as the twin under C15, otherwise a second heap that pushes and pops reach only
            // through swap): afterwards every promise about push / pop holds for the exchanged objects
            if (c15) { CNT("noop.swap_c15"); continue; }
            LIB(cstl_heap_swap(&H.h, &HW.h));
            std::swap(H.held, HW.held);
            std::swap(H.ranks, HW.ranks);
            std::swap(H.all, HW.all);
            std::swap(H.recycle, HW.recycle);
            swapped = true;
            CNT("class.swap");
            TRACE("swap heap <-> heap' (now %zu and %zu elements)", H.held.size(), HW.held.size());
            if (H.held.size() + HW.held.size() <= 5000) {        // (the shape walk is O(n))
                apply(H, cx, AUDIT, 0, 0, K, maxlive, nullptr, true);
                apply(HW, cx, AUDIT, 0, 0, K, maxlive, nullptr, true);
            }
            continue;
        }
        if (!twin && !first_clear) { apply(H, cx, op, a, b, K, maxlive, nullptr, shape); continue; }
        bool okA = model_ok([&] { apply(H, cx, op, a, b, K, maxlive, &oa, shape); }), okB;
        if (first_clear) {
            twin = true;
            TRACE("twin created");
            // state right after the clear vs a freshly initialised heap
            auto probe = [&](Heap &hp, Obs &o) {
                size_t sz; const void *g;
                LIB(sz = cstl_heap_size(&hp.h));
                LIB(g = cstl_heap_get(&hp.h));
                o.push_back((long)sz);
                o.push_back(g ? 1 : 0);
            };
            oa.clear();
            probe(H, oa);
            probe(HW, ob);
            okB = true;
        } else {
            okB = model_ok([&] { apply(HW, cx, op, a, b, K, maxlive, &ob, shape); });
            cx.reuse = true;
        }
        CHECK(okA == okB, "C15.heap.reuse", "after clear the heap %s the heap model where a freshly initialised one %s (op %s)",
              okA ? "satisfies" : "violates", okB ? "satisfies it" : "does not", OPN[op]);
        if (!okA) throw Abandon{"C07.(cleared heap and fresh twin alike)"};
        CHECK(oa == ob, "C15.heap.reuse", "after clear the heap behaves differently from a freshly initialised one (op %s)", OPN[op]);
    }
    g_cur_op = "final";
    if (g_prop == "C07" || g_prop.empty()) shape_check(H);
    if (g_want_state && !marked) g_state = peek_state(H);
    // drain half by popping (max order), then clear the rest
    size_t drain = H.held.size() / 2;
    for (size_t i = 0; i < drain; i++) {
        apply(H, cx, POP, 0, 0, K, maxlive, nullptr, false);
        if (twin) apply(HW, cx, POP, 0, 0, K, maxlive, nullptr, false);
    }
    apply(H, cx, CLEAR, 0, 0, K, maxlive, nullptr, false);
    if (twin || swapped) apply(HW, cx, CLEAR, 0, 0, K, maxlive, nullptr, false);
    for (Heap *hp : {&H, &HW}) { for (Elem *e : hp->recycle) hp->kill(e); hp->recycle.clear(); }
    CHECK(H.all.empty() && (!swapped || HW.all.empty()), "C15.heap.once", "%zu elements never reached the clear callback", H.all.size() + HW.all.size());
    g_nontrivial = c15 ? (cx.clear3 && cx.reuse) : (cx.push_after_pop && cx.pop4ties);
    CNTN("ops", nops);
}

void vf_gen(Rng &r, std::vector<uint8_t> &out)
{
    bool c15 = g_prop == "C15";
    out.push_back(r.byte());
    out.push_back(r.byte());
    out.push_back(r.chance(5, 6) ? 0 : r.byte());
    out.push_back(c15 ? (r.chance(2, 3) ? 4 : r.byte()) : r.byte());
    // mostly short; some long; rarely huge (heaps beyond 2^16 elements: every width the slot navigation could truncate to)
    size_t n = r.chance(1, 2) ? 1 + r.below(24) : r.chance(7, 8) ? 1 + r.below(300) : r.chance(2047, 2048) ? 1 + r.below(3000) : 150000 + r.below(160000);
    if (n > 3000) { out[2] = 0; out[3] = 5; }     // unbounded, fill profile
    for (size_t i = 0; i < n; i++) { out.push_back(r.byte() % 251); out.push_back(r.byte()); out.push_back(r.byte()); }
}

bool vf_scope(const std::string &name, Scope &s)
{
    // "<prio idx>:<cmp>:<maxlive idx>[:seqN]"
    int ki = 2, cmp = 0, mi = 4;
    char mode[32] = "closure";
    sscanf(name.c_str(), "%d:%d:%d:%31s", &ki, &cmp, &mi, mode);
    bool c15 = g_prop == "C15";
    s.header = {(uint8_t)ki, (uint8_t)cmp, (uint8_t)mi, 0};
    int K = KEYS[ki % 6];
    for (int k = 0; k < K; k++) s.alphabet.push_back({PUSH, (uint8_t)k, 0});
    s.alphabet.push_back({POP, 0, 0});
    if (!strncmp(mode, "seq", 3)) { s.prune = false; s.max_depth = atoi(mode + 3); }
    if (c15)
        s.trailer = {0xFE, 0, 0, CLEAR, 0, 0, PUSH, 1, 0, PUSH, 0, 0, PUSH, 2, 0, PUSH, 1, 0, POP, 0, 0, GET, 0, 0,
                     PUSH, 2, 0, POP, 0, 0, POP, 0, 0, CLEAR, 0, 0, PUSH, 0, 0, GET, 0, 0};
    else
        s.trailer = {0xFE, 0, 0, GET, 0, 0};
    return true;
}

// ---------------------------------------------------------------- scale engine
// `scale <kmax> <outdir>`: one heap grown element by element to 2^kmax + 1 elements, so a push is made at *every* size
// below that, with a dip of three pops (and a get) at every power of two (sizes 2^k+1, 2^k, 2^k-1: the places where the
// slot of the last element changes level), then drained completely, so a pop is made at every size as well. The slot
// navigation works from the size alone; arithmetic that is right for small heaps (a float logarithm, a narrow
// intermediate) goes wrong at one particular size far beyond what histories reach. Oracle: counts per priority
// (1000 priorities, so ties are everywhere): every pop/get returns an element of the greatest priority present,
// size() agrees, and the links form a complete left-filled tree in heap order at the top size.
namespace {
struct SElem { int prio; int in; struct cstl_heap_node hn; };
int scale_cmp(const void *a, const void *b, void *p)
{
    CHECK_NOTHROW(p == &g_priv_token, "C07.cmp.priv", "compare function received a different priv pointer");
    return ((const SElem *)a)->prio - ((const SElem *)b)->prio;
}
void scale_shape(struct cstl_bintree_node *root, size_t n)
{
    // iterative walk with explicit positions (a recursion would be fine too: depth <= 26)
    std::vector<std::pair<struct cstl_bintree_node *, uint64_t>> st;
    size_t count = 0;
    if (root) { CHECK(root->p == nullptr, "C07.shape.parent", "root has a parent link"); st.push_back({root, 1}); }
    while (!st.empty()) {
        auto [b, pos] = st.back();
        st.pop_back();
        count++;
        CHECK(count <= n, "C07.shape.count", "links reach more nodes than size() reports (%zu)", n);
        CHECK(pos <= n, "C07.shape.complete", "node at position %llu in a heap of %zu: the tree is not complete/left-filled", (unsigned long long)pos, n);
        SElem *e = (SElem *)((char *)b - offsetof(SElem, hn.bn));
        for (int side = 0; side < 2; side++) {
            struct cstl_bintree_node *c = side ? b->r : b->l;
            if (!c) continue;
            CHECK(c->p == b, "C07.shape.parent", "child's parent link does not point back at its parent");
            SElem *ce = (SElem *)((char *)c - offsetof(SElem, hn.bn));
            CHECK(e->prio >= ce->prio, "C07.shape.order", "parent p%d compares less than child p%d", e->prio, ce->prio);
            st.push_back({c, pos * 2 + side});
        }
    }
    CHECK(count == n, "C07.shape.count", "links reach %zu nodes, %zu elements are held", count, n);
}
int engine_scale(int kmax, const char *outdir)
{
    double t0 = now_s();
    case_reset();
    g_cur_op = "scale run";
    const int K = 1000;
    size_t top = ((size_t)1 << kmax) + 1;
    SElem *pool = (SElem *)malloc((top + 3 * (size_t)kmax + 8) * sizeof(SElem));
    if (!pool) { fprintf(stderr, "scale: no memory for %zu elements, skipped\n", top); return 0; }
    std::vector<size_t> cnt(K, 0);
    int maxp = -1;
    size_t n = 0, next = 0;
    uint64_t x = 88172645463325252ull, evals = 0, pops = 0, pushes = 0;
    struct cstl_heap h;
    memset(&h, 0xA5, sizeof h);
    cstl_heap_init(&h, scale_cmp, &g_priv_token, offsetof(SElem, hn));
    auto size_is = [&](const char *after) {
        size_t sz;
        LIB(sz = cstl_heap_size(&h));
        CHECK(sz == n, "C07.size", "size %zu after %s, reference %zu", sz, after, n);
    };
    auto push = [&] {
        x ^= x << 13; x ^= x >> 7; x ^= x << 17;
        SElem *e = &pool[next++];
        memset(e, 0x5a, sizeof *e);
        e->prio = (int)(x % K);
        e->in = 1;
        LIB(cstl_heap_push(&h, e));
        cnt[e->prio]++;
        if (e->prio > maxp) maxp = e->prio;
        n++; pushes++; evals++;
    };
    auto top_check = [&](const void *r, const char *what) {
        CHECK((r != nullptr) == (n != 0), "C07.top.iff", "%s returned %s on a heap of %zu elements", what, r ? "an element" : "NULL", n);
        if (!r) return;
        const SElem *e = (const SElem *)r;
        CHECK(e >= pool && e < pool + next && e->in == 1, "C07.top.member", "%s on a heap of %zu elements returned a pointer that is not an element in the heap", what, n);
        CHECK(e->prio == maxp, "C07.top.max", "%s on a heap of %zu elements returned p%d but an element of p%d is in the heap", what, n, e->prio, maxp);
    };
    auto pop = [&] {
        void *r;
        LIB(r = cstl_heap_pop(&h));
        top_check(r, "pop");
        SElem *e = (SElem *)r;
        e->in = 0;
        cnt[e->prio]--;
        while (maxp >= 0 && cnt[maxp] == 0) maxp--;
        n--; pops++; evals++;
    };
    for (int k = 1; k <= kmax; k++) {
        size_t hi = ((size_t)1 << k) + 1;
        while (n < hi) push();
        size_is("push");
        for (int i = 0; i < 3; i++) { pop(); size_is("pop"); const void *g; LIB(g = cstl_heap_get(&h)); top_check(g, "get"); }
    }
    while (n < top) push();
    size_is("push");
    g_cur_op = "scale run: shape at the top size";
    scale_shape(h.bt.root, n);
    g_cur_op = "scale run: drain";
    while (n) { pop(); if ((n & 0xfffff) == 0) size_is("pop"); }
    void *r;
    LIB(r = cstl_heap_pop(&h));
    top_check(r, "pop");
    free(pool);
    FILE *f = fopen((std::string(outdir) + "/stats-scale-heap.json").c_str(), "w");
    if (f) {
        fprintf(f, "{\"engine\":\"heap-scale\",\"harness\":\"heap\",\"prop\":\"C07\",\"evaluations\":%llu,\"nontrivial\":%llu,"
                   "\"distinct_nontrivial\":0,\"distinct_extra\":1,\"wall_s\":%.3f,\"counters\":{\"scale.pushes\":%llu,\"scale.pops\":%llu,\"scale.top_size\":%zu},\"samples\":["
                   "{\"ops\":[\"push at every size below 2^%d+1 (1000 priorities), three pops and gets at every 2^k+1, shape walk at the top size, pop at every size down to empty\"],\"nontrivial\":true}],"
                   "\"note\":\"one heap through every size up to 2^%d+1; counting oracle\"}\n",
                (unsigned long long)evals, (unsigned long long)evals, now_s() - t0, (unsigned long long)pushes, (unsigned long long)pops, top, kmax, kmax);
        fclose(f);
    }
    return 0;
}
} // namespace

int vf_custom(int argc, char **argv)
{
    if (argc >= 3 && !strcmp(argv[0], "scale")) return engine_scale(atoi(argv[1]), argv[2]);
    fprintf(stderr, "unknown engine\n");
    return 2;
}
