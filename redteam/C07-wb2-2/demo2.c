/*
 * C07 / red team round 2, change 2 -- demo
 *
 * A fixed pool of timer objects (static storage, never malloc'ed or
 * freed).  The queue is reset with cstl_heap_clear(); the callback takes
 * the elements back (as the documentation of cstl_heap_clear() allows:
 * "the callee may take ownership of an element at the time that clr is
 * called") and the program arms the same timer objects again.
 *
 * After the clear the heap must behave like a freshly initialised one:
 * every push counts, pop returns the maximum of what was pushed.
 */
#include <stdio.h>
#include <string.h>
#include <stddef.h>

#include "cstl/heap.h"

struct timer {
    int deadline;
    int armed;
    struct cstl_heap_node hn;
};

static int timer_cmp(const void * a, const void * b, void * p)
{
    (void)p;
    return ((const struct timer *)a)->deadline - ((const struct timer *)b)->deadline;
}

static int handed_back;
static void disarm(void * e, void * p)
{
    (void)p;
    ((struct timer *)e)->armed = 0;
    handed_back++;
}

#define N 5
static struct timer T[N];
static struct cstl_heap Q;

int main(void)
{
    int i, round;

    memset(&Q, 0xA5, sizeof(Q));
    memset(T, 0x5A, sizeof(T));
    cstl_heap_init(&Q, timer_cmp, NULL, offsetof(struct timer, hn));

    for (round = 0; round < 3; round++) {
        int last;

        /* arm every timer of the pool */
        for (i = 0; i < N; i++) {
            T[i].deadline = 100 * round + ((i * 7) % N) * 10;
            T[i].armed = 1;
            cstl_heap_push(&Q, &T[i]);
            if (cstl_heap_size(&Q) != (size_t)(i + 1)) {
                printf("FAIL: round %d: after arming %d timers the heap reports size %zu\n",
                       round, i + 1, cstl_heap_size(&Q));
                return 1;
            }
        }

        if (round == 1) {
            /* this round the timers fire: they must come out latest deadline first */
            last = 1 << 30;
            for (i = 0; i < N; i++) {
                struct timer * const t = cstl_heap_pop(&Q);
                if (t == NULL || !t->armed || t->deadline > last) {
                    printf("FAIL: round %d: pop %d returned %s\n", round, i,
                           t == NULL ? "NULL" : "an element out of order / not armed");
                    return 1;
                }
                last = t->deadline;
                t->armed = 0;
            }
        } else {
            /* this round everything is cancelled at once */
            handed_back = 0;
            cstl_heap_clear(&Q, disarm);
            if (handed_back != N || cstl_heap_size(&Q) != 0) {
                printf("FAIL: round %d: clear handed back %d of %d elements, size %zu\n",
                       round, handed_back, N, cstl_heap_size(&Q));
                return 1;
            }
        }
        if (cstl_heap_pop(&Q) != NULL) {
            printf("FAIL: round %d: pop on the empty heap returned an element\n", round);
            return 1;
        }
    }

    printf("PASS\n");
    return 0;
}
