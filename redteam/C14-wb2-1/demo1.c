/*
 * C14 / red team round 2, change 1 -- demonstration
 *
 * Property clause: "release hands an externally supplied buffer back only to
 * its sole remaining user and otherwise reports NULL and changes nothing".
 *
 * A library-allocated array (cstl_array_alloc) is given to the generic
 * teardown an application uses when it does not know where an array came from:
 *
 *      cstl_array_release(&a, &ext);   // documented: no effect unless external
 *      free(ext);                      // free(NULL) for library-allocated arrays
 *      cstl_array_reset(&a);
 *
 * release() must report NULL and leave the object alone.  The scenario is run
 * three times: with the heap as the process finds it, with every block handed
 * out by malloc() pre-filled with 0x00 (what a fresh heap page contains) and
 * pre-filled with 0xBE (what AddressSanitizer's allocator writes into new
 * blocks).  The guarantee must hold regardless of what malloc()ed memory
 * happens to contain.
 */
#include <stdio.h>
#include <stdlib.h>
#include <string.h>

#include "cstl/array.h"

static int g_fill = -1;

void * __real_malloc(size_t);
void * __wrap_malloc(size_t n)
{
    void * const p = __real_malloc(n);
    if (p != NULL && g_fill >= 0) {
        memset(p, g_fill, n);
    }
    return p;
}

static int scenario(const char * const label)
{
    cstl_array_t a;
    void * ext = &a;    /* neither NULL nor a buffer */
    const int * d;
    int bad = 0;
    size_t i;

    cstl_array_init(&a);
    cstl_array_alloc(&a, 10, sizeof(int));
    if (cstl_array_size(&a) != 10) {
        printf("  [%s] setup: alloc(10, int) gave size %zu\n",
               label, cstl_array_size(&a));
        return 1;
    }
    for (i = 0; i < 10; i++) {
        *(int *)cstl_array_at(&a, i) = (int)i;
    }
    d = cstl_array_data(&a);

    cstl_array_release(&a, &ext);

    if (ext != NULL) {
        printf("  [%s] release() of a library-allocated array handed back %p "
               "(data() was %p): the caller would free() a pointer into the "
               "middle of the library's block\n", label, ext, (const void *)d);
        bad = 1;
    }
    if (cstl_array_size(&a) != 10 || cstl_array_data(&a) != d) {
        printf("  [%s] release() of a library-allocated array changed the "
               "object: size %zu (was 10), data %p (was %p)\n", label,
               cstl_array_size(&a), cstl_array_data(&a), (const void *)d);
        bad = 1;
    }
    if (!bad) {
        printf("  [%s] release() reported NULL and left the array alone\n",
               label);
    }

    cstl_array_reset(&a);
    return bad;
}

int main(void)
{
    int bad = 0;

    setvbuf(stdout, NULL, _IONBF, 0);

    g_fill = -1;
    bad |= scenario("heap as found");
    g_fill = 0x00;
    bad |= scenario("new blocks hold 0x00");
    g_fill = 0xBE;
    bad |= scenario("new blocks hold 0xBE");

    if (bad) {
        printf("FAIL: cstl_array_release() treated a library-allocated array "
               "as an external buffer\n");
        return 1;
    }
    printf("PASS\n");
    return 0;
}
