/*
 * C03 / red team round 2, change 1
 * A forced rehash (cstl_hash_rehash, and through it foreach, shrink_to_fit and a
 * resize issued while another one is pending) must return, and afterwards every
 * live element must be found by its key.
 */
#include <stdio.h>
#include <stdlib.h>
#include <signal.h>
#include <unistd.h>
#include "cstl/hash.h"

struct item { int id; struct cstl_hash_node hn; };

static const char * volatile stage = "start";

static void on_alarm(int sig)
{
    static const char m1[] = "FAIL: library call did not return within 5 s (";
    static const char m2[] = ")\n";
    const char * s = stage;
    size_t n = 0;
    ssize_t r;
    (void)sig;
    while (s[n] != '\0') n++;
    r = write(1, m1, sizeof(m1) - 1);
    r = write(1, s, n);
    r = write(1, m2, sizeof(m2) - 1);
    (void)r;
    _exit(1);
}

#define N 8
int main(void)
{
    DECLARE_CSTL_HASH(h, struct item, hn);
    struct item it[N];
    int i, bad = 0;

    signal(SIGALRM, on_alarm);
    alarm(5);

    cstl_hash_resize(&h, 4, cstl_hash_div);
    for (i = 0; i < N; i++) {
        it[i].id = i;
        cstl_hash_insert(&h, i, &it[i]);
    }

    /* grow; one lookup lands while the rehash is in progress */
    cstl_hash_resize(&h, 8, cstl_hash_div);
    stage = "find during the sweep";
    if (cstl_hash_find(&h, 5, NULL, NULL) != &it[5]) {
        printf("FAIL: key 5 not found during the sweep\n");
        return 1;
    }

    /* now force the rest */
    stage = "cstl_hash_rehash() after one keyed operation of a pending grow";
    cstl_hash_rehash(&h);

    stage = "lookups after the forced rehash";
    for (i = 0; i < N; i++) {
        if (cstl_hash_find(&h, i, NULL, NULL) != &it[i]) {
            printf("FAIL: key %d not found after the forced rehash\n", i);
            bad = 1;
        }
    }
    if (cstl_hash_size(&h) != N) {
        printf("FAIL: size %lu, expected %d\n", (unsigned long)cstl_hash_size(&h), N);
        bad = 1;
    }

    /* the same through a resize issued while another one is pending */
    stage = "resize while pending";
    cstl_hash_resize(&h, 3, cstl_hash_div);
    (void)cstl_hash_find(&h, 2, NULL, NULL);
    cstl_hash_resize(&h, 16, cstl_hash_div);
    stage = "shrink_to_fit while pending";
    (void)cstl_hash_find(&h, 7, NULL, NULL);
    cstl_hash_shrink_to_fit(&h);
    for (i = 0; i < N; i++) {
        if (cstl_hash_find(&h, i, NULL, NULL) != &it[i]) {
            printf("FAIL: key %d not found at the end\n", i);
            bad = 1;
        }
    }
    cstl_hash_clear(&h, NULL);
    if (bad) return 1;
    printf("PASS\n");
    return 0;
}
