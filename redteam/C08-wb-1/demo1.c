/*
 * C08 demo 1: iterators to OTHER entries must survive an erase.
 *
 * A user looks up two entries, keeps both iterators, and then removes the
 * entries one after the other through cstl_map_erase_iterator() (variant A),
 * or removes one, adds a new entry, and removes the other (variant B).
 * Afterwards the map must hold exactly the keys inserted and not erased.
 *
 * Every trial runs in a child process so that a crash inside the library is
 * reported as a failure of that trial instead of killing the demo.
 */
#include "cstl/map.h"

#include <stdio.h>
#include <stdlib.h>
#include <unistd.h>
#include <sys/types.h>
#include <sys/wait.h>

#define NKEYS 15

static int keys[NKEYS + 1];
static int vals[NKEYS + 1];

static int cmp_int(const void * const a, const void * const b, void * const p)
{
    const int x = *(const int *)a, y = *(const int *)b;
    (void)p;
    return (x > y) - (x < y);
}

static int present(const cstl_map_t * const m, const int k)
{
    cstl_map_iterator_t i;
    cstl_map_find(m, &k, &i);
    if (cstl_map_iterator_eq(&i, cstl_map_iterator_end(m))) {
        return 0;
    }
    /* must be the stored pointers of that very key */
    return (i.key == &keys[k] && i.val == &vals[k]) ? 1 : -1;
}

/* returns 0 when the map is exactly what the property promises */
static int trial(const int a, const int b, const int with_insert)
{
    cstl_map_t m;
    cstl_map_iterator_t ia, ib;
    size_t want;
    int k, bad = 0;

    cstl_map_init(&m, cmp_int, NULL);
    for (k = 0; k < NKEYS; k++) {
        if (cstl_map_insert(&m, &keys[k], &vals[k], NULL) != 0) {
            return 2;
        }
    }

    cstl_map_find(&m, &keys[a], &ia);
    cstl_map_find(&m, &keys[b], &ib);

    cstl_map_erase_iterator(&m, &ia);
    want = NKEYS - 2;
    if (with_insert) {
        /* a brand new key, larger than all others */
        if (cstl_map_insert(&m, &keys[NKEYS], &vals[NKEYS], NULL) != 0) {
            return 2;
        }
        want++;
    }
    cstl_map_erase_iterator(&m, &ib);

    if (cstl_map_size(&m) != want) {
        bad = 1;
    }
    for (k = 0; k <= NKEYS; k++) {
        int exp = 1;
        if (k == a || k == b || (k == NKEYS && !with_insert)) {
            exp = 0;
        }
        if (present(&m, k) != exp) {
            bad = 1;
        }
    }

    cstl_map_clear(&m, NULL, NULL);
    return bad;
}

static int run_in_child(const int a, const int b, const int with_insert)
{
    int st;
    const pid_t pid = fork();
    if (pid == 0) {
        /* keep the allocator/loader quiet if the library corrupts the heap */
        if (freopen("/dev/null", "w", stderr) == NULL) {
            _exit(3);
        }
        _exit(trial(a, b, with_insert));
    }
    if (pid < 0 || waitpid(pid, &st, 0) != pid) {
        return 3;
    }
    if (WIFSIGNALED(st)) {
        return 100 + WTERMSIG(st);
    }
    return WEXITSTATUS(st);
}

int main(void)
{
    int a, v, fails = 0;

    for (a = 0; a <= NKEYS; a++) {
        keys[a] = a;
        vals[a] = 1000 + a;
    }

    for (v = 0; v < 2; v++) {
        for (a = 0; a + 1 < NKEYS; a++) {
            /* the two entries: key a and the next larger key */
            const int rc = run_in_child(a, a + 1, v);
            if (rc != 0) {
                fails++;
                if (rc >= 100) {
                    printf("  variant %c, erase %d then %d through kept "
                           "iterators: the library crashed (signal %d)\n",
                           "AB"[v], a, a + 1, rc - 100);
                } else {
                    printf("  variant %c, erase %d then %d through kept "
                           "iterators: wrong map contents afterwards "
                           "(an erased key is still there and/or another "
                           "entry was lost, or size is off)\n",
                           "AB"[v], a, a + 1);
                }
            }
        }
    }

    if (fails) {
        printf("FAIL: %d of %d trials: erasing one entry invalidated the "
               "iterator of a different entry\n", fails, 2 * (NKEYS - 1));
        return 1;
    }
    printf("PASS\n");
    return 0;
}
