/*
 * C01 / wave 5, change 2: demo.
 *
 * A history of insert, erase and clear on a cstl_bintree and a cstl_rbtree;
 * after every operation size() must equal the number of elements inserted and
 * not yet removed (by erase or by clear), and a forward traversal must present
 * exactly that many elements.
 */
#include <stdio.h>
#include <stdlib.h>

#include "cstl/bintree.h"
#include "cstl/rbtree.h"

struct item {
    int key;
    struct cstl_bintree_node bn;
    struct cstl_rbtree_node rn;
};

static int cmp_item(const void * a, const void * b, void * p)
{
    (void)p;
    return ((const struct item *)a)->key - ((const struct item *)b)->key;
}

static size_t handed_over;
static void release(void * e, void * p)
{
    (void)p;
    handed_over++;
    free(e);
}

static int count_visit(const void * e, cstl_bintree_visit_order_t ord, void * p)
{
    (void)e;
    if (ord == CSTL_BINTREE_VISIT_ORDER_MID
        || ord == CSTL_BINTREE_VISIT_ORDER_LEAF) {
        ++*(size_t *)p;
    }
    return 0;
}

static int failures;
static struct cstl_bintree bt;
static struct cstl_rbtree rt;

static size_t tsize(int rb)
{
    return rb ? cstl_rbtree_size(&rt) : cstl_bintree_size(&bt);
}

static void check(int rb, size_t expect, const char * when)
{
    size_t walked = 0;
    const size_t sz = tsize(rb);

    if (rb) {
        cstl_rbtree_foreach(&rt, count_visit, &walked,
                            CSTL_BINTREE_FOREACH_DIR_FWD);
    } else {
        cstl_bintree_foreach(&bt, count_visit, &walked,
                             CSTL_BINTREE_FOREACH_DIR_FWD);
    }
    if (sz != expect || walked != expect) {
        printf("FAIL: %s, %s: size() = %zu, traversal presents %zu elements, "
               "%zu elements are held\n", rb ? "rbtree" : "bintree", when,
               sz, walked, expect);
        failures++;
    }
}

static void insert(int rb, int key)
{
    struct item * const it = malloc(sizeof(*it));
    it->key = key;
    if (rb) cstl_rbtree_insert(&rt, it, NULL);
    else cstl_bintree_insert(&bt, it, NULL);
}

static void erase(int rb, int key)
{
    struct item probe;
    probe.key = key;
    free(rb ? cstl_rbtree_erase(&rt, &probe) : cstl_bintree_erase(&bt, &probe));
}

static void clear(int rb)
{
    if (rb) cstl_rbtree_clear(&rt, release, NULL);
    else cstl_bintree_clear(&bt, release, NULL);
}

int main(void)
{
    int rb;

    for (rb = 0; rb < 2; rb++) {
        cstl_bintree_init(&bt, cmp_item, NULL, offsetof(struct item, bn));
        cstl_rbtree_init(&rt, cmp_item, NULL, offsetof(struct item, rn));

        insert(rb, 5);
        insert(rb, 3);
        insert(rb, 8);
        insert(rb, 3);
        check(rb, 4, "after 4 inserts");
        erase(rb, 5);
        check(rb, 3, "after erasing one of them");

        handed_over = 0;
        clear(rb);
        if (handed_over != 3) {
            printf("FAIL: %s: clear handed over %zu of 3 elements\n",
                   rb ? "rbtree" : "bintree", handed_over);
            failures++;
        }
        check(rb, 0, "after clear (nothing is held)");

        insert(rb, 7);
        insert(rb, 2);
        check(rb, 2, "after clear and 2 more inserts");
        erase(rb, 7);
        erase(rb, 2);
        check(rb, 0, "after erasing both again (tree is empty)");

        clear(rb);
        check(rb, 0, "after clearing the empty tree");
        insert(rb, 1);
        clear(rb);
        check(rb, 0, "after insert and clear");
    }

    if (failures) {
        printf("FAIL: size does not equal the number of held elements "
               "(%d checks failed)\n", failures);
        return 1;
    }
    printf("PASS\n");
    return 0;
}
