/*
 * C15 / red team round 2, change 1 -- demonstration
 *
 * "clear ... leaves the container empty, with size 0, and usable exactly like a
 * freshly initialised one."
 *
 * Each container below is initialised with a comparison function that needs its
 * private pointer (a `struct order` that says whether the order is ascending or
 * descending) -- that is what the priv argument of cstl_*_init() is for.  The
 * container is filled, cleared with a callback that frees the elements (the
 * callback's own priv is NULL, or a counter, as in most programs), and then
 * used again next to a freshly initialised twin.  Both must behave alike: the
 * comparison function must be handed the pointer given at init time, and the
 * results (walk order / pop order / lookups) must be equal.
 */
#include <stdio.h>
#include <stdlib.h>
#include <string.h>

#include "cstl/bintree.h"
#include "cstl/rbtree.h"
#include "cstl/heap.h"
#include "cstl/map.h"

struct order {
    int descending;
};
static struct order the_order = { 1 };

static int failures;
#define FAILF(...) do { printf("  violated: " __VA_ARGS__); printf("\n"); failures++; } while (0)

/* what the comparison functions observed */
static const void * wrong_priv;
static int wrong_priv_calls;

static int apply_order(const int d, void * const p)
{
    if (p != &the_order) {
        /* a real program would dereference p here; the demonstration records it instead */
        wrong_priv = p;
        wrong_priv_calls++;
        return d;
    }
    return ((const struct order *)p)->descending ? -d : d;
}

struct item {
    int key;
    struct cstl_bintree_node bn;
    struct cstl_rbtree_node rn;
    struct cstl_heap_node hn;
};

static int cmp_item(const void * const a, const void * const b, void * const p)
{
    return apply_order(((const struct item *)a)->key - ((const struct item *)b)->key, p);
}

static int cmp_key(const void * const a, const void * const b, void * const p)
{
    return apply_order(*(const int *)a - *(const int *)b, p);
}

static struct item * mk(const int key)
{
    struct item * const it = malloc(sizeof(*it));
    memset(it, 0x5a, sizeof(*it));
    it->key = key;
    return it;
}

static int freed;
static void free_item(void * const e, void * const p)
{
    if (p != NULL) {
        ++*(int *)p;
    }
    freed++;
    free(e);
}

static void free_entry(void * const e, void * const p)
{
    cstl_map_iterator_t * const i = e;
    (void)p;
    freed++;
    free((void *)i->key);
}

struct seq {
    int n;
    int k[16];
};

static int collect(const void * const e, const cstl_bintree_visit_order_t ord, void * const p)
{
    struct seq * const s = p;
    if (ord == CSTL_BINTREE_VISIT_ORDER_MID || ord == CSTL_BINTREE_VISIT_ORDER_LEAF) {
        s->k[s->n++] = ((const struct item *)e)->key;
    }
    return 0;
}

static const int first[] = { 4, 9, 1, 7, 3 };
static const int again[] = { 5, 2, 8, 6 };
#define N(a) ((int)(sizeof(a) / sizeof((a)[0])))

static void report(const char * const kind, const struct seq * const a, const struct seq * const b,
                   const char * const what)
{
    int i;
    if (wrong_priv_calls != 0) {
        FAILF("%s: after clear the comparison function was called %d time(s) with %s instead of "
              "the priv pointer given to init", kind, wrong_priv_calls,
              wrong_priv == NULL ? "NULL" : "some other pointer (the one passed to clear for its callback)");
    }
    if (a->n != b->n || memcmp(a->k, b->k, sizeof(int) * (size_t)a->n) != 0) {
        printf("  violated: %s: %s of the cleared container:", kind, what);
        for (i = 0; i < a->n; i++) {
            printf(" %d", a->k[i]);
        }
        printf("; of a freshly initialised one:");
        for (i = 0; i < b->n; i++) {
            printf(" %d", b->k[i]);
        }
        printf("\n");
        failures++;
    }
    wrong_priv_calls = 0;
    wrong_priv = NULL;
}

static void tree_case(const int rb)
{
    const char * const kind = rb ? "rbtree" : "bintree";
    struct cstl_bintree bt[2];
    struct cstl_rbtree rt[2];
    struct seq s[2];
    int handed = 0, i, t;

    for (t = 0; t < 2; t++) {
        cstl_bintree_init(&bt[t], cmp_item, &the_order, offsetof(struct item, bn));
        cstl_rbtree_init(&rt[t], cmp_item, &the_order, offsetof(struct item, rn));
    }
    for (i = 0; i < N(first); i++) {
        if (rb) {
            cstl_rbtree_insert(&rt[0], mk(first[i]), NULL);
        } else {
            cstl_bintree_insert(&bt[0], mk(first[i]), NULL);
        }
    }
    freed = 0;
    if (rb) {
        cstl_rbtree_clear(&rt[0], free_item, &handed);
    } else {
        cstl_bintree_clear(&bt[0], free_item, &handed);
    }
    if (freed != N(first) || handed != N(first)) {
        FAILF("%s: clear made %d callbacks for %d elements", kind, freed, N(first));
    }
    if ((rb ? cstl_rbtree_size(&rt[0]) : cstl_bintree_size(&bt[0])) != 0) {
        FAILF("%s: size is not 0 after clear", kind);
    }
    wrong_priv_calls = 0;
    /* the same use of the cleared tree [0] and of the fresh twin [1] */
    for (t = 0; t < 2; t++) {
        for (i = 0; i < N(again); i++) {
            if (rb) {
                cstl_rbtree_insert(&rt[t], mk(again[i]), NULL);
            } else {
                cstl_bintree_insert(&bt[t], mk(again[i]), NULL);
            }
        }
        s[t].n = 0;
        if (rb) {
            cstl_rbtree_foreach(&rt[t], collect, &s[t], CSTL_BINTREE_FOREACH_DIR_FWD);
        } else {
            cstl_bintree_foreach(&bt[t], collect, &s[t], CSTL_BINTREE_FOREACH_DIR_FWD);
        }
    }
    report(kind, &s[0], &s[1], "forward walk");
    for (t = 0; t < 2; t++) {
        if (rb) {
            cstl_rbtree_clear(&rt[t], free_item, NULL);
        } else {
            cstl_bintree_clear(&bt[t], free_item, NULL);
        }
    }
}

static void heap_case(void)
{
    struct cstl_heap h[2];
    struct seq s[2];
    int i, t;

    for (t = 0; t < 2; t++) {
        cstl_heap_init(&h[t], cmp_item, &the_order, offsetof(struct item, hn));
    }
    for (i = 0; i < N(first); i++) {
        cstl_heap_push(&h[0], mk(first[i]));
    }
    freed = 0;
    cstl_heap_clear(&h[0], free_item);
    if (freed != N(first)) {
        FAILF("heap: clear made %d callbacks for %d elements", freed, N(first));
    }
    if (cstl_heap_size(&h[0]) != 0) {
        FAILF("heap: size is not 0 after clear");
    }
    wrong_priv_calls = 0;
    for (t = 0; t < 2; t++) {
        struct item * it;
        for (i = 0; i < N(again); i++) {
            cstl_heap_push(&h[t], mk(again[i]));
        }
        s[t].n = 0;
        while ((it = cstl_heap_pop(&h[t])) != NULL) {
            s[t].k[s[t].n++] = it->key;
            free(it);
        }
    }
    report("heap", &s[0], &s[1], "pop order");
}

static void map_case(void)
{
    cstl_map_t m[2];
    struct seq s[2];
    int i, t;

    for (t = 0; t < 2; t++) {
        cstl_map_init(&m[t], cmp_key, &the_order);
    }
    for (i = 0; i < N(first); i++) {
        int * const k = malloc(sizeof(*k));
        *k = first[i];
        cstl_map_insert(&m[0], k, k, NULL);
    }
    freed = 0;
    cstl_map_clear(&m[0], free_entry, NULL);
    if (freed != N(first)) {
        FAILF("map: clear made %d callbacks for %d entries", freed, N(first));
    }
    if (cstl_map_size(&m[0]) != 0) {
        FAILF("map: size is not 0 after clear");
    }
    wrong_priv_calls = 0;
    for (t = 0; t < 2; t++) {
        for (i = 0; i < N(again); i++) {
            int * const k = malloc(sizeof(*k));
            *k = again[i];
            cstl_map_insert(&m[t], k, k, NULL);
        }
        /* observable: which of the keys 1..9 are found */
        s[t].n = 0;
        for (i = 1; i <= 9; i++) {
            cstl_map_iterator_t it;
            cstl_map_find(&m[t], &i, &it);
            s[t].k[s[t].n++] = cstl_map_iterator_eq(&it, cstl_map_iterator_end(&m[t])) ? 0 : 1;
        }
    }
    report("map", &s[0], &s[1], "lookups of 1..9");
    for (t = 0; t < 2; t++) {
        cstl_map_clear(&m[t], free_entry, NULL);
    }
}

int main(void)
{
    tree_case(0);
    tree_case(1);
    heap_case();
    map_case();
    if (failures != 0) {
        printf("FAIL: %d difference(s) between a cleared container and a freshly initialised one\n", failures);
        return 1;
    }
    printf("PASS: cleared bintree, rbtree, heap and map behave like freshly initialised ones\n");
    return 0;
}
