/*
 * C04 / wave 5, change 1: cstl_hash_clear(h, NULL) on a table that still
 * holds elements must leave the table empty (the elements live in a pool
 * owned by the caller, so there is nothing to hand over) and reusable after a
 * fresh resize. Also shows that the callback path still works.
 */
#include <stdio.h>
#include <stdlib.h>
#include "cstl/hash.h"

struct item { int v; struct cstl_hash_node hn; };

static int count_visit(const void * e, void * p) { (void)e; ++*(int *)p; return 0; }
static int handed;
static void handed_over(void * e, void * p) { (void)e; (void)p; handed++; }

int main(void)
{
    static struct item pool[16];            /* caller-owned storage: nothing to free */
    struct cstl_hash h;
    int i, fails = 0, seen;

    cstl_hash_init(&h, offsetof(struct item, hn));

    /* round 1: fill, then drop everything with a NULL callback */
    cstl_hash_resize(&h, 8, cstl_hash_div);
    for (i = 0; i < 5; i++) { pool[i].v = i; cstl_hash_insert(&h, i, &pool[i]); }
    cstl_hash_clear(&h, NULL);
    if (cstl_hash_size(&h) != 0) {
        printf("FAIL: after cstl_hash_clear(h, NULL) the table reports %zu elements, expected 0\n", cstl_hash_size(&h));
        fails++;
    }

    /* round 2: reuse after a fresh resize */
    cstl_hash_resize(&h, 4, cstl_hash_div);
    for (i = 0; i < 3; i++) cstl_hash_insert(&h, 100 + i, &pool[8 + i]);
    seen = 0;
    cstl_hash_foreach_const(&h, count_visit, &seen);
    if (cstl_hash_size(&h) != 3 || seen != 3) {
        printf("FAIL: reused table holds 3 elements (foreach_const visits %d) but cstl_hash_size says %zu, load %g (expected 0.75)\n",
               seen, cstl_hash_size(&h), cstl_hash_load(&h));
        fails++;
    }

    /* the callback path: every element once, table empty */
    cstl_hash_clear(&h, handed_over);
    if (handed != 3 || cstl_hash_size(&h) != 0) {
        printf("FAIL: clear with a callback handed over %d of 3 elements, size afterwards %zu\n", handed, cstl_hash_size(&h));
        fails++;
    }

    if (fails) return 1;
    printf("PASS\n");
    return 0;
}
