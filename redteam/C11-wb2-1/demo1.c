/*
 * C11 / red team round 2, change 1 -- demo
 *
 * Two sorts that are alive at the same time, on DISJOINT arrays with
 * their own scratch elements:
 *
 *  A. nested: an array of records is sorted; comparing two records
 *     needs their (small) tag lists in canonical order, which the
 *     comparison function establishes lazily by sorting the tag list
 *     of a record the first time it sees it -- with cstl_raw_array_sort.
 *
 *  B. two threads, each sorting an array of its own. The interleaving
 *     is forced (not left to the scheduler): thread 1 stops inside its
 *     3rd comparison until thread 2 has sorted its array completely.
 *
 * Each sort must leave a sorted permutation of its own input
 * (byte-identical elements, nothing lost or duplicated).
 */
#include <stdio.h>
#include <stdlib.h>
#include <string.h>
#include <signal.h>
#include <unistd.h>
#include <pthread.h>

#include "cstl/array.h"

static void on_crash(int sig)
{
    static const char m[] = "FAIL: the sort crashed (signal) while another sort was active\n";
    static const char h[] = "FAIL: the sort did not return within 20 s while another sort was active\n";
    ssize_t r = sig == SIGALRM ? write(1, h, sizeof(h) - 1) : write(1, m, sizeof(m) - 1);
    (void)r;
    _exit(1);
}

/* ------------------------------------------------------------ helpers */
static int int_cmp(const void * a, const void * b, void * p)
{
    (void)p;
    return (*(const int *)a > *(const int *)b) - (*(const int *)a < *(const int *)b);
}

static int bytes_cmp_sz;
static int bytes_cmp(const void * a, const void * b)
{
    return memcmp(a, b, bytes_cmp_sz);
}
/* are the n elements of sz bytes in `now` a permutation of those in `was`? */
static int same_elements(const void * was, const void * now, size_t n, size_t sz)
{
    void * x = malloc(n * sz), * y = malloc(n * sz);
    int eq;
    memcpy(x, was, n * sz);
    memcpy(y, now, n * sz);
    bytes_cmp_sz = sz;
    qsort(x, n, sz, bytes_cmp);
    qsort(y, n, sz, bytes_cmp);
    eq = memcmp(x, y, n * sz) == 0;
    free(x); free(y);
    return eq;
}

/* ------------------------------------------------------------ A: nested */
#define NTAGS 6
struct rec {
    int canonical;          /* tags[] already in ascending order? */
    int tags[NTAGS];
    int id;
};
static int tag_scratch;     /* scratch element of the inner sorts */

static void canonicalize(struct rec * r)
{
    if (!r->canonical) {
        cstl_raw_array_sort(r->tags, NTAGS, sizeof(int), int_cmp, NULL,
                            cstl_swap, &tag_scratch, CSTL_SORT_ALGORITHM_QUICK);
        r->canonical = 1;
    }
}
/* records compare by their tag lists taken as sets (lexicographic on the sorted list) */
static int rec_cmp(const void * a, const void * b, void * p)
{
    struct rec * x = (struct rec *)a, * y = (struct rec *)b;
    int i;
    (void)p;
    canonicalize(x);
    canonicalize(y);
    for (i = 0; i < NTAGS; i++) {
        if (x->tags[i] != y->tags[i]) {
            return x->tags[i] < y->tags[i] ? -1 : 1;
        }
    }
    return 0;
}

static int scenario_nested(cstl_sort_algorithm_t algo, const char * name)
{
    enum { N = 40 };
    struct rec arr[N], ref[N], scratch;
    unsigned s = 12345;
    int i, j;

    for (i = 0; i < N; i++) {
        arr[i].canonical = 0;
        arr[i].id = i;
        for (j = 0; j < NTAGS; j++) {
            s = s * 1103515245u + 12345u;
            arr[i].tags[j] = (s >> 16) % 50;
        }
    }
    /* reference: the same records with their tag lists put in order */
    memcpy(ref, arr, sizeof(arr));
    for (i = 0; i < N; i++) {
        int k, l;
        for (k = 1; k < NTAGS; k++) {
            for (l = k; l > 0 && ref[i].tags[l - 1] > ref[i].tags[l]; l--) {
                int t = ref[i].tags[l]; ref[i].tags[l] = ref[i].tags[l - 1]; ref[i].tags[l - 1] = t;
            }
        }
        ref[i].canonical = 1;
    }

    cstl_raw_array_sort(arr, N, sizeof(arr[0]), rec_cmp, NULL, cstl_swap, &scratch, algo);

    for (i = 0; i < N; i++) {
        canonicalize(&arr[i]);       /* (a record the sort never compared) */
    }
    if (!same_elements(ref, arr, N, sizeof(arr[0]))) {
        printf("FAIL: nested sort (%s): the %d records are not the records that were put in "
               "(elements torn / lost / duplicated)\n", name, N);
        return 1;
    }
    for (i = 1; i < N; i++) {
        if (rec_cmp(&arr[i - 1], &arr[i], NULL) > 0) {
            printf("FAIL: nested sort (%s): record %d compares greater than record %d after the sort\n",
                   name, i - 1, i);
            return 1;
        }
    }
    return 0;
}

/* ------------------------------------------------------------ B: two threads */
struct wide { long key; char pad[24]; };     /* thread 1's elements: 32 bytes */

static pthread_mutex_t mu = PTHREAD_MUTEX_INITIALIZER;
static pthread_cond_t cv = PTHREAD_COND_INITIALIZER;
static int t1_inside, t2_done;
static int t1_calls;

static int wide_cmp(const void * a, const void * b, void * p)
{
    const struct wide * x = a, * y = b;
    (void)p;
    if (++t1_calls == 3) {
        /* stop here until the other thread has sorted its own array */
        pthread_mutex_lock(&mu);
        t1_inside = 1;
        pthread_cond_broadcast(&cv);
        while (!t2_done) {
            pthread_cond_wait(&cv, &mu);
        }
        pthread_mutex_unlock(&mu);
    }
    return (x->key > y->key) - (x->key < y->key);
}

enum { NW = 64, NI = 50 };
static struct wide warr[NW], wref[NW], wscratch;
static int iarr[NI], iref[NI], iscratch;

static void * thread2(void * arg)
{
    (void)arg;
    pthread_mutex_lock(&mu);
    while (!t1_inside) {
        pthread_cond_wait(&cv, &mu);
    }
    pthread_mutex_unlock(&mu);

    cstl_raw_array_sort(iarr, NI, sizeof(int), int_cmp, NULL, cstl_swap, &iscratch,
                        CSTL_SORT_ALGORITHM_HEAP);

    pthread_mutex_lock(&mu);
    t2_done = 1;
    pthread_cond_broadcast(&cv);
    pthread_mutex_unlock(&mu);
    return NULL;
}

static int scenario_threads(void)
{
    pthread_t th;
    unsigned s = 777;
    int i;

    for (i = 0; i < NW; i++) {
        s = s * 1103515245u + 12345u;
        memset(&warr[i], 0, sizeof(warr[i]));
        warr[i].key = (s >> 16) % 1000;
        snprintf(warr[i].pad, sizeof(warr[i].pad), "elem-%d", i);
    }
    for (i = 0; i < NI; i++) {
        s = s * 1103515245u + 12345u;
        iarr[i] = (s >> 16) % 1000;
    }
    memcpy(wref, warr, sizeof(warr));
    memcpy(iref, iarr, sizeof(iarr));

    pthread_create(&th, NULL, thread2, NULL);
    cstl_raw_array_sort(warr, NW, sizeof(warr[0]), wide_cmp, NULL, cstl_swap, &wscratch,
                        CSTL_SORT_ALGORITHM_QUICK_M);
    pthread_join(th, NULL);

    if (!same_elements(iref, iarr, NI, sizeof(int))) {
        printf("FAIL: threads: thread 2's array does not hold the elements it held before\n");
        return 1;
    }
    for (i = 1; i < NI; i++) {
        if (iarr[i - 1] > iarr[i]) {
            printf("FAIL: threads: thread 2's array is not sorted at index %d\n", i);
            return 1;
        }
    }
    if (!same_elements(wref, warr, NW, sizeof(warr[0]))) {
        printf("FAIL: threads: thread 1's array (32-byte elements) does not hold the elements it held "
               "before its sort: elements torn / lost / duplicated while thread 2 sorted a different array\n");
        return 1;
    }
    for (i = 1; i < NW; i++) {
        if (warr[i - 1].key > warr[i].key) {
            printf("FAIL: threads: thread 1's array is not sorted: key %ld before key %ld at index %d\n",
                   warr[i - 1].key, warr[i].key, i);
            return 1;
        }
    }
    return 0;
}

int main(void)
{
    int bad = 0;

    signal(SIGSEGV, on_crash);
    signal(SIGBUS, on_crash);
    signal(SIGABRT, on_crash);
    signal(SIGFPE, on_crash);
    signal(SIGALRM, on_crash);
    alarm(20);

    bad |= scenario_nested(CSTL_SORT_ALGORITHM_QUICK_M, "QUICK_M");
    bad |= scenario_nested(CSTL_SORT_ALGORITHM_HEAP, "HEAP");
    bad |= scenario_threads();

    if (bad) {
        return 1;
    }
    printf("PASS\n");
    return 0;
}
