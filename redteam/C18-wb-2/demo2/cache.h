/* another client module, also built on the map */
#ifndef DEMO_CACHE_H
#define DEMO_CACHE_H

#include "cstl/map.h"

struct cache { cstl_map_t entries; unsigned hits, misses; };
void cache_init(struct cache * c);

#endif
