/*
 * C11 / wave 5, change 1: demo.
 *
 * Sorts "organ-pipe" data (values rise to a peak and fall again: 0 1 2 ... k ... 2 1 0)
 * and two other shapes through the raw-array and the vector entry points with
 * every algorithm selector value from 0 to 5 plus two far out-of-range ones,
 * and checks that the result is a non-decreasing permutation of the input.
 *
 * Selector value 5 is passed as a number on purpose: before the change it is an
 * out-of-range value (which the property says must still sort), after the
 * change it is the new named algorithm CSTL_SORT_ALGORITHM_INTRO.
 */
#include <stdio.h>
#include <stdlib.h>
#include <string.h>

#include "cstl/array.h"
#include "cstl/vector.h"

struct rec {
    int key;
    unsigned int tag;   /* original position: makes every element unique */
};

static int cmp_rec(const void * a, const void * b, void * p)
{
    const int x = ((const struct rec *)a)->key, y = ((const struct rec *)b)->key;
    (void)p;
    return (x > y) - (x < y);
}

enum { SORTED, ORGAN_PIPE, ORGAN_PIPE_DISTINCT, RANDOM, NSHAPES };
static const char * const shape_name[] = {
    "sorted", "organ-pipe", "organ-pipe (all keys distinct)", "random"
};

static void fill(struct rec * a, size_t n, int shape)
{
    unsigned int l = 2463534242u;
    size_t i;

    for (i = 0; i < n; i++) {
        switch (shape) {
        case SORTED: a[i].key = (int)i; break;
        case ORGAN_PIPE: a[i].key = (int)(i < n - 1 - i ? i : n - 1 - i); break;
        case ORGAN_PIPE_DISTINCT:
            a[i].key = (int)(i < n / 2 ? 2 * i : 2 * (n - 1 - i) + 1);
            break;
        default:
            l = l * 1664525u + 1013904223u;
            a[i].key = (int)((l >> 8) % 1000);
            break;
        }
        a[i].tag = (unsigned int)i;
    }
}

/* 0: fine, 1: not sorted, 2: not a permutation of the input */
static int verdict(const struct rec * in, const struct rec * out, size_t n,
                   size_t * where)
{
    unsigned char * seen;
    size_t i;
    int res = 0;

    for (i = 1; i < n; i++) {
        if (out[i - 1].key > out[i].key) {
            *where = i;
            return 1;
        }
    }
    seen = calloc(n ? n : 1, 1);
    for (i = 0; i < n && res == 0; i++) {
        const unsigned int t = out[i].tag;
        if (t >= n || seen[t] || in[t].key != out[i].key) {
            *where = i;
            res = 2;
        } else {
            seen[t] = 1;
        }
    }
    free(seen);
    return res;
}

int main(void)
{
    static const int selectors[] = { 0, 1, 2, 3, 4, 5, 99, 2897234 };
    static const size_t sizes[] = { 16, 17, 100, 1000, 5000 };
    int failures = 0;
    size_t si, ni;
    int shape, entry;

    srand(1);
    for (si = 0; si < sizeof(selectors) / sizeof(*selectors); si++) {
        for (ni = 0; ni < sizeof(sizes) / sizeof(*sizes); ni++) {
            for (shape = 0; shape < NSHAPES; shape++) {
                for (entry = 0; entry < 2; entry++) {
                    const size_t n = sizes[ni];
                    const cstl_sort_algorithm_t algo =
                        (cstl_sort_algorithm_t)selectors[si];
                    struct rec * const in = malloc(n * sizeof(*in));
                    struct rec * const out = malloc(n * sizeof(*out));
                    size_t where = 0;
                    int v;

                    fill(in, n, shape);
                    if (entry == 0) {
                        struct rec tmp;
                        memcpy(out, in, n * sizeof(*in));
                        cstl_raw_array_sort(out, n, sizeof(*out),
                                            cmp_rec, NULL,
                                            cstl_swap, &tmp, algo);
                    } else {
                        DECLARE_CSTL_VECTOR(vec, struct rec);
                        cstl_vector_resize(&vec, n);
                        memcpy(cstl_vector_data(&vec), in, n * sizeof(*in));
                        __cstl_vector_sort(&vec, cmp_rec, NULL,
                                           cstl_swap, algo);
                        memcpy(out, cstl_vector_data(&vec), n * sizeof(*in));
                        cstl_vector_clear(&vec);
                    }

                    v = verdict(in, out, n, &where);
                    if (v != 0) {
                        if (++failures <= 12) {
                            printf("FAIL: %s sort, selector %d, %zu elements, "
                                   "%s input: result is not %s (element %zu: "
                                   "key %d after key %d)\n",
                                   entry ? "vector" : "raw array",
                                   selectors[si], n, shape_name[shape],
                                   v == 1 ? "in non-decreasing order"
                                   : "a permutation of the input",
                                   where, out[where].key,
                                   where ? out[where - 1].key : 0);
                        }
                    }
                    free(in);
                    free(out);
                }
            }
        }
    }

    if (failures) {
        printf("FAIL: %d of the sorts did not return a sorted permutation\n",
               failures);
        return 1;
    }
    printf("PASS\n");
    return 0;
}
