/* C10 / wave 5, change 1: insert_ch / append_ch of more than 256 characters.
 *
 * Builds a narrow and a wide string, asks the library to append / insert a run
 * of 300 (and 1000) copies of one character and compares size(), str() and the
 * terminator with a reference built by hand.  Everything is deterministic: the
 * storage is pre-filled with 'x' so that any position the library fails to
 * write still holds an 'x'.
 */
#include <stdio.h>
#include <stdlib.h>
#include <string.h>
#include <wchar.h>
#include "cstl/string.h"

static int failures;

#define FAILF(...) do { printf("FAIL: " __VA_ARGS__); printf("\n"); failures++; } while (0)

static void check_narrow(const char * what, const cstl_string_t * s,
                         const char * ref, size_t n)
{
    const char * p = cstl_string_str(s);
    size_t i;
    if (cstl_string_size(s) != n) {
        FAILF("%s: size() is %zu, reference %zu", what, cstl_string_size(s), n);
        return;
    }
    for (i = 0; i < n; i++) {
        if (p[i] != ref[i]) {
            FAILF("%s: str()[%zu] is '%c', reference '%c' (size %zu)",
                  what, i, p[i], ref[i], n);
            return;
        }
    }
    if (p[n] != '\0') {
        FAILF("%s: str()[size] is not NUL", what);
    }
}

static void check_wide(const char * what, const cstl_wstring_t * s,
                       const wchar_t * ref, size_t n)
{
    const wchar_t * p = cstl_wstring_str(s);
    size_t i;
    if (cstl_wstring_size(s) != n) {
        FAILF("%s: size() is %zu, reference %zu", what, cstl_wstring_size(s), n);
        return;
    }
    for (i = 0; i < n; i++) {
        if (p[i] != ref[i]) {
            FAILF("%s: str()[%zu] is U+%04lX, reference U+%04lX (size %zu)",
                  what, i, (unsigned long)p[i], (unsigned long)ref[i], n);
            return;
        }
    }
    if (p[n] != L'\0') {
        FAILF("%s: str()[size] is not NUL", what);
    }
}

int main(void)
{
    enum { PRE = 1200 };
    static char xs[PRE], ref[PRE + 16];
    static wchar_t wxs[PRE], wref[PRE + 16];
    size_t i;

    for (i = 0; i < PRE; i++) { xs[i] = 'x'; wxs[i] = L'x'; }

    /* ---- narrow: a rule of 300 dashes ---- */
    {
        DECLARE_CSTL_STRING(string, s);
        cstl_string_insert_str_n(&s, 0, xs, PRE);     /* storage now holds 'x' */
        cstl_string_resize(&s, 0);
        cstl_string_append_ch(&s, 300, '-');
        memset(ref, '-', 300);
        check_narrow("narrow append_ch(300, '-') to \"\"", &s, ref, 300);
        cstl_string_clear(&s);
    }
    /* ---- narrow: indent "hello world" by 1000 blanks after "hello" ---- */
    {
        DECLARE_CSTL_STRING(string, s);
        cstl_string_insert_str_n(&s, 0, xs, PRE);
        cstl_string_set_str(&s, "hello world");
        cstl_string_insert_ch(&s, 5, 1000, ' ');
        memcpy(ref, "hello", 5);
        memset(ref + 5, ' ', 1000);
        memcpy(ref + 1005, " world", 6);
        check_narrow("narrow insert_ch(5, 1000, ' ') into \"hello world\"", &s, ref, 1011);
        cstl_string_clear(&s);
    }
    /* ---- wide: 300 copies of U+2500 (box-drawing dash) ---- */
    {
        DECLARE_CSTL_STRING(wstring, w);
        cstl_wstring_insert_str_n(&w, 0, wxs, PRE);
        cstl_wstring_resize(&w, 0);
        cstl_wstring_append_ch(&w, 300, (wchar_t)0x2500);
        for (i = 0; i < 300; i++) wref[i] = (wchar_t)0x2500;
        check_wide("wide append_ch(300, U+2500) to L\"\"", &w, wref, 300);
        cstl_wstring_clear(&w);
    }
    /* ---- control: 256 and fewer still work ---- */
    {
        DECLARE_CSTL_STRING(string, s);
        cstl_string_insert_str_n(&s, 0, xs, PRE);
        cstl_string_resize(&s, 0);
        cstl_string_append_ch(&s, 256, '=');
        memset(ref, '=', 256);
        check_narrow("narrow append_ch(256, '=')", &s, ref, 256);
        cstl_string_clear(&s);
    }

    if (failures) {
        printf("FAIL (%d check(s)): the string does not equal the reference after insert_ch/append_ch\n", failures);
        return 1;
    }
    printf("PASS\n");
    return 0;
}
