/*
 * C01 / wave 5, change 1: demo.
 *
 * Linked against the library exactly as `make b` ships it (build/libcstl.a).
 * Drives a cstl_bintree and a cstl_rbtree with small insert/erase histories
 * that erase nodes having two children (root and inner nodes, successor being
 * the node's own child or deeper) and compares size / find / both traversals
 * with a plain reference multiset after every operation.
 */
#include <stdio.h>
#include <stdlib.h>
#include <string.h>

#include "cstl/bintree.h"
#include "cstl/rbtree.h"

struct item {
    int key;
    int id;
    int held;
    int seen;
    struct cstl_bintree_node bn;
    struct cstl_rbtree_node rn;
};

static int cmp_item(const void * a, const void * b, void * p)
{
    (void)p;
    return ((const struct item *)a)->key - ((const struct item *)b)->key;
}

#define MAXI 64
static struct item pool[MAXI];
static int npool;
static int failures;

struct walk {
    int n, last, bad_order, foreign;
    int rev;
};

static int visit(const void * e, cstl_bintree_visit_order_t ord, void * p)
{
    struct walk * const w = p;
    struct item * const it = (struct item *)e;

    if (ord != CSTL_BINTREE_VISIT_ORDER_MID
        && ord != CSTL_BINTREE_VISIT_ORDER_LEAF) {
        return 0;
    }
    if (w->n > 4 * MAXI) {
        return 1;
    }
    if (it < pool || it >= pool + npool || !it->held) {
        w->foreign++;
    } else {
        it->seen++;
    }
    if (w->n > 0) {
        if (!w->rev && it->key < w->last) w->bad_order++;
        if (w->rev && it->key > w->last) w->bad_order++;
    }
    w->last = it->key;
    w->n++;
    return 0;
}

static void fail(const char * tree, const char * when, const char * what)
{
    printf("FAIL: %s, %s: %s\n", tree, when, what);
    failures++;
}

static void audit(int rb, struct cstl_bintree * bt, struct cstl_rbtree * rt,
                  const char * when)
{
    const char * const tree = rb ? "rbtree" : "bintree";
    char msg[160];
    size_t sz, held = 0;
    int i, dir;

    for (i = 0; i < npool; i++) held += pool[i].held;
    sz = rb ? cstl_rbtree_size(rt) : cstl_bintree_size(bt);
    if (sz != held) {
        snprintf(msg, sizeof msg, "size() is %zu, %zu elements are held",
                 sz, held);
        fail(tree, when, msg);
    }
    for (dir = 0; dir < 2; dir++) {
        struct walk w;
        memset(&w, 0, sizeof w);
        w.rev = dir;
        for (i = 0; i < npool; i++) pool[i].seen = 0;
        if (rb) {
            cstl_rbtree_foreach(rt, visit, &w,
                                dir ? CSTL_BINTREE_FOREACH_DIR_REV
                                : CSTL_BINTREE_FOREACH_DIR_FWD);
        } else {
            cstl_bintree_foreach(bt, visit, &w,
                                 dir ? CSTL_BINTREE_FOREACH_DIR_REV
                                 : CSTL_BINTREE_FOREACH_DIR_FWD);
        }
        if (w.foreign) {
            snprintf(msg, sizeof msg,
                     "%s traversal presents %d element(s) that are not held "
                     "(already erased)", dir ? "reverse" : "forward",
                     w.foreign);
            fail(tree, when, msg);
        }
        if (w.bad_order) {
            fail(tree, when, "traversal out of order");
        }
        for (i = 0; i < npool; i++) {
            if (pool[i].held && pool[i].seen != 1) {
                snprintf(msg, sizeof msg,
                         "held element key %d presented %d time(s) by the %s "
                         "traversal", pool[i].key, pool[i].seen,
                         dir ? "reverse" : "forward");
                fail(tree, when, msg);
            }
        }
    }
    for (i = 0; i < npool; i++) {
        struct item probe;
        const struct item * r;
        int j, have = 0;

        probe.key = pool[i].key;
        for (j = 0; j < npool; j++) {
            if (pool[j].held && pool[j].key == probe.key) have = 1;
        }
        r = rb ? cstl_rbtree_find(rt, &probe, NULL)
            : cstl_bintree_find(bt, &probe, NULL);
        if ((r != NULL) != have) {
            snprintf(msg, sizeof msg, "find(%d) returns %s although the key "
                     "is %s", probe.key, r ? "an element" : "NULL",
                     have ? "held" : "not held");
            fail(tree, when, msg);
        } else if (r != NULL && !r->held) {
            snprintf(msg, sizeof msg,
                     "find(%d) returns an element that was erased", probe.key);
            fail(tree, when, msg);
        }
    }
}

/* positive number: insert that key; negative: erase that key */
static void history(int rb, const int * ops, int nops, const char * name)
{
    struct cstl_bintree bt;
    struct cstl_rbtree rt;
    char when[96];
    int i;

    cstl_bintree_init(&bt, cmp_item, NULL, offsetof(struct item, bn));
    cstl_rbtree_init(&rt, cmp_item, NULL, offsetof(struct item, rn));
    npool = 0;
    memset(pool, 0, sizeof pool);

    for (i = 0; i < nops && failures < 12; i++) {
        if (ops[i] > 0) {
            struct item * const it = &pool[npool];
            it->key = ops[i];
            it->id = npool++;
            it->held = 1;
            if (rb) cstl_rbtree_insert(&rt, it, NULL);
            else cstl_bintree_insert(&bt, it, NULL);
            snprintf(when, sizeof when, "%s, after insert(%d)", name, ops[i]);
        } else {
            struct item probe, * r;
            int j, have = 0;

            probe.key = -ops[i];
            for (j = 0; j < npool; j++) {
                if (pool[j].held && pool[j].key == probe.key) have = 1;
            }
            r = rb ? cstl_rbtree_erase(&rt, &probe)
                : cstl_bintree_erase(&bt, &probe);
            snprintf(when, sizeof when, "%s, after erase(%d)", name, -ops[i]);
            if ((r != NULL) != have) {
                fail(rb ? "rbtree" : "bintree", when,
                     r ? "erase returned an element for a key that is not held"
                     : "erase returned NULL for a key that is held");
            }
            if (r != NULL) {
                if (r < pool || r >= pool + npool || !r->held
                    || r->key != probe.key) {
                    fail(rb ? "rbtree" : "bintree", when,
                         "erase returned something that is not a held "
                         "element with that key");
                } else {
                    r->held = 0;
                }
            }
        }
        audit(rb, &bt, &rt, when);
    }
}

int main(void)
{
    /* erase the root while it has two children, successor is its own child */
    static const int h1[] = { 5, 3, 8, -5, 4, -3, -8, -4 };
    /* erase an inner node with two children, successor deeper */
    static const int h2[] = { 50, 30, 70, 20, 40, 35, 45, 60, 80, -30, -50,
                              -70, 30, -40
                            };
    /* duplicates around a two-child erase */
    static const int h3[] = { 4, 2, 6, 2, 6, 4, -4, -4, -2, 5, -6 };
    int rb;

    for (rb = 0; rb < 2; rb++) {
        history(rb, h1, sizeof h1 / sizeof * h1, "history 1");
        history(rb, h2, sizeof h2 / sizeof * h2, "history 2");
        history(rb, h3, sizeof h3 / sizeof * h3, "history 3");
    }

    if (failures) {
        printf("FAIL: %d violation(s) of C01 with the library as built by "
               "`make b`\n", failures);
        return 1;
    }
    printf("PASS\n");
    return 0;
}
