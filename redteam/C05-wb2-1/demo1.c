/*
 * C05 / red team round 2, change 1
 *
 * A two-level tree the way it is built with shared/weak pointers everywhere:
 * the parent owns its child through a shared pointer, the child refers back
 * to its parent through a weak pointer (no ownership cycle). Each object's
 * clear function lets go of the smart pointers the object contains.
 *
 * Resetting the only owner of the parent must
 *   - run the parent's clear function once (which resets the child pointer),
 *   - run the child's clear function once (which resets the weak back pointer),
 *   - release both memories and both bookkeeping blocks: nothing stays allocated,
 * and it must RETURN.
 */
#include <stdio.h>
#include <stdlib.h>
#include <string.h>
#include <signal.h>
#include <unistd.h>

#include "cstl/memory.h"

/* allocation accounting (linked with --wrap=malloc,--wrap=free) */
void * __real_malloc(size_t);
void __real_free(void *);
static long live_blocks;
void * __wrap_malloc(size_t n)
{
    void * const p = __real_malloc(n);
    if (p != NULL) {
        live_blocks++;
    }
    return p;
}
void __wrap_free(void * p)
{
    if (p != NULL) {
        live_blocks--;
    }
    __real_free(p);
}

struct parent
{
    char name[24];
    cstl_shared_ptr_t child;
};

struct child
{
    char name[24];
    cstl_weak_ptr_t parent;
};

static int parent_cleared, child_cleared;
static const char * volatile stage = "start";

static void child_clear(void * const mem, void * const priv)
{
    struct child * const c = mem;
    (void)priv;
    child_cleared++;
    stage = "cstl_weak_ptr_reset(&child->parent) called from the child's clear function";
    cstl_weak_ptr_reset(&c->parent);
    stage = "child's clear function done";
}

static void parent_clear(void * const mem, void * const priv)
{
    struct parent * const p = mem;
    (void)priv;
    parent_cleared++;
    stage = "cstl_shared_ptr_reset(&parent->child) called from the parent's clear function";
    cstl_shared_ptr_reset(&p->child);
    stage = "parent's clear function done";
}

static void on_alarm(int sig)
{
    static const char m1[] = "FAIL: resetting the last owner of the parent never returned; stuck in: ";
    static const char m2[] = "\n      (the library spins forever on the lock flag of the parent's bookkeeping block)\n";
    ssize_t r;
    (void)sig;
    r = write(1, m1, sizeof(m1) - 1);
    r = write(1, (const char *)stage, strlen((const char *)stage));
    r = write(1, m2, sizeof(m2) - 1);
    (void)r;
    _exit(1);
}

int main(void)
{
    DECLARE_CSTL_SHARED_PTR(root);
    struct parent * p;
    struct child * c;
    long before;
    int fail = 0;

    signal(SIGALRM, on_alarm);
    alarm(3);

    before = live_blocks;

    cstl_shared_ptr_alloc(&root, sizeof(struct parent), parent_clear);
    p = cstl_shared_ptr_get(&root);
    strcpy(p->name, "parent");
    cstl_shared_ptr_init(&p->child);

    cstl_shared_ptr_alloc(&p->child, sizeof(struct child), child_clear);
    c = cstl_shared_ptr_get(&p->child);
    strcpy(c->name, "child");
    cstl_weak_ptr_init(&c->parent);
    cstl_weak_ptr_from(&c->parent, &root);

    if (cstl_shared_ptr_unique(&root)) {
        printf("FAIL: unique() is true although the child holds a weak reference\n");
        fail = 1;
    }

    /* the last (only) owner of the parent lets go: the whole tree goes away */
    stage = "cstl_shared_ptr_reset(&root)";
    cstl_shared_ptr_reset(&root);
    stage = "after the reset";
    alarm(0);

    if (parent_cleared != 1 || child_cleared != 1) {
        printf("FAIL: clear functions ran %d (parent) / %d (child) times, expected once each\n",
               parent_cleared, child_cleared);
        fail = 1;
    }
    if (cstl_shared_ptr_get(&root) != NULL) {
        printf("FAIL: root still returns memory after reset\n");
        fail = 1;
    }
    if (live_blocks != before) {
        printf("FAIL: %ld block(s) still allocated after every pointer was reset\n",
               live_blocks - before);
        fail = 1;
    }

    if (!fail) {
        printf("PASS\n");
    }
    return fail;
}
