#!/bin/sh
# setup_cmd: offline sanity check of the toolchain the checks need. Nothing is
# built from /repo here: every check rebuilds from /repo's working tree itself.
set -e
cd "$(dirname "$0")"
for t in clang clang++ python3 make gcc ar nm; do
    command -v $t >/dev/null || { echo "missing tool: $t"; exit 1; }
done
mkdir -p build evidence replays
cat > build/.probe.c <<'EOC'
#include <stdlib.h>
int main(void) { void *p = malloc(3); free(p); return 0; }
EOC
clang -fsanitize=address -o build/.probe build/.probe.c
./build/.probe
rm -f build/.probe build/.probe.c
echo "setup ok"
