#!/bin/sh
# run from the worktree root: sh _seed/run_demo1.sh
set -e
make b >/dev/null 2>&1 || { echo "make b failed"; exit 2; }
gcc -std=gnu99 -O1 -g -Iinclude _seed/demo1.c build/libcstl.a -lm -lpthread \
    -Wl,--wrap=malloc -Wl,--wrap=free -o _seed/demo1.bin || exit 2
set +e
timeout 60 ./_seed/demo1.bin
rc=$?
if [ $rc -eq 124 ]; then echo "FAIL: the demo did not terminate within 60 s (the map's tree has a cycle)"; rc=1;
elif [ $rc -ne 0 ] && [ $rc -ne 1 ]; then echo "FAIL: the demo crashed (exit status $rc)"; rc=1; fi
exit $rc
