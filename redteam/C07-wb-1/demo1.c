/*
 * C07 demo 1: push/pop against the library as `make b` ships it
 * (build/libcstl.a, i.e. -O2 -DNDEBUG). After every operation the size
 * must equal the number of elements pushed and not yet popped, and pop
 * must hand out the elements in non-increasing priority order.
 */
#include <stdio.h>
#include <stdlib.h>
#include "cstl/heap.h"

struct item { int prio; int in; struct cstl_heap_node hn; };

static int cmp(const void * a, const void * b, void * p)
{
    (void)p;
    return ((const struct item *)a)->prio - ((const struct item *)b)->prio;
}

static int fail(const char * what, long a, long b)
{
    printf("FAIL: %s (got %ld, expected %ld)\n", what, a, b);
    return 1;
}

int main(void)
{
    static struct item it[8];
    static const int prio[8] = { 4, 9, 2, 9, 7, 1, 5, 3 };
    struct cstl_heap h;
    size_t count = 0;
    int i, last;

    cstl_heap_init(&h, cmp, NULL, offsetof(struct item, hn));

    for (i = 0; i < 5; i++) {
        it[i].prio = prio[i];
        it[i].in = 1;
        cstl_heap_push(&h, &it[i]);
        count++;
        if (cstl_heap_size(&h) != count)
            return fail("size after push", (long)cstl_heap_size(&h), (long)count);
    }

    /* one pop: the maximum comes out and the size goes down by one */
    {
        struct item * const top = cstl_heap_pop(&h);
        if (top == NULL || top->prio != 9)
            return fail("first pop is not the maximum", top ? top->prio : -1, 9);
        top->in = 0;
        count--;
        if (cstl_heap_size(&h) != count)
            return fail("size after pop does not track the count",
                        (long)cstl_heap_size(&h), (long)count);
    }

    /* push after pop, then drain */
    for (i = 5; i < 8; i++) {
        it[i].prio = prio[i];
        it[i].in = 1;
        cstl_heap_push(&h, &it[i]);
        count++;
        if (cstl_heap_size(&h) != count)
            return fail("size after push following a pop", (long)cstl_heap_size(&h), (long)count);
    }
    last = 1000;
    while (count > 0) {
        struct item * const top = cstl_heap_pop(&h);
        if (top == NULL)
            return fail("pop returned NULL on a non-empty heap", 0, (long)count);
        if (!top->in)
            return fail("pop returned an element that is not in the heap", top->prio, -1);
        if (top->prio > last)
            return fail("pop order is not non-increasing", top->prio, last);
        last = top->prio;
        top->in = 0;
        count--;
        if (cstl_heap_size(&h) != count)
            return fail("size while draining", (long)cstl_heap_size(&h), (long)count);
    }
    if (cstl_heap_pop(&h) != NULL || cstl_heap_get(&h) != NULL)
        return fail("empty heap does not yield NULL", 1, 0);

    printf("PASS\n");
    return 0;
}
