#!/bin/sh
# run from the worktree root: sh _seed/run_demo1.sh
set -e
make b >/dev/null 2>&1 || { echo "FAIL: make b failed"; exit 1; }
gcc -std=gnu99 -Wall -Iinclude _seed/demo1.c build/libcstl.a \
    -Wl,--wrap=malloc -Wl,--wrap=free -lm -lpthread -o _seed/demo1.bin \
    || { echo "FAIL: demo does not compile"; exit 1; }
set +e
./_seed/demo1.bin
rc=$?
if [ $rc -ne 0 ]; then exit 1; fi
exit 0
