/*
 * C05 / red team round 2, change 2
 *
 * An observer registry: N small session objects (200 bytes each), each owned by
 * one shared pointer; a registry keeps a weak pointer to every session so that
 * it can find out later whether the session is still around. All sessions end
 * (their only owner is reset); the registry is swept lazily, much later.
 *
 * C05: "... the memory is released once, at the moment the last owning shared
 * pointer is reset or re-targeted: never earlier, never later". So once the
 * owners are gone the only thing the library may still hold per session is the
 * bookkeeping block (a few counters), not the session's memory.
 */
#include <stdio.h>
#include <stdlib.h>
#include <string.h>
#include <malloc.h>

#include "cstl/memory.h"

void * __real_malloc(size_t);
void __real_free(void *);
static long live_blocks;
static long live_bytes;
static const void * watch;      /* address handed out by get() for one session */
static int watch_freed;
void * __wrap_malloc(size_t n)
{
    void * const p = __real_malloc(n);
    if (p != NULL) {
        live_blocks++;
        live_bytes += (long)malloc_usable_size(p);
    }
    return p;
}
void __wrap_free(void * p)
{
    if (p != NULL) {
        live_blocks--;
        live_bytes -= (long)malloc_usable_size(p);
        if (p == watch) {
            watch_freed++;
        }
    }
    __real_free(p);
}

#define N       2000
#define OBJSZ   200

static cstl_shared_ptr_t owner[N];
static cstl_weak_ptr_t registry[N];
static int cleared;

static void session_clear(void * const mem, void * const priv)
{
    (void)mem; (void)priv;
    cleared++;
}

int main(void)
{
    DECLARE_CSTL_SHARED_PTR(probe);
    long base_blocks, base_bytes, held_blocks, held_bytes;
    int i, fail = 0, locked = 0;

    base_blocks = live_blocks;
    base_bytes = live_bytes;

    for (i = 0; i < N; i++) {
        cstl_shared_ptr_init(&owner[i]);
        cstl_weak_ptr_init(&registry[i]);
        cstl_shared_ptr_alloc(&owner[i], OBJSZ, session_clear);
        if (cstl_shared_ptr_get(&owner[i]) == NULL) {
            printf("FAIL: allocation %d failed\n", i);
            return 1;
        }
        memset(cstl_shared_ptr_get(&owner[i]), 0x5a, OBJSZ);
        cstl_weak_ptr_from(&registry[i], &owner[i]);
    }

    /* every session ends: its last (only) owner lets go */
    watch = cstl_shared_ptr_get(&owner[0]);
    for (i = 0; i < N; i++) {
        cstl_shared_ptr_reset(&owner[i]);
    }

    held_blocks = live_blocks - base_blocks;
    held_bytes = live_bytes - base_bytes;

    if (cleared != N) {
        printf("FAIL: %d of %d clear callbacks ran when the owners let go\n", cleared, N);
        fail = 1;
    }
    for (i = 0; i < N; i++) {
        cstl_weak_ptr_lock(&registry[i], &probe);
        if (cstl_shared_ptr_get(&probe) != NULL) {
            locked++;
        }
        cstl_shared_ptr_reset(&probe);
    }
    if (locked) {
        printf("FAIL: %d expired weak pointers could still be locked\n", locked);
        fail = 1;
    }
    /*
     * all that may be left per dead session is its bookkeeping block. the memory
     * of the sessions themselves (N * 200 bytes) must have gone back to the allocator
     */
    if (held_bytes >= (long)N * OBJSZ || !watch_freed) {
        printf("FAIL: all %d owners are gone (clear callbacks ran: %d) but the library still holds\n"
               "      %ld bytes in %ld blocks = %ld bytes per dead session; the %d-byte memory of a session\n"
               "      %s released when its last owner was reset\n",
               N, cleared, held_bytes, held_blocks, held_bytes / N, OBJSZ,
               watch_freed ? "was" : "was NOT");
        fail = 1;
    }

    /* the lazy sweep, much later */
    for (i = 0; i < N; i++) {
        cstl_weak_ptr_reset(&registry[i]);
    }
    if (live_blocks != base_blocks) {
        printf("FAIL: %ld blocks leaked after every pointer was reset\n", live_blocks - base_blocks);
        fail = 1;
    }

    if (!fail) {
        printf("PASS (held after the owners left: %ld bytes per dead session, bookkeeping only)\n", held_bytes / N);
    }
    return fail;
}
